#!/usr/bin/env python3
"""confirm_seed.py <src_dir> <prop> <name> <needs-text>

Confirms a seeded change in a scratch copy of /repo (outside /repo and /verif, removed afterwards):
patch applies, the pinned suite still passes (350 passed, same failures as baseline), the demo exits 0
on the clean copy and non-zero on the patched copy.  On success copies it to /verif/seeded/<prop>-<name>/.
"""
import json, os, shutil, subprocess, sys, tempfile, re

src, prop, name = sys.argv[1], sys.argv[2], sys.argv[3]
needs = sys.argv[4] if len(sys.argv) > 4 else ''
scratch = tempfile.mkdtemp(prefix='seedconf_', dir='/dev/shm')
repo = os.path.join(scratch, 'repo')
try:
    subprocess.check_call(['rsync', '-a', '--exclude', '.git', '/repo/', repo + '/'])
    def run(cmd, **kw):
        return subprocess.run(cmd, shell=True, cwd=repo, capture_output=True, text=True, env=dict(os.environ, PYTHONPATH=repo), **kw)
    demo = os.path.join(src, 'demo.py')
    r0 = run('/venv/bin/python %s' % demo, timeout=900)
    ap = run('patch -p1 --dry-run < %s/patch.diff' % src)
    if ap.returncode != 0:
        print('PATCH DOES NOT APPLY', ap.stdout, ap.stderr); sys.exit(2)
    run('patch -p1 < %s/patch.diff' % src)
    r1 = run('/venv/bin/python %s' % demo, timeout=900)
    t = run('/venv/bin/python -m pytest -q -p no:cacheprovider --timeout=900 --continue-on-collection-errors tests/unit 2>&1 | tail -3', timeout=1800)
    m = re.search(r'(\d+) passed', t.stdout)
    passed = int(m.group(1)) if m else -1
    mf = re.search(r'(\d+) failed', t.stdout)
    failed = int(mf.group(1)) if mf else 0
    ok = r0.returncode == 0 and r1.returncode != 0 and passed == 350 and failed <= 1
    print('%s-%s: clean demo rc=%d, patched demo rc=%d, suite: %s -> %s' % (prop, name, r0.returncode, r1.returncode, t.stdout.strip().splitlines()[-1] if t.stdout.strip() else '?', 'CONFIRMED' if ok else 'REJECTED'))
    if ok:
        dst = '/verif/seeded/%s-%s' % (prop, name)
        os.makedirs(dst, exist_ok=True)
        shutil.copy(os.path.join(src, 'patch.diff'), dst)
        shutil.copy(demo, dst)
        if os.path.exists(os.path.join(src, 'notes.md')):
            shutil.copy(os.path.join(src, 'notes.md'), dst)
        json.dump({'property': prop, 'id': '%s-%s' % (prop, name), 'needs_to_manifest': needs,
                   'confirmed': {'demo_clean_rc': r0.returncode, 'demo_patched_rc': r1.returncode,
                                 'suite_with_patch': t.stdout.strip().splitlines()[-1],
                                 'note': 'the single failing test (test_use_default_tempdir, needs network) fails identically on the clean tree and is not in the 350-test baseline',
                                 'commands': ['rsync /repo -> scratch; patch -p1 < patch.diff',
                                              '/venv/bin/python demo.py (cwd=scratch repo) clean and patched',
                                              '/venv/bin/python -m pytest -q -p no:cacheprovider --timeout=900 --continue-on-collection-errors tests/unit']},
                   'detected_by': None}, open(os.path.join(dst, 'meta.json'), 'w'), indent=1)
finally:
    shutil.rmtree(scratch, ignore_errors=True)
