#!/bin/sh
# run_seeded.sh <seed-id> [check args...] : run the property's check against a scratch copy of /repo with the seeded patch applied
ID="$1"; shift
PROP=${PROP:-$(echo "$ID" | cut -d- -f1)}
S=$(mktemp -d /dev/shm/seedrun_XXXXXX)
rsync -a --exclude .git /repo/ "$S/repo/"
(cd "$S/repo" && patch -s -p1 < /verif/seeded/$ID/patch.diff) || { echo "patch failed"; rm -rf "$S"; exit 9; }
VERIF_REPO="$S/repo" VERIF_OUT="$S/out" /verif/check "$PROP" "$@"
RC=$?
for f in "$S"/out/replays/*/*.json; do [ -f "$f" ] && python3 -c "import json,sys; d=json.load(open(sys.argv[1])); print('  replay:', d['obligation'], 'model=', d.get('model'), 'native=', d.get('native_replay'))" "$f"; done
rm -rf "$S"
echo "seed $ID -> exit $RC"
exit $RC
