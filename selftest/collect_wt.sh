#!/bin/sh
# collect_wt.sh <prop> <name> : take the seeded change a sub-agent left in the scratch worktree /tmp/wt-<prop> (diff of cassandra/, demo.py, NOTE.txt),
# confirm it independently (selftest/confirm_seed.py: patch applies to /repo's tree, suite unchanged, demo passes clean / fails patched), keep it as
# seeded/<prop>-<name>/, and remove the worktree.
P="$1"; N="$2"; WT=/tmp/wt-$P
S=$(mktemp -d /dev/shm/seedsrc_XXXXXX)
git -C "$WT" diff -- cassandra > "$S/patch.diff"
cp "$WT/demo.py" "$S/demo.py" 2>/dev/null
[ -f "$WT/NOTE.txt" ] && cp "$WT/NOTE.txt" "$S/notes.md"
NEEDS=$(sed -n 2p "$WT/NOTE.txt" 2>/dev/null | cut -c1-400)
python3 /verif/selftest/confirm_seed.py "$S" "$P" "$N" "$NEEDS"
RC=$?
rm -rf "$S"
[ $RC = 0 ] && [ -d /verif/seeded/$P-$N ] && git -C /repo worktree remove --force "$WT" 2>/dev/null
exit $RC
