#!/bin/sh
# collect_benign.sh <prop> <name> : keep the behaviour-preserving change a sub-agent left in /tmp/bn-<prop> as /verif/benign/<prop>-<name>/ (patch.diff, NOTE.txt, check.py),
# after confirming that the patch applies to /repo's tree, the suite is unchanged and check.py passes; then remove the worktree.
P="$1"; N="$2"; WT=/tmp/bn-$P; D=/verif/benign/$P-$N
S=$(mktemp -d /dev/shm/bnconf_XXXXXX)
git -C "$WT" diff -- cassandra > "$S/patch.diff"
[ -s "$S/patch.diff" ] || { echo "$P-$N: empty patch"; rm -rf "$S"; exit 2; }
rsync -a --exclude .git /repo/ "$S/repo/"
(cd "$S/repo" && patch -s -p1 < "$S/patch.diff") || { echo "$P-$N: patch does not apply"; rm -rf "$S"; exit 2; }
T=$(cd "$S/repo" && PYTHONPATH="$S/repo" /venv/bin/python -m pytest -q -p no:cacheprovider --timeout=900 --continue-on-collection-errors tests/unit 2>&1 | tail -1)
C=0; [ -f "$WT/check.py" ] && { (cd "$S/repo" && PYTHONPATH="$S/repo" /venv/bin/python "$WT/check.py" >/dev/null 2>&1); C=$?; }
echo "$P-$N: suite: $T ; check.py rc=$C"
case "$T" in *"350 passed"*) ok=1;; *) ok=0;; esac
if [ $ok = 1 ] && [ $C = 0 ]; then
  mkdir -p "$D"; cp "$S/patch.diff" "$D/"; cp "$WT/NOTE.txt" "$D/" 2>/dev/null; cp "$WT/check.py" "$D/" 2>/dev/null
  git -C /repo worktree remove --force "$WT" 2>/dev/null
  echo "$P-$N: KEPT"
fi
rm -rf "$S"
