#!/bin/sh
# mk_revert_seed.sh <prop> <name> <fix-commit> : keep the reverse of a fix: commit as a regression seed seeded/<prop>-<name>/ (the defect the check found)
P="$1"; N="$2"; C="$3"
D=/verif/seeded/$P-$N; mkdir -p "$D"
git -C /repo diff "$C" "$C~1" > "$D/patch.diff"
python3 - "$P" "$N" "$C" <<'PY'
import json, subprocess, sys
p, n, c = sys.argv[1:4]
msg = subprocess.check_output(['git', '-C', '/repo', 'log', '-1', '--format=%s', c], text=True).strip()
json.dump({'property': p, 'origin': 'reverse of fix commit %s (%s): re-introduces a genuine defect the check found on the pinned tree' % (c, msg),
           'needs_to_manifest': '', 'detected_by': '', 'ran': 'selftest/run_seeded.sh %s-%s' % (p, n)}, open('/verif/seeded/%s-%s/meta.json' % (p, n), 'w'), indent=1)
PY
