#!/bin/sh
# try_mutant.sh <prop> <file-relative-to-repo> <sed-expression> [check args] : ad-hoc mutation on a scratch copy of /repo; prints the verdict lines
P="$1"; F="$2"; E="$3"; shift 3
S=$(mktemp -d /dev/shm/mut_XXXXXX)
rsync -a --exclude .git /repo/ "$S/repo/"
sed -i "$E" "$S/repo/$F"
if diff -q "/repo/$F" "$S/repo/$F" >/dev/null; then echo "MUTATION DID NOT CHANGE THE FILE"; rm -rf "$S"; exit 9; fi
VERIF_REPO="$S/repo" VERIF_OUT="$S/out" /verif/check "$P" "$@" 2>&1 | grep -v WARNING | grep -E "^(HELD|VIOLATION|UNDECIDED|CHECKER|KNOWN)" | sed 's/replay=[^ ]* //' | cut -c1-220 | head -8
RC=$?
rm -rf "$S"
