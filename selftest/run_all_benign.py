#!/usr/bin/env python3
"""run_all_benign.py [jobs] [ids] : apply every behaviour-preserving change of /verif/benign to a scratch copy of /repo and run the property's quick check:
every one must stay quiet (exit 0).  Writes benign/RESULTS.json; prints the ones that are not quiet."""
import concurrent.futures as cf, glob, json, os, re, subprocess, sys, tempfile, shutil
HERE = os.path.dirname(os.path.dirname(os.path.abspath(__file__)))
jobs = int(sys.argv[1]) if len(sys.argv) > 1 else 4
only = sys.argv[2:]


RELATED = {'cassandra/pool.py': 'C09 C12 C13 C15 C20 C45', 'cassandra/connection.py': 'C05 C06 C09 C10 C12 C13 C20 C41 C44 C47',
           'cassandra/cluster.py': 'C09 C13 C14 C15 C16 C17 C18 C19 C20 C25 C41 C42 C43 C45 C46', 'cassandra/protocol.py': 'C03 C04 C16 C18 C39 C46',
           'cassandra/policies.py': 'C21 C22 C23 C24', 'cassandra/util.py': 'C01 C02 C33 C34', 'cassandra/cqltypes.py': 'C01 C02 C28', 'cassandra/query.py': 'C30 C38 C39 C46',
           'cassandra/metadata.py': 'C08 C22 C26 C27', 'cassandra/io/asyncioreactor.py': 'C11', 'cassandra/io/twistedreactor.py': 'C11',
           'cassandra/marshal.py': 'C01 C02', 'cassandra/segment.py': 'C06', 'cassandra/murmur3.py': 'C08', 'cassandra/concurrent.py': 'C32', 'cassandra/timestamps.py': 'C31',
           'cassandra/encoder.py': 'C29', 'cassandra/cqlengine/statements.py': 'C35 C37 C38', 'cassandra/cqlengine/query.py': 'C35 C37 C38', 'cassandra/cqlengine/columns.py': 'C36 C38'}
ALL_RELATED = os.environ.get('BENIGN_RELATED') == '1'       # also run the checks of the other properties that put the changed file under contract


def run(job):
    bid, prop = job
    s = tempfile.mkdtemp(prefix='bnrun_', dir='/dev/shm')
    try:
        subprocess.check_call(['rsync', '-a', '--exclude', '.git', '/repo/', s + '/repo/'])
        p = subprocess.run('patch -s -p1 < %s' % os.path.join(HERE, 'benign', bid, 'patch.diff'), shell=True, cwd=s + '/repo', capture_output=True, text=True)
        if p.returncode != 0:
            return '%s/%s' % (bid, prop), -1, 'patch does not apply'
        r = subprocess.run([os.path.join(HERE, 'check'), prop], capture_output=True, text=True, env=dict(os.environ, VERIF_REPO=s + '/repo', VERIF_OUT=s + '/out', PYVC_JOBS='8'))
        lines = [l for l in r.stdout.splitlines() if re.match(r'^(VIOLATION|UNDECIDED|CHECKER)', l)]
        return '%s/%s' % (bid, prop), r.returncode, '; '.join(l[:200] for l in lines[:3])
    finally:
        shutil.rmtree(s, ignore_errors=True)


ids = sorted(os.path.basename(os.path.dirname(p)) for p in glob.glob(os.path.join(HERE, 'benign', '*', 'patch.diff')))
if only:
    ids = [i for i in ids if i in only or i.split('-')[0] in only]
work = []
for bid in ids:
    props = [bid.split('-')[0]]
    if ALL_RELATED:
        for ln in open(os.path.join(HERE, 'benign', bid, 'patch.diff')):
            m = re.match(r'^\+\+\+ b?/?(\S+)', ln)
            if m:
                props += [x for x in RELATED.get(m.group(1), '').split() if x not in props]
    work += [(bid, p_) for p_ in props]
res = {}
with cf.ThreadPoolExecutor(jobs) as ex:
    for bid, rc, why in ex.map(run, work):
        res[bid] = {'exit': rc, 'lines': why}
        print('%-8s exit=%d %s' % (bid, rc, why), flush=True)
path = os.path.join(HERE, 'benign', 'RESULTS.json')
old = json.load(open(path)) if os.path.exists(path) else {}
old.update(res)
json.dump(old, open(path, 'w'), indent=1, sort_keys=True)
def _ack(key, r):
    bid, prop = key.split('/') if '/' in key else (key, key.split('-')[0])
    mp = os.path.join(HERE, 'benign', bid, 'meta.json')
    if not os.path.exists(mp):
        return False
    a = json.load(open(mp)).get('acknowledged', {}).get(prop)
    return bool(a) and a.get('exit') == r['exit'] and r['exit'] == 2 and 'VIOLATION' not in r.get('lines', '')      # only an UNDECIDED can be acknowledged, never a violation or a crash


acked = [b for b, r in old.items() if r['exit'] != 0 and _ack(b, r)]
bad = [b for b, r in old.items() if r['exit'] != 0 and not _ack(b, r)]
if acked:
    print('acknowledged as undecided (a restructured loop under a loop contract; see its meta.json): %s' % acked)
print('%d behaviour-preserving changes, %d not quiet: %s' % (len(old), len(bad), bad))
