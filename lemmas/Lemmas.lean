/-
Lemmas the contracts of /verif use but the SMT back ends do not prove (inductions).  Checked by `lean` (core library only, no Mathlib import) on every
run of the properties that cite them (C01, C02: pow2_mono; C27, C29: quote_roundtrip), and re-checked by `leanchecker` in the thorough tier.
-/

/-- monotonicity of powers of two: the varint loop invariants use it at the instances named in the harnesses -/
theorem pow2_mono (a b : Nat) (h : a ≤ b) : 2 ^ a ≤ 2 ^ b :=
  Nat.pow_le_pow_right (by decide) h

section Quote
variable {α : Type} [DecidableEq α]

/-- every occurrence of the quote character doubled: SMT-LIB `str.replace_all s q (q ++ q)` for a one-character `q` -/
def esc (q : α) : List α → List α
  | [] => []
  | c :: cs => if c = q then q :: q :: esc q cs else c :: esc q cs

/-- how a CQL (and SQL) lexer reads the inside of a quoted token, starting after the opening quote: a doubled quote is one quote character, a single
quote ends the token.  Returns the token's text and the unread rest, or `none` for an unterminated token. -/
def unesc (q : α) : List α → Option (List α × List α)
  | [] => none
  | [c] => if c = q then some ([], []) else none
  | c :: d :: ds =>
    if c = q then
      if d = q then (unesc q ds).map (fun p => (q :: p.1, p.2)) else some ([], d :: ds)
    else (unesc q (d :: ds)).map (fun p => (c :: p.1, p.2))

/-- L1: the text between the quotes of `q ++ esc s ++ q` reads back as exactly `s`, and the token ends exactly at the closing quote, whatever follows
(as long as it does not itself start with a quote character, which would read as a doubled quote). -/
theorem quote_roundtrip (q : α) (s rest : List α) (h : rest.head? ≠ some q) :
    unesc q (esc q s ++ q :: rest) = some (s, rest) := by
  induction s with
  | nil =>
    cases rest with
    | nil => simp [esc, unesc]
    | cons d ds =>
      have hd : d ≠ q := by
        intro e; apply h; simp [e]
      simp [esc, unesc, hd]
  | cons c cs ih =>
    by_cases hc : c = q
    · subst hc
      simp [esc, unesc, ih]
    · -- the escaped tail followed by the closing quote is never empty
      cases hx : esc q cs ++ q :: rest with
      | nil => simp at hx
      | cons d ds =>
        have : unesc q (d :: ds) = some (cs, rest) := by rw [← hx]; exact ih
        simp [esc, hc, hx, unesc, this]
end Quote

/-- the strict form used next to `pow2_mono`: one more bit doubles -/
theorem pow2_mono_strict (a b : Nat) (h : a < b) : 2 * 2 ^ a ≤ 2 ^ b := by
  have h1 : 2 ^ (a + 1) ≤ 2 ^ b := Nat.pow_le_pow_right (by decide) h
  have h2 : 2 ^ (a + 1) = 2 * 2 ^ a := by rw [Nat.pow_succ, Nat.mul_comm]
  omega

section TwosComplement

/-- big-endian value of a byte string (bytes as naturals) -/
def beVal : List Nat → Nat
  | [] => 0
  | b :: bs => beVal bs + b * 256 ^ bs.length

theorem beVal_lt (r : List Nat) (h : ∀ b ∈ r, b < 256) : beVal r < 256 ^ r.length := by
  induction r with
  | nil => simp [beVal]
  | cons b bs ih =>
    have hb : b < 256 := h b (by simp)
    have hbs : beVal bs < 256 ^ bs.length := ih (fun c hc => h c (by simp [hc]))
    have hmul : b * 256 ^ bs.length + 256 ^ bs.length ≤ 256 * 256 ^ bs.length := by
      have : (b + 1) * 256 ^ bs.length ≤ 256 * 256 ^ bs.length := Nat.mul_le_mul_right _ (by omega)
      rw [Nat.add_mul, Nat.one_mul] at this
      exact this
    simp only [beVal, List.length_cons, Nat.pow_succ]
    rw [Nat.mul_comm (256 ^ bs.length) 256]
    omega

/-- byte strings of the same length with the same big-endian value are the same string -/
theorem beVal_inj : ∀ (r s : List Nat), (∀ b ∈ r, b < 256) → (∀ b ∈ s, b < 256) → r.length = s.length → beVal r = beVal s → r = s
  | [], [], _, _, _, _ => rfl
  | [], _ :: _, _, _, hl, _ => by simp at hl
  | _ :: _, [], _, _, hl, _ => by simp at hl
  | b :: bs, c :: cs, hr, hs, hl, hv => by
    have hlen : bs.length = cs.length := by simpa using hl
    have h1 : beVal bs < 256 ^ bs.length := beVal_lt bs (fun x hx => hr x (by simp [hx]))
    have h2 : beVal cs < 256 ^ bs.length := by
      rw [hlen]; exact beVal_lt cs (fun x hx => hs x (by simp [hx]))
    simp only [beVal] at hv
    rw [← hlen] at hv
    have hm := congrArg (· % 256 ^ bs.length) hv
    simp only [Nat.add_mul_mod_self_right, Nat.mod_eq_of_lt h1, Nat.mod_eq_of_lt h2] at hm
    have hmul : b * 256 ^ bs.length = c * 256 ^ bs.length := by omega
    have hpos : 0 < 256 ^ bs.length := Nat.pow_pos (by decide)
    have hbc : b = c := Nat.eq_of_mul_eq_mul_right hpos hmul
    have htl : bs = cs := beVal_inj bs cs (fun x hx => hr x (by simp [hx])) (fun x hx => hs x (by simp [hx])) hlen hm
    rw [hbc, htl]

/-- P2 of `contracts/varint_common.py`: x fits in n bytes of two's complement -/
def fits (n : Nat) (x : Int) : Prop := -((2 ^ (8 * n - 1) : Nat) : Int) ≤ x ∧ x < ((2 ^ (8 * n - 1) : Nat) : Int)
/-- P3: fewer bytes would not fit -/
def minimal (n : Nat) (x : Int) : Prop := n = 1 ∨ ((2 ^ (8 * n - 9) : Nat) : Int) ≤ x ∨ x < -((2 ^ (8 * n - 9) : Nat) : Int)

theorem length_unique_lt (n m : Nat) (x : Int) (hn : 1 ≤ n) (hlt : n < m) (fn : fits n x) (mm : minimal m x) : False := by
  have hmono : 2 ^ (8 * n - 1) ≤ 2 ^ (8 * m - 9) := pow2_mono _ _ (by omega)
  have hm1 : m ≠ 1 := by omega
  unfold fits at fn
  unfold minimal at mm
  rcases mm with h | h | h
  · exact hm1 h
  · omega
  · omega

/-- P2 and P3 determine the length -/
theorem length_unique (n m : Nat) (x : Int) (hn : 1 ≤ n) (hm : 1 ≤ m) (fn : fits n x) (fm : fits m x) (mn : minimal n x) (mm : minimal m x) : n = m := by
  rcases Nat.lt_trichotomy n m with h | h | h
  · exact (length_unique_lt n m x hn h fn mm).elim
  · exact h
  · exact (length_unique_lt m n x hm h fm mn).elim

/-- P1: the unsigned big-endian value is x, or x + 256^n for a negative x -/
def isRepr (r : List Nat) (x : Int) : Prop :=
  (0 ≤ x → (beVal r : Int) = x) ∧ (x < 0 → (beVal r : Int) = x + ((256 ^ r.length : Nat) : Int))

/-- uniqueness of the minimal two's-complement representation: two byte strings satisfying P0-P3 for the same integer are equal
(so P1-P4 characterise `BigInteger.toByteArray`, and the real `varint_pack`, shown to satisfy them, has no other correct output) -/
theorem twos_complement_unique (r s : List Nat) (x : Int)
    (hr : ∀ b ∈ r, b < 256) (hs : ∀ b ∈ s, b < 256) (nr : 1 ≤ r.length) (ns : 1 ≤ s.length)
    (p1r : isRepr r x) (p1s : isRepr s x) (p2r : fits r.length x) (p2s : fits s.length x)
    (p3r : minimal r.length x) (p3s : minimal s.length x) : r = s := by
  have hl : r.length = s.length := length_unique _ _ x nr ns p2r p2s p3r p3s
  apply beVal_inj r s hr hs hl
  unfold isRepr at p1r p1s
  rw [hl] at p1r
  by_cases hx : x < 0
  · have a := p1r.2 hx
    have b := p1s.2 hx
    omega
  · have hx' : 0 ≤ x := by omega
    have a := p1r.1 hx'
    have b := p1s.1 hx'
    omega
end TwosComplement
