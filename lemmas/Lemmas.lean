/-
Lemmas the contracts of /verif use but the SMT back ends do not prove (inductions).  Checked by `lean` (core library only, no Mathlib import) on every
run of the properties that cite them (C01, C02: pow2_mono; C27, C29: quote_roundtrip), and re-checked by `leanchecker` in the thorough tier.
-/

/-- monotonicity of powers of two: the varint loop invariants use it at the instances named in the harnesses -/
theorem pow2_mono (a b : Nat) (h : a ≤ b) : 2 ^ a ≤ 2 ^ b :=
  Nat.pow_le_pow_right (by decide) h

section Quote
variable {α : Type} [DecidableEq α]

/-- every occurrence of the quote character doubled: SMT-LIB `str.replace_all s q (q ++ q)` for a one-character `q` -/
def esc (q : α) : List α → List α
  | [] => []
  | c :: cs => if c = q then q :: q :: esc q cs else c :: esc q cs

/-- how a CQL (and SQL) lexer reads the inside of a quoted token, starting after the opening quote: a doubled quote is one quote character, a single
quote ends the token.  Returns the token's text and the unread rest, or `none` for an unterminated token. -/
def unesc (q : α) : List α → Option (List α × List α)
  | [] => none
  | [c] => if c = q then some ([], []) else none
  | c :: d :: ds =>
    if c = q then
      if d = q then (unesc q ds).map (fun p => (q :: p.1, p.2)) else some ([], d :: ds)
    else (unesc q (d :: ds)).map (fun p => (c :: p.1, p.2))

/-- L1: the text between the quotes of `q ++ esc s ++ q` reads back as exactly `s`, and the token ends exactly at the closing quote, whatever follows
(as long as it does not itself start with a quote character, which would read as a doubled quote). -/
theorem quote_roundtrip (q : α) (s rest : List α) (h : rest.head? ≠ some q) :
    unesc q (esc q s ++ q :: rest) = some (s, rest) := by
  induction s with
  | nil =>
    cases rest with
    | nil => simp [esc, unesc]
    | cons d ds =>
      have hd : d ≠ q := by
        intro e; apply h; simp [e]
      simp [esc, unesc, hd]
  | cons c cs ih =>
    by_cases hc : c = q
    · subst hc
      simp [esc, unesc, ih]
    · -- the escaped tail followed by the closing quote is never empty
      cases hx : esc q cs ++ q :: rest with
      | nil => simp at hx
      | cons d ds =>
        have : unesc q (d :: ds) = some (cs, rest) := by rw [← hx]; exact ih
        simp [esc, hc, hx, unesc, this]
end Quote
