"""C13 - replacing an overloaded connection never abandons live requests."""
import time
import z3
from pyvc.engine import harness
from pyvc import sym
from pyvc.interp import SObj, PyExc, exc_class
from pyvc.libmodels import LockModel, _M
from contracts import pool_common as P

LEVEL = 'proof'
TRUSTED = ['INV-ID of C09: in_flight counts registered + orphaned + held ids, so in_flight == |orphans| <=> no live (non-orphaned) request',
           'callee contracts of Connection.close and connection_factory (contracts/pool_common.py); A-ATOMIC, A-EXEC, E-COND',
           'residual: a trashed connection whose last live request is answered through process_msg only (no return_connection) is closed at pool shutdown (C12)']
EXPLANATION = 'pre@close obligations (close only while in_flight == |orphans|, decided and done under connection.lock) on the real _replace / return_connection / borrow_connection'

HC = P.HC


def _old(vc, w):
    n = vc.int('old_in_flight')
    k = vc.choice('old_orphans', [0, 1, 2])
    vc.assume(n >= k)          # every orphan holds an in-flight slot (INV-ID)
    old = P.Conn(w, 'old', orphans=list(range(k)), threshold_reached=True)
    old.in_flight = n
    return old, n, k


@harness('C13', '_replace-decision', functions=[HC + '_replace'], native='contracts.native.c13:replay')
def replace(vc):
    """ensures when the replacement connection is up: the old (threshold-reached) connection is closed iff only orphaned streams
    remain on it (in_flight == |orphans|), decided AND done while holding connection.lock so no borrow can slip in between;
    otherwise it is set aside in the trash, still open"""
    w = P.World(vc)
    old, n, k = _old(vc, w)
    pool, lock = P.host_connection(vc, w, old, replacing=True)
    vc.call(HC + '_replace', pool, old)
    only_orphans = vc.ctx.branch((n == k).t)
    if only_orphans:
        vc.check('idle/closed-once', len(old.close_calls) == 1)
        if old.close_calls:
            cc = old.close_calls[0]
            vc.check('idle/closed-under-connection-lock', cc['lock_held'] is True)
            vc.check('idle/no-live-request-at-close', sym.proves(vc.ctx, cc['in_flight'] == cc['orphans']) if sym.is_sym(cc['in_flight']) else cc['in_flight'] == cc['orphans'])
        vc.check('idle/not-trashed', old not in pool.attrs['_trash'])
    else:
        vc.check('live/not-closed', old.close_calls == [] and old.is_closed is False)
        vc.check('live/trashed', old in pool.attrs['_trash'])
    vc.check('post/new-connection-serves-new-requests', pool.attrs['_connection'] is not old and pool.attrs['_connection'] in w.opened)
    vc.must_fail('selfcheck/always-closed', len(old.close_calls) == 1)


@harness('C13', 'return_connection-trashed', functions=[HC + 'return_connection'], native='contracts.native.c13:replay')
def return_trashed(vc):
    """ensures every return on a trashed connection (response or timeout/orphaned) re-checks it: once only orphaned streams remain it
    is closed (under its lock) and leaves the trash; while a live request remains it stays open"""
    w = P.World(vc)
    old, n, k = _old(vc, w)
    vc.assume(n >= 1)
    new = P.Conn(w, 'new')
    pool, lock = P.host_connection(vc, w, new, trash=[old])
    orphaned = vc.choice('stream_was_orphaned', [False, True])
    vc.call(HC + 'return_connection', pool, old, stream_was_orphaned=orphaned)
    after = n if orphaned else n - 1
    vc.check('post/in_flight', old.in_flight == after)
    if vc.ctx.branch((after == k).t):
        vc.check('idle/closed-once-under-lock', len(old.close_calls) == 1 and old.close_calls[0]['lock_held'])
        vc.check('idle/left-the-trash', old not in pool.attrs['_trash'])
    else:
        vc.check('live/still-open-and-trashed', old.close_calls == [] and old in pool.attrs['_trash'])


@harness('C13', 'borrow-after-replacement', functions=[HC + 'borrow_connection'], native='contracts.native.c13:replay')
def borrow_after(vc):
    """ensures a borrower that still holds the old (threshold-reached, now closed) connection is moved to the pool's fresh connection
    and never takes a stream on the closed one; a threshold-reached connection triggers exactly one replacement"""
    w = P.World(vc)
    old = P.Conn(w, 'old', in_flight=3, orphans=[1, 2, 3], threshold_reached=True)
    new = P.Conn(w, 'new', in_flight=0)
    replaced = vc.choice('replacement_finished', [True, False])
    old.is_closed = replaced
    pool, lock = P.host_connection(vc, w, old)
    cond = pool.attrs['_stream_available_condition']
    if replaced:
        # _get_connection is read once at entry (old); the pool meanwhile points to the new one
        first = [True]

        def get_conn(self_):
            if first[0]:
                first[0] = False
                return old
            return new
        vc.stub(HC + '_get_connection', get_conn)
    vc.stub(time.time, lambda: 0.0)
    kind, r = vc.call_catch(HC + 'borrow_connection', pool, 5.0)
    subs = [e for e in w.log if e[0] == 'submit' and getattr(getattr(e[1], 'func', None), '__name__', '') == '_replace']
    vc.check('post/one-replacement-requested', len(subs) == 1 and pool.attrs['_is_replacing'] is True)
    if replaced:
        vc.check('replaced/stream-taken-on-the-new-connection', kind == 'ok' and r[0] is new and new.in_flight == 1)
        vc.check('replaced/old-connection-untouched', old.in_flight == 3)
    else:
        vc.check('pending/old-connection-still-usable', kind == 'ok' and r[0] is old and old.in_flight == 4)


@harness('C13', '_on_timeout-threshold', functions=['cassandra.cluster.ResponseFuture._on_timeout'], native='contracts.native.c13:replay')
def threshold(vc):
    """the timeout that orphans a stream (a connection in any INV-ID state, any threshold, flag already raised or not): ensures the replacement flag is raised
    exactly when the orphan count reaches the threshold and is STICKY - a later timeout below the threshold (late responses have shrunk the orphan set while the
    replacement is still connecting) must not lower it, or _replace finds the flag down and neither trashes nor closes the overloaded connection"""
    from contracts import c09_stream_ids as C9
    from contracts import rf_common as R
    conn, st = C9._conn(vc)
    h1 = R.Host('h1')
    world = R.World(vc, [h1])
    session = R.Session(world, 4)
    fut = R.make_future(vc, world, session, [])
    was = vc.choice('flag_already_raised', [False, True])
    conn.attrs['orphaned_threshold_reached'] = was
    T = conn.attrs['orphaned_threshold']
    vc.assume(T >= 1)
    fut.attrs['_connection'], fut.attrs['_req_id'], fut.attrs['_current_host'] = conn, st['k1'], h1
    vc.call('cassandra.cluster.ResponseFuture._on_timeout', fut)
    n = len(conn.attrs['orphaned_request_ids'].items)
    vc.check('post/stream-orphaned', n == 2)
    flag = conn.attrs['orphaned_threshold_reached']
    reached = vc.ctx.branch((T <= n).t)
    vc.check('post/flag-raised-iff-threshold-reached-or-raised-before', flag is True if (was or reached) else flag is False)
    if was:
        vc.check('sticky/never-lowered', flag is True)


# "closed once only orphaned streams remain" is decided by comparing in_flight with the number of orphans, so it rests on in_flight counting every live request
# (INV-ID).  One path that takes and gives back a slot outside borrow/return is the keyspace switch: set_keyspace_async must take its slot even when there is
# nothing to send, because the pool's callback gives one back.  C12's contract, re-discharged here.
from contracts import c12_pool_accounting as _C12
harness('C13', 'keyspace-switch-keeps-the-in-flight-count-exact', functions=['cassandra.connection.Connection.set_keyspace_async'], native='contracts.native.c12:replay')(_C12.ks_accounting)

# "closed only once nothing is in flight on it" is decided from Connection.in_flight and the orphan set: the connection side of that accounting (a late
# response releases its orphaned stream exactly once; a frame for a stream that is neither registered nor orphaned releases nothing) is C09's contract on
# Connection.process_msg, re-discharged here.
from contracts import c09_stream_ids as _C09
harness('C13', 'late-response-accounting', functions=['cassandra.connection.Connection.process_msg'], native='contracts.native.c09:replay')(_C09.process)
