"""C16 - retries do exactly what the retry policy decided."""
import z3
from pyvc.engine import harness
from pyvc import sym
from pyvc.interp import SObj, PyExc, exc_class
from pyvc.libmodels import PartialModel, _M
from contracts import rf_common as R

LEVEL = 'proof'
TRUSTED = ['the retry policy is an arbitrary decision oracle (any of the four decisions, any consistency level or None)',
           'A-EXEC: Session.submit runs the continuation (_retry_task, verified in C17) once, later', 'A-LOG, A-CB',
           'callee contracts of pool/connection (contracts/rf_common.py); to_exception() of the error messages is interpreted from the real classes']
EXPLANATION = 'postconditions over a ghost call log on the real ResponseFuture._set_result error branches, _handle_retry_decision and _retry; speculative gating in Session._create_response_future'

RF = R.RF

# error kind -> (class name in cassandra.protocol, policy method, info keys)
ERRORS = {
    'read_timeout': ('ReadTimeoutErrorMessage', 'on_read_timeout', ('consistency', 'received_responses', 'required_responses', 'data_retrieved')),
    'write_timeout': ('WriteTimeoutErrorMessage', 'on_write_timeout', ('consistency', 'received_responses', 'required_responses', 'write_type')),
    'unavailable': ('UnavailableErrorMessage', 'on_unavailable', ('consistency', 'required_replicas', 'alive_replicas')),
    'overloaded': ('OverloadedErrorMessage', 'on_request_error', None),
    'bootstrapping': ('IsBootstrappingErrorMessage', 'on_request_error', None),
    'truncate': ('TruncateError', 'on_request_error', None),
    'server_error': ('ServerError', 'on_request_error', None),
    'connection_error': (None, 'on_request_error', None),
}


def _mk(kind):
    cname, method, keys = ERRORS[kind]

    @harness('C16', '_set_result[%s]' % kind, functions=[RF + '_set_result', RF + '_handle_retry_decision', RF + '_retry'],
             native='contracts.native.c16:replay')
    def h(vc):
        from cassandra import protocol
        from cassandra.connection import ConnectionException
        ctx = vc.ctx
        h1 = R.Host('h1')
        world = R.World(vc, [h1])
        session = R.Session(world, 4)
        fut = R.make_future(vc, world, session, [])
        retries0 = vc.int('retries_so_far')
        vc.assume(retries0 >= 0)
        fut.attrs['_query_retries'] = retries0
        cl0 = fut.attrs['message'].attrs['consistency_level']
        pool, conn = world.pools[h1], world.pools[h1].conn
        fut.attrs['_connection'] = conn
        if cname is None:
            resp = SObj(ConnectionException, {'args': ('lost',)})
            info = None
        else:
            info = {k: (vc.bool(k) if k == 'data_retrieved' else vc.int(k)) for k in keys} if keys else vc.opaque('info')
            if keys:
                # what the decoder can produce: a known consistency level / write type, non-negative counts
                for k in keys:
                    if k == 'consistency':
                        vc.assume(sym.and_(info[k] >= 0, info[k] <= 10))
                    elif k == 'write_type':
                        vc.assume(sym.and_(info[k] >= 0, info[k] <= 7))
                    elif k != 'data_retrieved':
                        vc.assume(info[k] >= 0)
            resp = vc.obj(getattr(protocol, cname), code=0x1000, message='m', info=info)
        vc.call(RF + '_set_result', fut, h1, conn, pool, resp)
        calls = [e for e in world.log if e[0] == 'policy']
        vc.check('post/policy-consulted-exactly-once', len(calls) == 1)
        if len(calls) != 1:
            return
        _, name, args, kwargs, (decision, cl) = calls[0]
        vc.check('post/right-policy-method', name == method)
        vc.check('post/statement-passed', len(args) >= 1 and args[0] is fut.attrs['query'])
        vc.check('post/retry_num-is-retries-so-far', kwargs.get('retry_num') is retries0)
        if keys:
            vc.check('post/failure-description-passed', all(kwargs.get(k) is info[k] for k in keys))
        else:
            vc.check('post/error-and-consistency-passed', kwargs.get('error') is resp and len(args) == 2 and args[1] is cl0)
        subs = world.submitted()
        comps = fut.ghost['completions']
        msg_cl = fut.attrs['message'].attrs['consistency_level']
        if decision in (0, 3):
            vc.check('retry/count-incremented', fut.attrs['_query_retries'] == retries0 + 1)
            vc.check('retry/not-completed', comps == [])
            vc.check('retry/one-continuation', len(subs) == 1)
            if len(subs) == 1:
                _, fn, a, k = subs[0]
                vc.check('retry/continuation-is-_retry_task', getattr(getattr(fn, 'func', None), '__name__', '') == '_retry_task' and fn.self_obj is fut)
                vc.check('retry/same-host-iff-RETRY', len(a) == 2 and a[0] is (decision == 0) and a[1] is h1)
            vc.check('retry/consistency-as-decided', (msg_cl is cl0) if cl is None else (msg_cl is cl))
        elif decision == 1:
            vc.check('rethrow/completed-once-with-the-error', len(comps) == 1 and comps[0][0] == 'exception')
            vc.check('rethrow/nothing-submitted', subs == [])
            vc.check('rethrow/count-unchanged', fut.attrs['_query_retries'] is retries0)
            if len(comps) == 1:
                exc = comps[0][1]
                if cname is None:
                    vc.check('rethrow/is-the-connection-error', exc is resp)
                else:
                    vc.check('rethrow/is-the-servers-error', exc is resp or (isinstance(exc, SObj) and issubclass(exc.cls, Exception)))
        else:
            vc.check('ignore/completed-once-with-empty-result', len(comps) == 1 and comps[0] == ('result', None))
            vc.check('ignore/nothing-submitted', subs == [])
        vc.check('post/nothing-sent-on-this-thread', world.sends() == [])
        vc.check('post/error-recorded-for-host', h1 in fut.attrs['_errors'])
        if kind == 'read_timeout':
            vc.must_fail('selfcheck/always-rethrow', decision == 1)
    h.__doc__ = 'on %s: policy.%s consulted once with retry_num == retries so far; then exactly what it decided' % (kind, method)
    return h


for _k in ERRORS:
    _mk(_k)


@harness('C16', 'speculative-gating', functions=['cassandra.cluster.Session._create_response_future'], native='contracts.native.c46:replay')
def gating(vc):
    """ensures the speculative execution plan given to a ResponseFuture comes from the policy only for idempotent statements;
    a non-idempotent statement always gets the no-speculation plan"""
    from contracts.c46_options import create_future
    res = create_future(vc, vary='idempotence')
    if res is None:
        return
    fut_kwargs, ctxinfo = res
    plan = fut_kwargs.get('speculative_execution_plan')
    if ctxinfo['is_idempotent'] is True and ctxinfo['has_spec']:
        vc.check('idempotent/plan-from-policy', plan is ctxinfo['policy_plan'])
    else:
        # None makes ResponseFuture fall back to its class-level NoSpeculativeExecutionPlan
        from cassandra.cluster import ResponseFuture
        from cassandra.policies import NoSpeculativeExecutionPlan
        vc.check('non-idempotent/no-speculation', plan is None)
        vc.check('non-idempotent/default-plan-never-speculates', isinstance(ResponseFuture._spec_execution_plan, NoSpeculativeExecutionPlan)
                 and ResponseFuture._spec_execution_plan.next_execution(None) == -1)


# The retry branch of ResponseFuture._set_result is chosen by the CLASS of the decoded error message (isinstance on ReadTimeoutErrorMessage,
# WriteTimeoutErrorMessage, UnavailableErrorMessage, and Overloaded / IsBootstrapping / TruncateError / ServerError for on_request_error): its precondition is that
# the wire code decodes to that class with the fields the policy is asked with.  Same contract as C04's ERROR harnesses, re-discharged for those codes.
from contracts import c04_responses as _C04
for _code in (0x0000, 0x1000, 0x1001, 0x1002, 0x1003, 0x1100, 0x1200):
    _C04._mk_error(_code, prop='C16', label='decoded-')

# "retry on the same host" means that host only: C17's contract on the continuation _retry_task (scheduled by _retry, A-EXEC), re-discharged here.
from contracts import c17_plan_order as _C17
_RF16 = 'cassandra.cluster.ResponseFuture.'
harness('C16', 'retry-continuation', functions=[_RF16 + '_retry_task', _RF16 + '_query', _RF16 + 'send_request'], native='contracts.native.c17:replay')(_C17.retry_task)
