"""C12 - connection pools keep exact accounting and close what they open."""
import time
import z3
from pyvc.engine import harness
from pyvc import sym
from pyvc.interp import SObj, PyExc, exc_class, call_value, BoundMethod, resolve
from pyvc.libmodels import LockModel, _M
from contracts import pool_common as P

LEVEL = 'proof'
TRUSTED = ['callee contracts of Connection.close/set_keyspace_blocking and cluster.connection_factory (contracts/pool_common.py); capacity and id freshness of borrow are C09',
           'A-ATOMIC (pool._lock, connection.lock), A-EXEC (Session.submit), E-COND (condition variables: no fairness assumed)',
           'ghost OPENED = every connection returned by connection_factory to this pool; CLOSED = connections whose close() ran',
           'interference of shutdown() inside _replace is modelled at the (blocking) connection_factory call']
EXPLANATION = 'ghost OPENED/CLOSED accounting and typestate postconditions on the real HostConnection / HostConnectionPool methods and Connection.set_keyspace_async'

HC = P.HC
KF_REPLACE = 'KF-C12-replace-installs-after-shutdown'


@harness('C12', 'borrow-from-shut-down-pool', functions=[HC + 'borrow_connection', HC + '_get_connection'], native='contracts.native.c12:replay')
def borrow_shutdown(vc):
    """ensures a borrow from a shut-down pool raises ConnectionException, from a pool without a connection NoConnectionsAvailable,
    and neither touches any in-flight count"""
    from cassandra.connection import ConnectionException
    from cassandra.pool import NoConnectionsAvailable
    w = P.World(vc)
    c = P.Conn(w, 'c', in_flight=3)
    state = vc.choice('pool_state', ['shutdown', 'no-connection'])
    pool, lock = P.host_connection(vc, w, None if state == 'no-connection' else c, shutdown=(state == 'shutdown'))
    kind, r = vc.call_catch(HC + 'borrow_connection', pool, 1.0)
    vc.check('post/raises', kind == 'exc' and issubclass(exc_class(r), ConnectionException if state == 'shutdown' else NoConnectionsAvailable))
    vc.check('post/in_flight-untouched', c.in_flight == 3)


@harness('C12', 'shutdown-closes-everything', functions=[HC + 'shutdown'], native='contracts.native.c12:replay')
def shutdown(vc):
    """ensures shutdown() closes the current connection AND every connection set aside in the trash, marks the pool shut down,
    wakes blocked borrowers, and is idempotent; afterwards nothing the pool opened is left open"""
    w = P.World(vc)
    cur = P.Conn(w, 'current') if vc.choice('has_connection', [True, False]) else None
    ntrash = vc.choice('trashed', [0, 1, 2])
    trash = [P.Conn(w, 't%d' % i, in_flight=2) for i in range(ntrash)]
    pool, lock = P.host_connection(vc, w, cur, trash=trash)
    vc.call(HC + 'shutdown', pool)
    vc.check('post/flag', pool.attrs['is_shutdown'] is True)
    vc.check('post/every-opened-connection-closed', all(c.is_closed for c in w.opened))
    vc.check('post/each-closed-once', all(len(c.close_calls) == 1 for c in w.opened))
    vc.check('post/pool-forgets-them', pool.attrs['_connection'] is None and len(pool.attrs['_trash']) == 0)
    vc.check('post/waiters-woken', pool.attrs['_stream_available_condition'].notified >= 1)
    vc.call(HC + 'shutdown', pool)
    vc.check('idempotent/no-second-close', all(len(c.close_calls) == 1 for c in w.opened))
    if ntrash == 2:
        vc.must_fail('selfcheck/trash-left-open', all(not c.is_closed for c in trash))


@harness('C12', 'return_connection', functions=[HC + 'return_connection'], native='contracts.native.c12:replay')
def give_back(vc):
    """ensures in_flight never goes negative through a return (a return follows a borrow: in_flight >= 1; the return of a timed-out
    request, stream_was_orphaned=True, leaves the count to the late response) and a defunct/closed
    connection coming back makes the pool replace it (one _replace submitted) or shut down when the host went down"""
    w = P.World(vc)
    n = vc.int('in_flight')
    vc.assume(n >= 1)
    c = P.Conn(w, 'c')
    c.in_flight = n
    broken = vc.choice('connection_state', ['ok', 'defunct', 'closed'])
    c.is_defunct, c.is_closed = broken == 'defunct', broken == 'closed'
    pool, lock = P.host_connection(vc, w, c)
    w.host_goes_down = vc.choice('host_goes_down', [False, True])
    orphaned = vc.choice('stream_was_orphaned', [False, True])
    if orphaned:
        # a request that timed out keeps its slot until the late response (or the connection's end) releases it in
        # Connection.process_msg: the return at timeout time must leave the count alone, or the slot is given back twice
        vc.call(HC + 'return_connection', pool, c, True)
        vc.check('orphaned/in_flight-left-to-the-late-response', c.in_flight == n)
    else:
        vc.call(HC + 'return_connection', pool, c)
        vc.check('post/in_flight-decremented-once-and-non-negative', sym.and_(c.in_flight == n - 1, c.in_flight >= 0))
    subs = [e for e in w.log if e[0] == 'submit']
    if broken == 'ok':
        vc.check('ok/no-replacement', subs == [] and pool.attrs['is_shutdown'] is False)
    elif w.host_goes_down:
        vc.check('down/pool-shut-down', pool.attrs['is_shutdown'] is True and subs == [])
    else:
        vc.check('broken/one-replacement-submitted', len(subs) == 1 and getattr(getattr(subs[0][1], 'func', None), '__name__', '') == '_replace'
                 and pool.attrs['_is_replacing'] is True and pool.attrs['_connection'] is None)


@harness('C12', '_replace', functions=[HC + '_replace'], native='contracts.native.c12:replay')
def replace(vc):
    """ensures _replace: opens exactly one new connection (with the pool keyspace applied) and installs it, clears the replacing flag;
    a failed attempt re-submits itself and installs nothing; on a shut-down pool it opens nothing.  If shutdown() interleaves while
    the new connection is being opened, the new connection is closed and not installed."""
    w = P.World(vc)
    old = P.Conn(w, 'old', in_flight=2, orphans=[1, 2], threshold_reached=True)
    pool, lock = P.host_connection(vc, w, old, replacing=True, keyspace='ks')
    mode = vc.choice('scenario', ['ok', 'factory-fails', 'already-shutdown', 'shutdown-during-open', 'shutdown-during-keyspace-selection'])
    if mode == 'already-shutdown':
        pool.attrs['is_shutdown'] = True
    if mode == 'factory-fails':
        w.factory_fails = True
    if mode == 'shutdown-during-open':
        w.factory_hook = lambda: call_value(vc.ctx, BoundMethod(resolve(HC + 'shutdown'), pool), [], {})
    if mode == 'shutdown-during-keyspace-selection':
        # the second blocking call of _replace: the USE round trip on the new connection
        class Selecting(P.Conn):
            def set_keyspace_blocking(self_, ks):
                call_value(vc.ctx, BoundMethod(resolve(HC + 'shutdown'), pool), [], {})
                self_.keyspace = ks
        w.conn_class = Selecting
    vc.call(HC + '_replace', pool, old)
    new = [c for c in w.opened if c.name.startswith('new')]
    if mode == 'already-shutdown':
        vc.check('shutdown/opens-nothing', new == [])
    elif mode == 'factory-fails':
        vc.check('fail/retries-itself', len([e for e in w.log if e[0] == 'submit']) == 1 and pool.attrs['_connection'] is old)
    elif mode == 'ok':
        vc.check('ok/one-new-connection-installed', len(new) == 1 and pool.attrs['_connection'] is new[0])
        vc.check('ok/keyspace-applied-before-publishing', new[0].keyspace == 'ks')
        vc.check('ok/replacing-flag-cleared', pool.attrs['_is_replacing'] is False)
        vc.check('ok/locks-released', lock.depth == 0 and old.lock.depth == 0)
    else:
        vc.check('shutdown-during-open/new-connection-not-leaked', all(c.is_closed for c in new) and pool.attrs['_connection'] is None)


@harness('C12', 'legacy-pool-wait', functions=['cassandra.pool.HostConnectionPool._wait_for_conn'], native='contracts.native.c12:replay')
def legacy_wait(vc):
    """ensures a borrower of the legacy (v1/v2) pool that was blocked while the pool got shut down fails with ConnectionException
    instead of being handed a (closed) connection"""
    from cassandra.pool import HostConnectionPool
    from cassandra.connection import ConnectionException
    w = P.World(vc)
    c = P.Conn(w, 'c', in_flight=5)
    pool = vc.obj(HostConnectionPool, _connections=[c], is_shutdown=False, _lock=LockModel('pool._lock'), host=P.HostObj())
    shutdown_while_waiting = vc.choice('shutdown_while_waiting', [True, False])

    def wait(self_, t):
        if shutdown_while_waiting:
            self_.attrs['is_shutdown'] = True
            c.is_closed = True
    vc.stub('cassandra.pool.HostConnectionPool._await_available_conn', wait)
    vc.stub(time.time, lambda: 0.0)
    kind, r = vc.call_catch('cassandra.pool.HostConnectionPool._wait_for_conn', pool, 1.0)
    if shutdown_while_waiting:
        vc.check('shutdown/raises', kind == 'exc' and issubclass(exc_class(r), ConnectionException))
        vc.check('shutdown/in_flight-untouched', c.in_flight == 5)
    else:
        vc.check('ok/borrowed', kind == 'ok' and r[0] is c and c.in_flight == 6)


@harness('C12', 'set_keyspace_async-accounting', functions=['cassandra.connection.Connection.set_keyspace_async'],
         native='contracts.native.c12:replay')
def ks_accounting(vc):
    """ensures set_keyspace_async always takes one in-flight slot before it calls back (also when no USE has to be sent), because the
    pools' completion callbacks return the connection (decrement) unconditionally"""
    from cassandra.connection import Connection
    n = vc.int('in_flight')
    vc.assume(sym.and_(n >= 0, n < 50))
    conn = vc.obj(Connection, lock=LockModel('connection.lock'), in_flight=n, max_request_id=100, keyspace='ks1')
    same = vc.choice('keyspace', ['ks1', '', 'ks2'])
    seen = []
    cb = _M(lambda c, err: seen.append((c.attrs['in_flight'], err)), 'cb')
    vc.stub('cassandra.connection.Connection.get_request_id', lambda self_: 9)
    sent = []
    vc.stub('cassandra.connection.Connection.send_msg', lambda self_, q, rid, cb_: sent.append((q, rid, cb_)))
    vc.call('cassandra.connection.Connection.set_keyspace_async', conn, same, cb)
    vc.check('post/one-slot-taken', conn.attrs['in_flight'] == n + 1)
    if same in ('ks1', ''):
        vc.check('same/called-back-once-after-taking-the-slot', len(seen) == 1 and seen[0][1] is None and sym.proves(vc.ctx, seen[0][0] == n + 1))
        vc.check('same/nothing-sent', sent == [])
    else:
        vc.check('other/USE-sent-once-not-yet-called-back', len(sent) == 1 and seen == [])


# "in-flight counts never go negative" over timeouts and late responses needs the connection side of the accounting: a late response releases its orphaned
# stream exactly once (slot given back once, id leaves the orphan set, so that a reuse of the id is not taken for another late response), and a timeout
# orphans without touching the count.  C09's contracts on Connection.process_msg and ResponseFuture._on_timeout, re-discharged here.
from contracts import c09_stream_ids as _C09
harness('C12', 'late-response-releases-the-slot-once', functions=['cassandra.connection.Connection.process_msg'], native='contracts.native.c09:replay')(_C09.process)
harness('C12', 'timeout-orphans-without-releasing', functions=['cassandra.cluster.ResponseFuture._on_timeout'], native='contracts.native.c09:replay')(_C09.orphaning)
