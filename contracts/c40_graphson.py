"""C40 - GraphSON values survive serialization and deserialization.

The serializers are dispatched through a metaclass registry and go through strftime / isoformat / float formatting / verbose regexes: outside the translatable subset.  BOUNDED stand-in
(contract deserialize(serialize(v)) == v evaluated natively per type and per GraphSON version), plus the integer decomposition of DurationTypeIO.serialize through the AST interpreter over a
symbolic duration: days*86400 + hours*3600 + minutes*60 + seconds recomposes to the duration's whole seconds, with the sign carried separately.
"""
import os
import re
import datetime
import z3
from pyvc.engine import harness
from pyvc import sym
from pyvc.sym import SInt

LEVEL = 'exploration'
TRUSTED = ['bounded: generated values per type (see the bound of the stand-in); nothing about GraphSON is claimed as proved except the integer decomposition of a duration',
           'E-DATETIME for the symbolic timedelta (normalised days / seconds / microseconds fields, abs() and comparison with zero by sign)']
EXPLANATION = 'native round trips through the real GraphSON 1/2/3 serializers and readers on generated values; DurationTypeIO.serialize decomposition on a symbolic timedelta'

TIER = os.environ.get('VERIF_TIER', 'quick')


class _TD(datetime.timedelta):
    """a non-negative timedelta with symbolic normalised fields"""
    def __new__(cls, vc, days, seconds, micro):
        self = datetime.timedelta.__new__(cls, 0)
        self._f = (days, seconds, micro)
        return self

    days = property(lambda self: self._f[0])
    seconds = property(lambda self: self._f[1])
    microseconds = property(lambda self: self._f[2])

    def __lt__(self, other):
        return False                     # the harness supplies the absolute value (the sign is a separate concrete case)

    def __abs__(self):
        return self

    def total_seconds(self):
        return sym.SReal(z3.ToReal((self._f[0] * 86400 + self._f[1]).t) + z3.ToReal(sym.as_int_term(self._f[2])) / 1000000)


@harness('C40', 'duration-decomposition', functions=['cassandra.datastax.graph.graphson.DurationTypeIO.serialize'], native='contracts.native.c40:replay')
def duration_decomposition(vc):
    """for every non-negative duration (days >= 0, 0 <= seconds < 86400, a concrete choice of microseconds): ensures the ISO text P{d}DT{h}H{m}M{s}S has d*86400 + h*3600 + m*60 + s equal to the
    duration's whole seconds with h < 24, m < 60, s < 60, and the fraction printed is exactly the microseconds in fixed notation"""
    from cassandra.datastax.graph.graphson import DurationTypeIO
    days, secs = vc.int('days'), vc.int('seconds')
    vc.assume(sym.and_(days >= 0, days <= 10 ** 9, secs >= 0, secs < 86400))
    micro = vc.choice('microseconds', [0, 1, 99, 300000, 999999])
    seen = {}
    orig = DurationTypeIO._duration_format

    class Fmt(object):
        @staticmethod
        def format(**kw):
            seen.update(kw)
            return 'TEXT'
    DurationTypeIO._duration_format = Fmt
    try:
        vc.call('cassandra.datastax.graph.graphson.DurationTypeIO.serialize', _TD(vc, days, secs, micro))
    finally:
        DurationTypeIO._duration_format = orig
    ok = set(seen) >= {'days', 'hours', 'minutes', 'seconds'}
    vc.check('fields/all-four-rendered', ok)
    if not ok:
        return
    d, h, m = [sym.lift(seen[k]) if not isinstance(seen[k], int) else seen[k] for k in ('days', 'hours', 'minutes')]
    s = seen['seconds']
    from pyvc.libmodels import int_to_str
    total = days * 86400 + secs
    whole = total % 60
    want = sym.SStr(z3.Concat(int_to_str(whole).t, z3.StringVal('.%06d' % micro if micro else '.0')))
    vc.check('seconds/fixed-notation-with-the-exact-microseconds', isinstance(s, (str, sym.SStr)) and sym.lift(s) == want)
    vc.must_fail('selfcheck/hours-always-zero', h == 0)
    vc.check('decomposition/recomposes-to-the-whole-seconds', d * 86400 + h * 3600 + m * 60 + whole == days * 86400 + secs)
    vc.check('decomposition/fields-in-range', sym.and_(h >= 0, h < 24, m >= 0, m < 60, sym.lift(whole) >= 0, sym.lift(whole) < 60, d >= 0))


def graphson_round_trips(tier, seed):
    """under /venv/bin/python: the interpreter that has the geomet package the geometric types need"""
    import json
    import subprocess
    repo = os.environ.get('VERIF_REPO', '/repo')
    verif = os.path.dirname(os.path.dirname(os.path.abspath(__file__)))
    code = 'import json,sys; sys.path.insert(0, %r); sys.path.insert(0, %r); from contracts.native import c40; print(json.dumps(c40.round_trips(%r, %d)))' % (repo, verif, tier, seed)
    p = subprocess.run(['/venv/bin/python', '-W', 'ignore', '-c', code], capture_output=True, text=True, cwd=repo, timeout=1800, env=dict(os.environ, PYTHONPATH=repo))
    try:
        return json.loads([ln for ln in p.stdout.strip().splitlines() if ln.startswith('{')][-1])
    except Exception:
        return {'name': 'graphson-round-trips', 'error': 'no result: %s %s' % (p.stdout[-300:], p.stderr[-800:])}


BOUNDED = [graphson_round_trips]
