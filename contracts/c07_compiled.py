"""C07 - compiled extensions behave exactly like the pure-Python driver.

.pyx and .c files are not Python source and no Cython / C deductive verifier is installed: nothing about this property is proved.  BOUNDED stand-in only: the check builds
cassandra/cmurmur3.c and cassandra/*.pyx (thorough: also the .py modules setup.py cythonizes that import without a cluster: cqltypes, protocol, util, query, metadata) from the CURRENT tree
in a scratch copy, removes the copy afterwards, and compares, natively:
  * the compiled row parsers (obj_parser.ListParser / LazyParser behind row_parser.make_recv_results_rows, i.e. every Des*Type of deserializers.pyx) with ResultMessage.recv_results_rows on
    RESULT/ROWS bodies built from values serialized by the pure-Python cqltypes (the encoders proved in C01/C02): scalars of every type, nested collections, tuples, udts, nulls, empty values;
  * cmurmur3.murmur3 with the pure-Python _murmur3 (proved equal to Cassandra's hash in C08) on keys of every length 0..64 and high-bit tails;
  * (thorough) digests of the compiled .py modules' results with the pure modules' results on the same inputs, in separate interpreters.
"""
import json
import os
import shutil
import subprocess
import sys
import tempfile

LEVEL = 'exploration'
TRUSTED = ['bounded: generated inputs only; the compiled artefacts are outside the family of technique (stated in DESIGN.md section 5)',
           'the build uses a harness-side setuptools + Cython script (the repository\'s setup.py tries to download ez_setup); numpy_parser.pyx is not built (needs numpy headers)',
           'oracle: the pure-Python functions under contract in C01 / C02 / C04 / C08']
EXPLANATION = 'scratch build of the C / Cython sources of the current tree, native differential comparison with the pure-Python functions on generated RESULT bodies, values and keys'

BUILD = r'''
import sys, os, glob
from setuptools import setup, Extension
from Cython.Build import cythonize
pyx = [p for p in glob.glob('cassandra/*.pyx') if 'numpy_parser' not in p]
exts = [Extension('cassandra.cmurmur3', ['cassandra/cmurmur3.c'], extra_compile_args=['-O2'])]
exts += cythonize([Extension('cassandra.' + os.path.basename(p)[:-4], [p], extra_compile_args=['-Wno-unused-function', '-O1']) for p in pyx], nthreads=16, quiet=True)
mods = [m for m in os.environ.get('C07_PY_MODULES', '').split(',') if m]
if mods:
    exts += cythonize([Extension('cassandra.' + m, ['cassandra/%s.py' % m], extra_compile_args=['-Wno-unused-function', '-O1']) for m in mods], nthreads=16, quiet=True, exclude_failures=True)
setup(name='c07', ext_modules=exts, script_args=['build_ext', '--inplace', '-j', '16', '-q'])
'''

WORKER = r'''
import sys, os, io, json, random, struct, uuid, datetime, decimal, hashlib
seed, tier, mode = int(sys.argv[1]), sys.argv[2], sys.argv[3]
rng = random.Random(seed)
from cassandra import cqltypes as T, protocol as P, util

def s(x):
    b = x.encode()
    return struct.pack('>H', len(b)) + b

SCALARS = [
    ('ascii', 1, T.AsciiType, lambda: rng.choice(['', 'abc', '~!'])), ('bigint', 2, T.LongType, lambda: rng.choice([0, -1, 2**63-1, -2**63, rng.randrange(-2**63, 2**63)])),
    ('blob', 3, T.BytesType, lambda: bytes(rng.randrange(256) for _ in range(rng.randrange(0, 9)))), ('boolean', 4, T.BooleanType, lambda: rng.random() < 0.5),
    ('decimal', 6, T.DecimalType, lambda: decimal.Decimal(rng.randrange(-10**15, 10**15)).scaleb(-rng.randrange(0, 12))), ('double', 7, T.DoubleType, lambda: rng.choice([0.0, -0.0, 1.5, 1e308, rng.uniform(-1e9, 1e9)])),
    ('float', 8, T.FloatType, lambda: float(rng.randrange(-2**20, 2**20)) / 8), ('int', 9, T.Int32Type, lambda: rng.choice([0, -1, 2**31-1, -2**31, rng.randrange(-2**31, 2**31)])),
    ('timestamp', 0xB, T.DateType, lambda: datetime.datetime(1970, 1, 1) + datetime.timedelta(milliseconds=rng.randrange(-62135596800000 + 10**9, 253402300799000 - 10**9))),
    ('uuid', 0xC, T.UUIDType, lambda: uuid.UUID(int=rng.getrandbits(128))), ('varchar', 0xD, T.UTF8Type, lambda: rng.choice(['', 'a', 'é中\U0001f600', 'x' * 70])),
    ('varint', 0xE, T.IntegerType, lambda: rng.choice([0, -1, 255, 256, -129, rng.randrange(-2**90, 2**90)])), ('timeuuid', 0xF, T.TimeUUIDType, lambda: util.uuid_from_time(rng.randrange(0, 4 * 10**9), rng.getrandbits(48), rng.getrandbits(14))),
    ('inet', 0x10, T.InetAddressType, lambda: rng.choice(['127.0.0.1', '::1', '10.1.2.3', '2001:db8::1'])), ('date', 0x11, T.SimpleDateType, lambda: util.Date(rng.randrange(-2**31, 2**31))),
    ('time', 0x12, T.TimeType, lambda: util.Time(rng.randrange(86400 * 10**9))), ('smallint', 0x13, T.ShortType, lambda: rng.randrange(-2**15, 2**15)), ('tinyint', 0x14, T.ByteType, lambda: rng.randrange(-128, 128)),
    ('duration', 0x15, T.DurationType, lambda: util.Duration(rng.randrange(-50, 50), rng.randrange(-400, 400), rng.randrange(-10**12, 10**12))),
]

def gen_type(depth):
    """(option bytes, cqltypes class, value generator)"""
    k = rng.randrange(8) if depth > 0 else 0
    if k < 3 or depth == 0:
        nm, code, cls, g = rng.choice(SCALARS)
        return struct.pack('>H', code), cls, g
    if k == 3:
        o, c, g = gen_type(depth - 1)
        return struct.pack('>H', 0x20) + o, T.ListType.apply_parameters([c]), lambda: [g() for _ in range(rng.randrange(0, 4))]
    if k == 4:
        nm, code, c, g = rng.choice([x for x in SCALARS if x[0] in ('int', 'varchar', 'bigint', 'uuid', 'blob', 'smallint')])
        return struct.pack('>H', 0x22) + struct.pack('>H', code), T.SetType.apply_parameters([c]), lambda: util.sortedset(g() for _ in range(rng.randrange(0, 4)))
    if k == 5:
        nm, code, kc, kg = rng.choice([x for x in SCALARS if x[0] in ('int', 'varchar', 'bigint', 'uuid')])
        o, vc_, vg = gen_type(depth - 1)
        def mk():
            m = util.OrderedMapSerializedKey(kc, 4)
            for _ in range(rng.randrange(0, 3)):
                kk = kg()
                m._insert_unchecked(kk, kc.serialize(kk, 4), vg())
            return m
        return struct.pack('>H', 0x21) + struct.pack('>H', code) + o, T.MapType.apply_parameters([kc, vc_]), mk
    if k == 6:
        parts = [gen_type(depth - 1) for _ in range(rng.randrange(1, 4))]
        return struct.pack('>HH', 0x31, len(parts)) + b''.join(p[0] for p in parts), T.TupleType.apply_parameters([p[1] for p in parts]), lambda: tuple(rng.choice([p[2](), None]) for p in parts)
    parts = [gen_type(depth - 1) for _ in range(rng.randrange(1, 3))]
    names = ['f%d' % i for i in range(len(parts))]
    opt = struct.pack('>H', 0x30) + s('ks1') + s('udt%d' % len(parts)) + struct.pack('>H', len(parts)) + b''.join(s(n) + p[0] for n, p in zip(names, parts))
    return opt, T.UserType.make_udt_class('ks1', 'udt%d' % len(parts), tuple(names), tuple(p[1] for p in parts)), lambda: tuple(rng.choice([p[2](), None]) for p in parts)

def canon(v):
    if isinstance(v, float):
        return ('f', repr(v))
    if isinstance(v, (list, tuple)) or type(v).__name__ in ('SortedSet',):
        return [canon(x) for x in v]
    if hasattr(v, 'items') and not isinstance(v, (str, bytes)):
        return [[canon(k), canon(x)] for k, x in v.items()]
    if hasattr(v, '_fields'):
        return [canon(x) for x in v]
    return repr(v)

def rows_case():
    ncols, nrows = rng.randrange(1, 4), rng.randrange(0, 4)
    cols = [gen_type(2) for _ in range(ncols)]
    meta = struct.pack('>ii', 1, ncols) + s('ks') + s('tb') + b''.join(s('c%d' % i) + c[0] for i, c in enumerate(cols))
    body = struct.pack('>i', 2) + meta + struct.pack('>i', nrows)
    for _ in range(nrows):
        for o, cls, g in cols:
            r = rng.random()
            if r < 0.15:
                body += struct.pack('>i', -1)
            elif r < 0.2 and cls in (T.BytesType, T.UTF8Type, T.AsciiType):
                body += struct.pack('>i', 0)
            else:
                b = cls.serialize(g(), 4)
                body += struct.pack('>i', len(b)) + b
    return body

fails, n, seen = [], 0, set()
if mode == 'rows':
    from cassandra.obj_parser import ListParser, LazyParser
    handlers = {'ListParser': P.cython_protocol_handler(ListParser()), 'LazyParser': P.cython_protocol_handler(LazyParser())}
    N = 1500 if tier == 'quick' else 40000
    for _ in range(N):
        body = rows_case()
        n += 1
        seen.add(hashlib.sha1(body).hexdigest())
        try:
            want = P._ProtocolHandler.decode_message(4, {}, 1, 0, 8, body, None, None)
            wrows = canon(want.parsed_rows)
        except Exception as e:
            wrows = 'raised %s' % type(e).__name__
        for nm, h in handlers.items():
            try:
                got = h.decode_message(4, {}, 1, 0, 8, body, None, None)
                grows = canon(list(got.parsed_rows))
                if wrows != grows or got.column_names != want.column_names:
                    fails.append('%s decodes body %s to %r, the pure-Python decoder to %r' % (nm, body.hex()[:200], str(grows)[:300], str(wrows)[:300]))
            except Exception as e:
                if wrows != 'raised %s' % type(e).__name__:
                    fails.append('%s raised %r on body %s which the pure-Python decoder reads as %r' % (nm, e, body.hex()[:200], str(wrows)[:200]))
        if len(fails) > 3:
            break
    # an encrypted column (policy stub: "encryption" reverses the bytes) with values and null cells, through both decoders
    from cassandra.policies import ColDesc
    class Pol(object):
        def contains_column(self, cd):
            return cd.col == 'secret'
        def column_type(self, cd):
            return T.Int32Type
        def decrypt(self, cd, b):
            return bytes(b)[::-1]
    pol = Pol()
    class H(P._ProtocolHandler):
        column_encryption_policy = pol
    fast = {}
    for nm, parser in (('ListParser', ListParser()), ('LazyParser', LazyParser())):
        fast[nm] = P.cython_protocol_handler(parser)
        fast[nm].column_encryption_policy = pol
    for _ in range(200):
        nrows = rng.randrange(1, 4)
        meta = struct.pack('>ii', 1, 2) + s('ks') + s('tb') + s('secret') + struct.pack('>H', 3) + s('plain') + struct.pack('>H', 9)
        body = struct.pack('>i', 2) + meta + struct.pack('>i', nrows)
        for _ in range(nrows):
            body += (struct.pack('>i', -1) if rng.random() < 0.4 else struct.pack('>i', 4) + struct.pack('>i', rng.randrange(-2**31, 2**31))[::-1])
            body += (struct.pack('>i', -1) if rng.random() < 0.3 else struct.pack('>i', 4) + struct.pack('>i', rng.randrange(-2**31, 2**31)))
        n += 1
        seen.add(hashlib.sha1(body).hexdigest())
        try:
            wrows = canon(H.decode_message(4, {}, 1, 0, 8, body, None, None).parsed_rows)
        except Exception as e:
            wrows = 'raised %s' % type(e).__name__
        for nm, h in fast.items():
            try:
                grows = canon(list(h.decode_message(4, {}, 1, 0, 8, body, None, None).parsed_rows))
            except Exception as e:
                grows = 'raised %s' % type(e).__name__
            if grows != wrows:
                fails.append('encrypted column: %s decodes body %s to %r, the pure-Python decoder to %r' % (nm, body.hex()[:160], str(grows)[:200], str(wrows)[:200]))
    # murmur3
    from cassandra.cmurmur3 import murmur3 as cm
    from cassandra.murmur3 import _murmur3 as pm
    for ln in range(0, 65):
        for _ in range(30 if tier == 'quick' else 2000):
            key = bytes(rng.randrange(256) for _ in range(ln))
            keys = [key, bytes([0x80 | b for b in key]), key[:-1] + b'\xff' if key else key]
            for k in keys:
                n += 1
                seen.add(k)
                if cm(k) != pm(k):
                    fails.append('murmur3(%r): C %d, Python %d' % (k, cm(k), pm(k)))
    print(json.dumps({'n': n, 'distinct': len(seen), 'fails': fails[:3]}))
else:
    # digest mode: results of the (pure or compiled) .py modules on fixed inputs, one short hash per input so that the first difference can be named
    items = []
    N = 300 if tier == 'quick' else 5000
    compiled = [m for m in ('cqltypes', 'protocol', 'util', 'query', 'metadata') if getattr(sys.modules.get('cassandra.' + m), '__file__', '').endswith('.so')]
    def h(label, payload):
        items.append([label, hashlib.sha1(payload).hexdigest()[:10]])
    for i in range(N):
        body = rows_case()
        try:
            m = P._ProtocolHandler.decode_message(4, {}, 1, 0, 8, body, None, None)
            h('ROWS body %s' % body.hex()[:120], json.dumps(canon(m.parsed_rows), sort_keys=True).encode())
        except Exception as e:
            h('ROWS body %s' % body.hex()[:120], type(e).__name__.encode())
        n += 1
    for nm, code, cls, g in SCALARS:
        for _ in range(50):
            v = g()
            b = cls.serialize(v, 4)
            h('%s value %r' % (nm, v), b + repr(canon(cls.deserialize(b, 4))).encode())
            n += 1
    from cassandra.metadata import protect_name
    for w in ['a', 'A b', 'select', 'x"y', 'limit']:
        h('protect_name(%r)' % w, protect_name(w).encode())
    print(json.dumps({'n': n, 'items': items, 'compiled': compiled}))
'''


def compiled_vs_pure(tier, seed):
    repo = os.environ.get('VERIF_REPO', '/repo')
    base = os.environ.get('VERIF_SCRATCH', '/dev/shm')
    scratch = tempfile.mkdtemp(prefix='c07_', dir=base if os.path.isdir(base) else None)
    t_build = None
    try:
        dst = os.path.join(scratch, 'repo')
        subprocess.check_call(['rsync', '-a', '--exclude', '.git', '--exclude', 'tests', '--exclude', 'docs', '--exclude', 'build', '--exclude', '*.so', repo + '/', dst + '/'])
        open(os.path.join(dst, 'c07_build.py'), 'w').write(BUILD)
        open(os.path.join(dst, 'c07_worker.py'), 'w').write(WORKER)
        import time
        t0 = time.time()
        env = dict(os.environ, PYTHONPATH=dst, C07_PY_MODULES='' if tier == 'quick' else 'cqltypes,protocol,util,query,metadata')
        b = subprocess.run(['/venv/bin/python', 'c07_build.py'], cwd=dst, capture_output=True, text=True, timeout=1500, env=env)
        t_build = time.time() - t0
        built = [f for f in os.listdir(os.path.join(dst, 'cassandra')) if f.endswith('.so')]
        need = ['cmurmur3', 'deserializers', 'obj_parser', 'row_parser']
        if b.returncode != 0 or not all(any(f.startswith(x + '.') for f in built) for x in need):
            return {'name': 'compiled-versus-pure', 'error': 'the scratch build of the extensions failed (rc %d): %s' % (b.returncode, (b.stdout + b.stderr)[-1500:])}
        w = subprocess.run(['/venv/bin/python', '-W', 'ignore', 'c07_worker.py', str(seed), tier, 'rows'], cwd=dst, capture_output=True, text=True, timeout=3000, env=env)
        try:
            r = json.loads([ln for ln in w.stdout.strip().splitlines() if ln.startswith('{')][-1])
        except Exception:
            return {'name': 'compiled-versus-pure', 'error': 'worker produced no result: %s %s' % (w.stdout[-300:], w.stderr[-1200:])}
        fails, n, distinct = list(r['fails']), r['n'], r['distinct']
        extra = ''
        if tier != 'quick':
            # the compiled .py modules against the pure ones: same inputs, two interpreters, digests compared
            w1 = subprocess.run(['/venv/bin/python', '-W', 'ignore', 'c07_worker.py', str(seed), tier, 'digest'], cwd=dst, capture_output=True, text=True, timeout=3000, env=env)
            w2 = subprocess.run(['/venv/bin/python', '-W', 'ignore', os.path.join(dst, 'c07_worker.py'), str(seed), tier, 'digest'], cwd=repo, capture_output=True, text=True, timeout=3000,
                                env=dict(os.environ, PYTHONPATH=repo))
            try:
                d1 = json.loads([ln for ln in w1.stdout.strip().splitlines() if ln.startswith('{')][-1])
                d2 = json.loads([ln for ln in w2.stdout.strip().splitlines() if ln.startswith('{')][-1])
                n += d1['n']
                extra = '; compiled .py modules %s' % ','.join(d1['compiled'])
                if not d1['compiled']:
                    extra += ' (none of the .py modules compiled: comparison vacuous)'
                diff = [(a, b) for a, b in zip(d1['items'], d2['items']) if a != b]
                if len(d1['items']) != len(d2['items']) or diff:
                    first = diff[0] if diff else (['(different number of inputs)', ''], ['', ''])
                    fails.append('the compiled builds of %s disagree with the pure modules on %d of %d inputs; first: compiled %s / pure %s' % (d1['compiled'], len(diff), len(d1['items']), first[0], first[1]))
            except Exception:
                fails.append('digest comparison produced no result: %s | %s' % (w1.stderr[-400:], w2.stderr[-400:]))
        return {'name': 'compiled-versus-pure', 'kind': 'bounded', 'cases': n, 'evaluations': n, 'distinct_nontrivial': distinct, 'build_s': round(t_build, 1), 'built': sorted(built),
                'samples': ['ROWS body with 1-3 columns of random (nested, depth <= 2) types and 0-3 rows', 'murmur3 key of length 0..64 with high-bit variants'],
                'rule': 'distinct = distinct RESULT bodies (by sha1) + distinct keys; compiled ListParser / LazyParser decode == ResultMessage.recv_results_rows decode; cmurmur3 == _murmur3' + extra,
                'bound': '%d cases: generated ROWS bodies (19 scalar types, list/set/map/tuple/udt nesting to depth 2, nulls, empty values) x 2 compiled parsers; keys of every length 0..64 x 3 variants' % n,
                'violations': fails[:3]}
    finally:
        shutil.rmtree(scratch, ignore_errors=True)


BOUNDED = [compiled_vs_pure]
