"""C10 - a failed connection fails every pending request exactly once."""
import threading
import z3
from pyvc.engine import harness
from pyvc import sym, frames
from pyvc.sym import SInt, SBool
from pyvc.interp import SObj, PyExc, exc_class, call_value, BoundMethod, resolve, make_exception
from pyvc.libmodels import LockModel, _M, SymKey

LEVEL = 'proof'
TRUSTED = ['A-THREAD: a started Thread runs its target exactly once', 'A-CB: handlers are opaque (may raise, do not re-enter the connection)',
           'A-ATOMIC for blocks under connection.lock; reactor close() is a contract (sets is_closed once; socket teardown not modelled)',
           'bounded dimension: up to 3 outstanding handlers unrolled, plus the >= 100-handler (helper thread) path with 100 handlers']
EXPLANATION = 'ghost invocation counters on the real defunct/error_all_requests/error_all_cp_sessions/send_msg/process_msg; interference of defunct() inside send_msg is modelled at the unlocked read between its check and its registration'

CQ = 'cassandra.connection.Connection.'
KF = 'KF-C10-send_msg-races-with-defunct'


def _conn(vc, n_handlers, raising=None, cp_sessions=0):
    from cassandra.connection import Connection
    log = []
    inv = {}

    def mk(i):
        def cb(resp):
            inv[i] = inv.get(i, 0) + 1
            log.append(('cb', i, resp))
            if raising == i:
                raise PyExc(SObj(RuntimeError, {'args': ('handler failed',)}))
        return _M(cb, 'cb%d' % i)
    reqs = {}
    for i in range(n_handlers):
        reqs[100 + i] = (mk(i), None, None)
    lock = LockModel('connection.lock')

    class Ev(object):
        def __init__(self):
            self.is_set_ = False

        def set(self):
            self.is_set_ = True

    class EP(object):
        address, port = '10.0.0.1', 9042

        def __str__(self):
            return '10.0.0.1:9042'

    class CP(object):
        def __init__(self):
            self.errors = []

        def on_error(self, exc):
            self.errors.append(exc)
    cps = {7 + j: CP() for j in range(cp_sessions if isinstance(cp_sessions, int) else 0)}
    conn = vc.obj(Connection, _requests=reqs, lock=lock, is_defunct=False, is_closed=False, last_error=None, endpoint=EP(),
                  connected_event=Ev(), _continuous_paging_sessions=cps)
    if not isinstance(cp_sessions, int):
        # the real ContinuousPagingSession objects, one per kind of paging state (DSE_V1 sessions have none)
        import collections
        from cassandra.connection import ContinuousPagingSession, ContinuousPagingState
        from contracts.pool_common import Cond
        for j, kind in enumerate(cp_sessions):
            state = None if kind == 'no-paging-state' else vc.obj(ContinuousPagingState, num_pages_requested=4, num_pages_received=1, max_queue_size=4)
            cps[7 + j] = vc.obj(ContinuousPagingSession, stream_id=7 + j, decoder=None, row_factory=None, connection=conn, _condition=Cond(LockModel('cp.condition')),
                                _stop=False, _page_queue=collections.deque(), _state=state, released=False)
    closed = []

    def close(self_):
        closed.append(1)
        self_.attrs['is_closed'] = True
    vc.stub(CQ + 'close', close)
    return conn, dict(log=log, inv=inv, closed=closed, lock=lock, cps=cps)


@harness('C10', 'defunct', functions=[CQ + 'defunct', CQ + 'error_all_requests', CQ + 'error_all_cp_sessions', 'cassandra.connection.ContinuousPagingSession.on_error'],
         native='contracts.native.c10:replay')
def defunct(vc):
    """ensures defunct(exc) on a live connection: marks it defunct, remembers exc, closes it once, invokes EVERY outstanding handler
    exactly once with a ConnectionShutdown even if some handler raises, errors every continuous-paging session once (abstract sessions, and the real
    ContinuousPagingSession.on_error with and without a paging state: one error queued, stopped, waiter woken - it must not raise, or the handlers below it are never reached), forgets all
    handlers, releases threads waiting for the handshake; on an already defunct/closed connection it does nothing"""
    from cassandra.connection import ConnectionShutdown
    n = vc.choice('outstanding', [0, 1, 2, 3])
    raising = vc.choice('raising_handler', [None, 0, 1, 2])
    if raising is not None and raising >= n:
        return
    ncp = vc.choice('cp_sessions', [0, 1, 'real:no-paging-state', 'real:with-paging-state', 'real:both'])
    if isinstance(ncp, str):
        ncp = {'real:no-paging-state': ('no-paging-state',), 'real:with-paging-state': ('with-paging-state',), 'real:both': ('with-paging-state', 'no-paging-state')}[ncp]
    conn, st = _conn(vc, n, raising, ncp)
    state = vc.choice('state', ['live', 'defunct', 'closed'])
    if state == 'defunct':
        conn.attrs['is_defunct'] = True
    elif state == 'closed':
        conn.attrs['is_closed'] = True
    exc = SObj(Exception, {'args': ('socket error',)})
    kind, _r = vc.call_catch(CQ + 'defunct', conn, exc)
    vc.check('post/defunct-itself-never-raises', kind == 'ok')
    if state != 'live':
        vc.check('idempotent/no-handler-invoked', st['log'] == [] and st['closed'] == [])
        return
    vc.check('post/marked-defunct', conn.attrs['is_defunct'] is True)
    vc.check('post/error-remembered', conn.attrs['last_error'] is exc)
    vc.check('post/closed-once', st['closed'] == [1])
    vc.check('post/every-handler-exactly-once', all(st['inv'].get(i, 0) == 1 for i in range(n)) and len(st['log']) == n)
    vc.check('post/with-ConnectionShutdown', all(issubclass(exc_class(e[2]), ConnectionShutdown) for e in st['log']))
    vc.check('post/handlers-forgotten', conn.attrs['_requests'] == {})
    if isinstance(ncp, int):
        vc.check('post/cp-sessions-errored-once', all(cp.errors == [exc] for cp in st['cps'].values()))
    else:
        vc.check('post/real-cp-sessions-errored-once-stopped-and-woken',
                 all(list(cp.attrs['_page_queue']) == [(None, None, exc)] and cp.attrs['_stop'] is True and cp.attrs['released'] is True
                     and cp.attrs['_condition'].notified == 1 and cp.attrs['_condition'].lock.depth == 0 for cp in st['cps'].values()))
    vc.check('post/handshake-waiters-released', conn.attrs['connected_event'].is_set_ is True)
    vc.check('post/lock-released', st['lock'].depth == 0)
    if n == 3:
        vc.must_fail('selfcheck/nobody-invoked', st['log'] == [])


@harness('C10', 'error_all_requests[many]', functions=[CQ + 'error_all_requests'], native='contracts.native.c10:replay')
def many(vc):
    """ensures with >= 100 outstanding handlers (the rest are errored from a helper thread): still every handler exactly once"""
    from cassandra import connection as cmod
    conn, st = _conn(vc, 101, raising=1)
    started = []

    class T(object):
        def __init__(self, target=None):
            self.target = target
            self.daemon = False

        def start(self):
            started.append(self)
            from pyvc.engine import cur
            call_value(cur(), self.target, [], {})      # A-THREAD: the target runs once
    vc.stub(cmod.Thread, lambda target=None: T(target))
    vc.call(CQ + 'error_all_requests', conn, SObj(Exception, {'args': ('x',)}))
    vc.check('post/every-handler-exactly-once', all(st['inv'].get(i, 0) == 1 for i in range(101)))
    vc.check('post/one-helper-thread', len(started) == 1)


@harness('C10', 'send_msg-refused', functions=[CQ + 'send_msg'], native='contracts.native.c10:replay')
def send_refused(vc):
    """ensures send_msg on a defunct or closed connection raises ConnectionShutdown and registers nothing; on an unwritable
    socket ConnectionBusy; otherwise registers exactly the given handler under the given id and pushes the encoded frame"""
    from cassandra.connection import ConnectionShutdown, ConnectionBusy, Connection
    conn, st = _conn(vc, 0)
    state = vc.choice('state', ['live', 'defunct', 'closed', 'unwritable'])
    conn.attrs.update(is_defunct=(state == 'defunct'), is_closed=(state == 'closed'), _socket_writable=(state != 'unwritable'),
                      protocol_version=4, compressor=None, allow_beta_protocol_version=False, _is_checksumming_enabled=False)
    pushed = []
    conn.attrs['push'] = _M(lambda data: pushed.append(data), 'push')
    cb = _M(lambda r: None, 'cb')
    kind, r = vc.call_catch(CQ + 'send_msg', conn, 'MSG', 5, cb, encoder=_M(lambda *a, **k: b'FRAME', 'encoder'))
    if state in ('defunct', 'closed'):
        vc.check('refused/ConnectionShutdown', kind == 'exc' and issubclass(exc_class(r), ConnectionShutdown))
        vc.check('refused/nothing-registered-nothing-sent', conn.attrs['_requests'] == {} and pushed == [])
    elif state == 'unwritable':
        vc.check('busy/ConnectionBusy', kind == 'exc' and issubclass(exc_class(r), ConnectionBusy))
        vc.check('busy/nothing-registered', conn.attrs['_requests'] == {} and pushed == [])
    else:
        vc.check('ok/registered-under-its-id', list(conn.attrs['_requests']) == [5] and conn.attrs['_requests'][5][0] is cb)
        vc.check('ok/frame-pushed-once', pushed == [b'FRAME'])


@harness('C10', 'send_msg-vs-defunct', functions=[CQ + 'send_msg', CQ + 'defunct'], native='contracts.native.c10:replay_race')
def send_race(vc):
    """stability of send_msg's 'not defunct' check under interference: defunct() running on another thread between the check and the
    registration (modelled at the unlocked read of _socket_writable that lies between them) must not leave a handler that is never
    invoked.  KNOWN FINDING: send_msg takes no lock, the handler registered after the sweep is never errored."""
    from cassandra.connection import Connection
    conn, st = _conn(vc, 0)
    conn.attrs.update(_socket_writable=True, protocol_version=4, compressor=None, allow_beta_protocol_version=False, _is_checksumming_enabled=False)
    interfere = vc.choice('defunct_interleaves', [False, True])
    conn.attrs['push'] = _M(lambda data: None, 'push')
    fired = []

    def on_get(name, value):
        if name == '_socket_writable' and interfere and not fired:
            fired.append(1)
            call_value(vc.ctx, BoundMethod(resolve(CQ + 'defunct'), conn), [SObj(Exception, {'args': ('io error',)})], {})
        return value
    conn.on_get = on_get
    inv = []
    cb = _M(lambda r: inv.append(r), 'cb')
    kind, r = vc.call_catch(CQ + 'send_msg', conn, 'MSG', 5, cb, encoder=_M(lambda *a, **k: b'FRAME', 'encoder'))
    registered = 5 in conn.attrs['_requests']
    if not interfere:
        vc.check('quiet/registered', kind == 'ok' and registered)
    else:
        # after the connection failed, the handler must have been invoked once or the send refused
        vc.check('KF:%s/handler-errored-or-send-refused' % KF, (kind == 'exc' and not registered) or len(inv) == 1)


@harness('C10', 'send_msg-defunct-while-writing', functions=[CQ + 'send_msg', CQ + 'defunct', CQ + 'error_all_requests'], native='contracts.native.c10:replay_push_race')
def send_push_race(vc):
    """the other interference point of send_msg: the connection fails while (or right after) the frame is handed to the reactor - push() is where a reactor
    notices a dead socket and the event thread defuncts the connection.  ensures the handler of the request being sent is by then registered, so that the
    sweep of defunct() errors it exactly once (a handler registered only after push() would be added to a connection that has already swept)"""
    conn, st = _conn(vc, 0)
    conn.attrs.update(_socket_writable=True, protocol_version=4, compressor=None, allow_beta_protocol_version=False, _is_checksumming_enabled=False)
    when = vc.choice('connection_fails', ['during-push', 'not-at-all'])

    def push(data):
        if when == 'during-push':
            call_value(vc.ctx, BoundMethod(resolve(CQ + 'defunct'), conn), [SObj(Exception, {'args': ('broken pipe',)})], {})
    conn.attrs['push'] = _M(push, 'push')
    inv = []
    cb = _M(lambda r: inv.append(r), 'cb')
    kind, r = vc.call_catch(CQ + 'send_msg', conn, 'MSG', 5, cb, encoder=_M(lambda *a, **k: b'FRAME', 'encoder'))
    if when == 'during-push':
        vc.check('failed-while-writing/handler-errored-exactly-once-or-send-refused', (kind == 'exc' and 5 not in conn.attrs['_requests'] and inv == []) or len(inv) == 1)
        vc.check('failed-while-writing/no-handler-left-registered-on-the-dead-connection', 5 not in conn.attrs['_requests'])
    else:
        vc.check('quiet/registered-and-not-invoked', kind == 'ok' and 5 in conn.attrs['_requests'] and inv == [])


@harness('C10', 'process_msg-decode-error', functions=[CQ + 'process_msg', CQ + 'defunct', CQ + 'error_all_requests'],
         native='contracts.native.c10:replay')
def decode_error(vc):
    """ensures when the response of stream s cannot be decoded: its handler gets the decode error exactly once, the connection is
    defuncted, every OTHER outstanding handler gets a ConnectionShutdown exactly once - the handler of s is not invoked a second time"""
    from cassandra.connection import Connection, ConnectionShutdown
    conn, st = _conn(vc, 2)
    conn.attrs.update(orphaned_request_ids=set(), in_flight=2, _on_orphaned_stream_released=None, request_ids=[], user_type_map={},
                      decompressor=None, is_unsupported_proto_version=False, msg_received=False, _iobuf=None)
    boom = SObj(ValueError, {'args': ('bad frame',)})

    def decoder(*a, **k):
        raise PyExc(boom)
    cb0 = conn.attrs['_requests'][100][0]
    conn.attrs['_requests'][100] = (cb0, _M(decoder, 'decoder'), None)

    class IOB(object):
        def getvalue(self):
            return b''
    conn.attrs['_iobuf'] = IOB()
    header = vc.obj(Connection, stream=100, version=4, flags=0, opcode=8)
    vc.call(CQ + 'process_msg', conn, header, b'')
    vc.check('post/own-handler-exactly-once-with-the-decode-error', [e for e in st['log'] if e[1] == 0] == [('cb', 0, boom)])
    other = [e for e in st['log'] if e[1] == 1]
    vc.check('post/other-handler-exactly-once-with-ConnectionShutdown', len(other) == 1 and issubclass(exc_class(other[0][2]), ConnectionShutdown))
    vc.check('post/defunct', conn.attrs['is_defunct'] is True and st['closed'] == [1])


@harness('C10', 'defunct_on_error', functions=['cassandra.connection.defunct_on_error', CQ + '_send_options_message'], native='contracts.native.c10:replay')
def decorator(vc):
    """the decorator that turns an error on the event-loop thread into a failed connection: ensures a decorated method that raises ANY Exception subclass
    defuncts the connection exactly once with that very exception and propagates nothing, that one which returns normally defuncts nothing, and (frame) that
    every reader / handshake step of Connection that runs on the event loop is decorated with it"""
    import struct
    from cassandra import connection as cmod
    from cassandra.connection import Connection
    kind = vc.choice('inner_raises', [None, OSError, ValueError, struct.error, KeyError, cmod.ProtocolError, Exception])
    calls = []
    conn = vc.obj(Connection, endpoint='ep', is_defunct=False, is_closed=False)
    vc.stub(CQ + 'defunct', lambda self_, exc: calls.append(exc))
    vc.stub(CQ + 'get_request_id', lambda self_: 0)
    raised = []

    def send_msg(self_, msg, rid, cb, **kw):
        if kind is not None:
            e = make_exception(vc.ctx, kind, ('boom',), {})
            raised.append(e)
            raise PyExc(e)
        return 0
    vc.stub(CQ + 'send_msg', send_msg)
    k, r = vc.call_catch(CQ + '_send_options_message', conn)
    vc.check('wrapper/propagates-nothing', k == 'ok')
    if kind is None:
        vc.check('no-error/not-defuncted', calls == [])
    else:
        vc.check('error/defunct-once-with-that-exception', len(calls) == 1 and calls[0] is raised[0])
    wrapper_code = Connection._send_options_message.__code__
    on_loop = ['_read_frame_header', '_process_segment_buffer', 'process_msg', '_send_options_message', '_handle_options_response',
               '_send_startup_message', '_handle_startup_response', '_handle_auth_response']
    missing = [n for n in on_loop if getattr(getattr(Connection, n), '__code__', None) is not wrapper_code or not hasattr(getattr(Connection, n), '__wrapped__')]
    vc.check('frame/every-event-loop-step-is-decorated', wrapper_code.co_name == 'wrapper' and missing == [])
