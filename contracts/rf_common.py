"""Shared harness parts for the ResponseFuture properties (C14-C19): a symbolic ResponseFuture record over stub session /
pools / connections written as callee contracts, plus a ghost log of everything the future does to the outside world."""
import z3
from pyvc import sym
from pyvc.sym import SInt, SBool
from pyvc.interp import SObj, PyExc, make_exception, GenList
from pyvc.libmodels import LockModel, _M

RF = 'cassandra.cluster.ResponseFuture.'


class Host(object):
    def __init__(self, name):
        self.name = name
        self.endpoint = 'endpoint-' + name

    def __repr__(self):
        return '<host %s>' % self.name


class Event(object):
    """threading.Event (E-EVENT): a flag."""

    def __init__(self, log):
        self.flag = False
        self.log = log

    def set(self):
        self.flag = True
        self.log.append(('event-set',))

    def clear(self):
        self.flag = False

    def is_set(self):
        return self.flag

    def wait(self, timeout=None):
        return self.flag


class Timer(object):
    def __init__(self, log, delay, cb):
        self.delay, self.cb, self.cancelled = delay, cb, False
        self.log = log

    def cancel(self):
        self.cancelled = True
        self.log.append(('timer-cancel', self))


class ConnectionClass(object):
    """contract of Connection.create_timer (E-TIMER): returns a handle; the callback runs once later unless cancelled."""

    def __init__(self, log):
        self.log = log

    def create_timer(self, delay, cb):
        t = Timer(self.log, delay, cb)
        self.log.append(('timer', t))
        return t


class Conn(object):
    """contract of Connection.send_msg as used by ResponseFuture._query: registers cb under request_id or raises."""

    def __init__(self, world, host):
        self.world, self.host = world, host
        self.keyspace = world.conn_keyspace
        self.lock = LockModel('connection.lock')
        self._requests = {}
        self.orphaned_request_ids = set()
        self.orphaned_threshold = 100
        self.orphaned_threshold_reached = False
        self.defuncted = []

    def send_msg(self, message, request_id, cb=None, encoder=None, decoder=None, result_metadata=None):
        mode = self.world.send_mode(self.host)
        if mode == 'raise':
            raise PyExc(make_exception(self.world.vc.ctx, self.world.ConnectionShutdown, ['closed'], {}))
        self.world.log.append(('send', self.host, message, cb, request_id))
        self._requests[request_id] = (cb, decoder, result_metadata)
        return 42

    def defunct(self, exc):
        self.defuncted.append(exc)
        self.world.log.append(('defunct', self.host, exc))


class Pool(object):
    """contract of HostConnection.borrow_connection / return_connection as seen by ResponseFuture."""

    def __init__(self, world, host, is_shutdown=False):
        self.world, self.host, self.is_shutdown = world, host, is_shutdown
        self.conn = Conn(world, host)
        self.next_id = 0

    def borrow_connection(self, timeout):
        mode = self.world.borrow_mode(self.host)
        self.world.log.append(('borrow', self.host, mode))
        if mode == 'busy':
            raise PyExc(make_exception(self.world.vc.ctx, self.world.NoConnectionsAvailable, [], {}))
        if mode == 'error':
            raise PyExc(make_exception(self.world.vc.ctx, self.world.ConnectionException, ['broken'], {}))
        rid = self.world.new_request_id(self.host)
        return self.conn, rid

    def return_connection(self, conn, stream_was_orphaned=False):
        self.world.log.append(('return', self.host, stream_was_orphaned))


class World(object):
    """Everything outside the ResponseFuture, with per-host behaviour chosen by the harness (symbolic choices)."""

    def __init__(self, vc, hosts, pool_state=None, borrow=None, send=None):
        from cassandra.pool import NoConnectionsAvailable
        from cassandra.connection import ConnectionException, ConnectionShutdown
        self.vc = vc
        self.NoConnectionsAvailable, self.ConnectionException, self.ConnectionShutdown = NoConnectionsAvailable, ConnectionException, ConnectionShutdown
        self.log = []
        self.hosts = hosts
        self.conn_keyspace = None
        self._borrow = borrow or {}
        self._send = send or {}
        self.pools = {}
        for h in hosts:
            st = (pool_state or {}).get(h, 'ok')
            if st == 'missing':
                continue
            self.pools[h] = Pool(self, h, is_shutdown=(st == 'shutdown'))
        self.rid = 0

    def borrow_mode(self, host):
        return self._borrow.get(host, 'ok')

    def send_mode(self, host):
        return self._send.get(host, 'ok')

    def new_request_id(self, host):
        self.rid += 1
        return self.vc.ctx.fresh_int('request_id', register=False) if False else self.rid

    def sends(self):
        return [e for e in self.log if e[0] == 'send']

    def submitted(self):
        return [e for e in self.log if e[0] == 'submit']


class Session(object):
    def __init__(self, world, protocol_version, prepared=None, keyspace=None):
        self.world = world
        self._pools = world.pools
        self.keyspace = keyspace
        self.row_factory = _M(lambda names, rows: ('rows', names, rows), 'row_factory')
        self.cluster = Cluster(world, protocol_version, prepared)

    def submit(self, fn, *args, **kwargs):
        # contract of Session.submit (A-EXEC): the task runs once, later, on an executor thread
        self.world.log.append(('submit', fn, args, kwargs))
        return None

    def _set_keyspace_for_all_pools(self, keyspace, callback):
        self.world.log.append(('set-keyspace-all-pools', keyspace, callback))


class Cluster(object):
    def __init__(self, world, protocol_version, prepared):
        self.protocol_version = protocol_version
        self._prepared_statements = prepared if prepared is not None else {}
        self.connection_class = ConnectionClass(world.log)
        self.control_connection = ControlConn()
        self._default_load_balancing_policy = None


class ControlConn(object):
    _connection = None


class RetryOracle(object):
    """The statement's retry policy as an arbitrary decision oracle with a ghost call log."""

    def __init__(self, vc, log):
        self.vc, self.log = vc, log
        self.RETRY, self.RETHROW, self.IGNORE, self.RETRY_NEXT_HOST = 0, 1, 2, 3

    def _decide(self, name, args, kwargs):
        ctx = self.vc.ctx
        d = self.vc.choice('retry_decision', [0, 1, 2, 3])
        cl = None if ctx.branch(ctx.fresh_bool('policy_keeps_cl').t) else ctx.fresh_int('policy_cl')
        self.log.append(('policy', name, args, kwargs, (d, cl)))
        return (d, cl)

    def on_read_timeout(self, *a, **k): return self._decide('on_read_timeout', a, k)
    def on_write_timeout(self, *a, **k): return self._decide('on_write_timeout', a, k)
    def on_unavailable(self, *a, **k): return self._decide('on_unavailable', a, k)
    def on_request_error(self, *a, **k): return self._decide('on_request_error', a, k)


def make_future(vc, world, session, plan_hosts, prepared_statement=None, timeout=None, message=None, retry_policy=None, **extra):
    """A ResponseFuture in an arbitrary mid-flight state (not completed), as the constructor + send_request leave it."""
    from cassandra.cluster import ResponseFuture, _NOT_SET
    from cassandra.protocol import QueryMessage
    log = world.log
    msg = message if message is not None else vc.obj(QueryMessage, query='SELECT', consistency_level=vc.int('message_cl'), paging_state=None,
                                                      continuous_paging_options=None)
    lock = LockModel('ResponseFuture._callback_lock')
    attrs = dict(session=session, row_factory=session.row_factory, _load_balancer=None, message=msg, query=vc.opaque('statement', 'Statement'),
                 timeout=timeout, _retry_policy=retry_policy or RetryOracle(vc, log), _metrics=None, prepared_statement=prepared_statement,
                 _callback_lock=lock, _start_time=vc.real('start_time'), _host=None, query_plan=GenList(list(plan_hosts)),
                 _event=Event(log), _errors={}, _callbacks=[], _errbacks=[], attempted_hosts=[], _timer=None,
                 _continuous_paging_state=None, _connection=None, _req_id=None, _final_result=_NOT_SET, _final_exception=None,
                 _query_retries=0, _current_host=None, _paging_state=None, is_schema_agreed=True, _query_traces=None,
                 _warnings=None, _custom_payload=None, coordinator_host=None)
    attrs.update(extra)
    fut = vc.obj(ResponseFuture, **attrs)
    ghost = {'completions': []}

    def on_set(name, value):
        if name == '_final_result' and value is not _NOT_SET:
            ghost['completions'].append(('result', value))
        if name == '_final_exception' and value is not None:
            ghost['completions'].append(('exception', value))
    fut.on_set = on_set
    fut.ghost = ghost
    return fut
