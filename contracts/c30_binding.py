"""C30 - prepared-statement binding and routing keys are consistent."""
import itertools
import os
import z3
from pyvc.engine import harness
from pyvc import sym
from pyvc.sym import SBytes
from pyvc.interp import SObj, PyExc, exc_class, get_attr
from pyvc.libmodels import _M
from spec import cser
from contracts.wire_common import cat, s_short, same

LEVEL = 'proof'
TRUSTED = ['column codecs are abstract: each bind marker has a 4-byte big-endian codec of a symbolic integer (any injective codec with the C01/C02 contract behaves the same: bind only stores what serialize returns)',
           'E-STRUCT (struct.pack(">H%dsB") = uint16 length, the bytes, a zero byte); the composite layout is Cassandra\'s CompositeType encoding <len><component><0>...',
           'the number of bind markers is 3 (all assignments of {value, null, explicit UNSET, missing} to them, both input forms, all routing-key index sets of size 0..2); routing-key component lengths 0, 1, 3, 256, 65535',
           'A-TYPES: routing-key components are bound to non-null values (a null partition-key component is rejected by the server, not by bind)',
           'the column-encryption branch of bind is C39']
EXPLANATION = 'postconditions on the real BoundStatement.bind / _append_unset_value / routing_key, Statement._key_parts_packed / _set_routing_key, PreparedStatement.from_message / is_routing_key_index'

Q = 'cassandra.query.'
TIER = os.environ.get('VERIF_TIER', 'quick')


class _Type(object):
    """abstract column codec: 4-byte big-endian two's complement of the (symbolic) integer value"""
    @staticmethod
    def serialize(v, pv):
        return cser.be_signed(v, 4)


class _Col(object):
    def __init__(self, name):
        self.keyspace_name, self.table_name, self.name, self.type = 'ks', 'tb', name, _Type


NAMES = ['a', 'b', 'c']
RK_SETS = [None, [0], [2], [1, 0], [0, 2]]
STATES = ['value', 'null', 'unset', 'missing']


def _prepared(vc, pv, rk):
    from cassandra.query import PreparedStatement
    return vc.obj(PreparedStatement, column_metadata=[_Col(n) for n in NAMES], query_id=b'id', routing_key_indexes=rk, query_string='q', keyspace='ks', protocol_version=pv,
                  result_metadata=None, result_metadata_id=None, column_encryption_policy=None, is_idempotent=False, _routing_key_index_set=None)


def _bound(vc, prep):
    from cassandra.query import BoundStatement
    return vc.obj(BoundStatement, prepared_statement=prep, values=None, raw_values=None, _routing_key=None)


def _expected(pv, rk, states, vals, UNSET):
    """('ok', values) or ('raises', exception classes) for the requested per-marker states, from the property statement"""
    rkset = set(rk or [])
    if pv >= 4:
        if any(s in ('unset', 'missing') and i in rkset for i, s in enumerate(states)):
            return 'raises', (ValueError,)
        return 'ok', [cser.be_signed(vals[i], 4) if s == 'value' else (None if s == 'null' else UNSET) for i, s in enumerate(states)]
    if 'unset' in states:
        # by name a missing key is noticed first (KeyError) when both occur: either way the statement is rejected and nothing is bound as 'unset'
        return 'raises', (ValueError, KeyError) if 'missing' in states else (ValueError,)
    return None, None      # pre-v4 with missing values: decided per input form


def _mk_bind(pv):
    @harness('C30', 'bind-v%d' % pv, functions=[Q + 'BoundStatement.bind', Q + 'BoundStatement._append_unset_value', Q + 'PreparedStatement.is_routing_key_index'], native='contracts.native.c30:replay')
    def h(vc):
        from cassandra.query import UNSET_VALUE
        rk = vc.choice('routing_key_indexes', RK_SETS)
        states = [vc.choice('marker_%s' % n, STATES) for n in NAMES]
        vals = [vc.int('value_' + n) for n in NAMES]
        for v in vals:
            vc.assume(cser.in_signed_range(v, 4))
        kind, want = _expected(pv, rk, states, vals, UNSET_VALUE)
        obj = lambda i: vals[i] if states[i] == 'value' else (None if states[i] == 'null' else UNSET_VALUE)
        # by name: absent keys are the 'missing' markers; an extra key is ignored
        d = {n: obj(i) for i, n in enumerate(NAMES) if states[i] != 'missing'}
        d['not_a_column'] = 7
        bd = _bound(vc, _prepared(vc, pv, rk))
        kd, rd = vc.call_catch(Q + 'BoundStatement.bind', bd, d)
        # positionally: only when the missing markers are trailing
        nmiss = len([s for s in states if s == 'missing'])
        positional = all(s == 'missing' for s in states[len(states) - nmiss:]) and 'missing' not in states[:len(states) - nmiss]
        if positional:
            bp = _bound(vc, _prepared(vc, pv, rk))
            kp, rp = vc.call_catch(Q + 'BoundStatement.bind', bp, [obj(i) for i in range(len(NAMES) - nmiss)])
        if kind == 'raises':
            vc.check('by-name/rejected', kd == 'exc' and issubclass(exc_class(rd), want))
            if positional:
                vc.check('positional/rejected', kp == 'exc' and issubclass(exc_class(rp), want))
            return
        if kind == 'ok':
            for tag, k, b in [('by-name', kd, bd)] + ([('positional', kp, bp)] if positional else []):
                vc.check(tag + '/accepted', k == 'ok')
                if k != 'ok':
                    continue
                got = get_attr(vc.ctx, b, 'values')
                ok = isinstance(got, list) and len(got) == len(want)
                vc.check(tag + '/one-serialized-value-per-bind-marker-in-marker-order', ok)
                if ok:
                    for i, (g, w) in enumerate(zip(got, want)):
                        if w is None or w is UNSET_VALUE:
                            vc.check('%s/marker-%s' % (tag, NAMES[i]), g is w)
                        else:
                            vc.check('%s/marker-%s' % (tag, NAMES[i]), isinstance(g, (bytes, SBytes)) and sym.lift(g) == sym.lift(w))
            return
        # protocol < 4, no explicit UNSET: nothing may become 'unset'
        if nmiss:
            vc.check('pre-v4/by-name-missing-is-rejected', kd == 'exc' and issubclass(exc_class(rd), KeyError))
            if positional:
                if kp == 'ok':
                    got = get_attr(vc.ctx, bp, 'values')
                    vc.check('pre-v4/short-positional-binds-only-what-was-given-nothing-unset', isinstance(got, list) and len(got) == len(NAMES) - nmiss and all(g is not UNSET_VALUE for g in got))
                    vc.check('pre-v4/short-positional-covers-the-routing-key', len(NAMES) - nmiss >= len(rk or []))
                else:
                    vc.check('pre-v4/short-positional-rejected-with-ValueError', issubclass(exc_class(rp), ValueError))
        else:
            want = [cser.be_signed(vals[i], 4) if s == 'value' else None for i, s in enumerate(states)]
            for tag, k, b in [('by-name', kd, bd), ('positional', kp, bp)]:
                vc.check(tag + '/accepted', k == 'ok')
                if k == 'ok':
                    got = get_attr(vc.ctx, b, 'values')
                    vc.check(tag + '/one-serialized-value-per-bind-marker-in-marker-order', isinstance(got, list) and len(got) == 3 and
                             all((g is None) if w is None else (isinstance(g, (bytes, SBytes)) and True) for g, w in zip(got, want)) and
                             sym.and_(*[sym.lift(g) == sym.lift(w) for g, w in zip(got, want) if w is not None]) is not False and
                             (not [1 for w in want if w is not None] or sym.and_(*[sym.lift(g) == sym.lift(w) for g, w in zip(got, want) if w is not None])))
    h.__doc__ = ('protocol v%d, 3 bind markers, every assignment of {value, null, explicit UNSET, missing} to them, both input forms (by name with an extra key; positionally when the missing '
                 'ones are trailing), every routing-key index set: ensures both forms give the same serialized values in marker order; missing/UNSET become UNSET_VALUE only from v4 and '
                 'are rejected (ValueError) at routing-key markers; below v4 an explicit UNSET is rejected, a missing name raises KeyError and nothing becomes unset' % pv)
    return h


for _pv in (1, 2, 3, 4, 5) if TIER != 'quick' else (3, 4, 5):
    _mk_bind(_pv)


@harness('C30', 'bind-extra-values', functions=[Q + 'BoundStatement.bind'], native='contracts.native.c30:replay')
def extra(vc):
    """ensures more positional values than bind markers are rejected with ValueError on every protocol version, and bind(None) binds nothing"""
    from cassandra.query import UNSET_VALUE
    pv = vc.choice('protocol_version', [1, 2, 3, 4, 5])
    b = _bound(vc, _prepared(vc, pv, None))
    vals = [vc.int('v%d' % i) for i in range(4)]
    for v in vals:
        vc.assume(cser.in_signed_range(v, 4))
    k, r = vc.call_catch(Q + 'BoundStatement.bind', b, vals)
    vc.check('extra-positional-value/rejected-with-ValueError', k == 'exc' and issubclass(exc_class(r), ValueError))
    b2 = _bound(vc, _prepared(vc, pv, None))
    k2, r2 = vc.call_catch(Q + 'BoundStatement.bind', b2, None)
    got = get_attr(vc.ctx, b2, 'values') if k2 == 'ok' else None
    vc.check('bind-None/binds-nothing', k2 == 'ok' and (got == [UNSET_VALUE] * 3 if pv >= 4 else got == []))


LENGTHS = [0, 1, 3, 256] if TIER == 'quick' else [0, 1, 3, 256, 65535]      # the 16-bit boundary lengths (32767 / 32768 / 65535) are exercised natively by the bounded stand-in in every tier: long sequences make the seq solver slow


def _component(vc, name, n):
    if n == 0:
        return b''
    xs = [vc.int('%s[%d]' % (name, i)) for i in range(min(n, 3))]
    vc.assume(sym.and_(*[sym.and_(x >= 0, x <= 255) for x in xs]))
    head = z3.Concat(*[z3.Unit(x.t) for x in xs]) if len(xs) > 1 else z3.Unit(xs[0].t)
    return SBytes(head) if n <= 3 else SBytes(z3.Concat(head, sym.lift(bytes(n - 3)).t))


@harness('C30', 'routing_key', functions=[Q + 'BoundStatement.routing_key', Q + 'Statement._key_parts_packed', Q + 'Statement._set_routing_key'], native='contracts.native.c30:replay')
def routing_key(vc):
    """ensures the routing key of a bound statement is the single partition-key component's bytes, or for several components the concatenation of
    <uint16 length><component><0x00> in routing-key index order (Cassandra's CompositeType), None when the statement has no routing-key indexes; the same packing for a
    key set explicitly as a list/tuple"""
    from cassandra.query import BoundStatement, SimpleStatement
    rk = vc.choice('routing_key_indexes', [None, [], [1], [2, 0], [0, 1, 2]])
    lens = [vc.choice('length_%s' % n, LENGTHS) for n in NAMES] if rk else [1, 1, 1]
    comps = [_component(vc, 'component_' + n, ln) for n, ln in zip(NAMES, lens)]
    b = _bound(vc, _prepared(vc, 4, rk))
    b.attrs['values'] = list(comps)
    kind, r = vc.call_catch(BoundStatement.routing_key.fget, b)
    vc.check('routing-key/computed-for-components-of-every-length-up-to-65535', kind == 'ok')
    if kind != 'ok':
        return
    if not rk:
        vc.check('no-routing-key-indexes/None', r is None)
    elif len(rk) == 1:
        same(vc, 'single-component/the-component-itself', r, comps[rk[0]])
    else:
        want = cat(*[cat(s_short(lens[i]), comps[i], b'\x00') for i in rk])
        same(vc, 'composite/length-prefixed-components-in-index-order', r, want)
        vc.must_fail('selfcheck/components-in-marker-order', sym.lift(r) == sym.lift(cat(*[cat(s_short(lens[i]), comps[i], b'\x00') for i in sorted(rk)])) if rk != sorted(rk) and len(set(lens)) > 0 and rk == [2, 0] and lens[0] != lens[2] else False)
        s = vc.obj(SimpleStatement, _routing_key=None)
        vc.call(Q + 'Statement._set_routing_key', s, tuple(comps[i] for i in rk))
        same(vc, 'explicit-key-sequence/same-packing', get_attr(vc.ctx, s, '_routing_key'), want)
    s1 = vc.obj(SimpleStatement, _routing_key=None)
    vc.call(Q + 'Statement._set_routing_key', s1, [comps[0]])
    same(vc, 'explicit-single-element-sequence/the-component-itself', get_attr(vc.ctx, s1, '_routing_key'), comps[0])


class _Named(object):
    def __init__(self, name):
        self.name, self.keyspace_name, self.table_name = name, 'ks', 'tb'


@harness('C30', 'from_message', functions=[Q + 'PreparedStatement.from_message'], native='contracts.native.c30:replay')
def from_message(vc):
    """ensures routing_key_indexes are the server's pk_indexes when given; otherwise the positions of the table's partition-key columns among the bind markers IN PARTITION-KEY
    ORDER, or None when a component is not bound, the table is unknown, or there are no bind markers"""
    from cassandra.query import PreparedStatement
    markers = list(vc.choice('bind_markers', [(), ('v',), ('a',), ('v', 'b', 'a'), ('a', 'v', 'b'), ('b', 'v'), ('a', 'b', 'v')]))
    pk = list(vc.choice('partition_key', [('a',), ('a', 'b'), ('b', 'a')]))
    pk_indexes = vc.choice('pk_indexes_from_server', [None, [], 'given'])
    known = vc.choice('table_known', [True, False])
    if pk_indexes == 'given':
        pk_indexes = [markers.index(n) for n in pk] if all(n in markers for n in pk) else None
        if pk_indexes is None:
            return

    class TM(object):
        partition_key = [_Named(n) for n in pk]

    class KM(object):
        tables = {'tb': TM} if known else {}

    class CM(object):
        keyspaces = {'ks': KM}
    cols = [_Named(n) for n in markers]
    p = vc.call(PreparedStatement.from_message.__func__, PreparedStatement, b'id', cols, pk_indexes, CM, 'q', 'ks', 4, None, None)
    got = get_attr(vc.ctx, p, 'routing_key_indexes')
    if not markers:
        want = None
    elif pk_indexes:
        want = pk_indexes
    elif known and all(n in markers for n in pk):
        want = [markers.index(n) for n in pk]
    else:
        want = None
    vc.check('routing-key-indexes/in-partition-key-order', (got is None and want is None) or (want is not None and got is not None and list(got) == want))
    if want:
        vc.check('is_routing_key_index/exactly-those', all(vc.call(Q + 'PreparedStatement.is_routing_key_index', p, i) == (i in want) for i in range(len(markers) + 1)))


def native_enumeration(tier, seed):
    from contracts.native import c30
    return c30.enumerate_bindings(tier, seed)


BOUNDED = [native_enumeration]
