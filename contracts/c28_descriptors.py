"""C28 - type descriptors round-trip between Cassandra and CQL notation.

The parsers are re.Scanner callbacks, ast.literal_eval, repr() and dynamic type() creation: outside anything the VC generator can translate, and the statement quantifies over strings of unbounded
nesting.  Nothing here is claimed as proved: the contracts below (stated against an independent type-tree printer) are evaluated natively on enumerated type trees - a BOUNDED stand-in.  The one
function inside the subset, _strip_frozen_from_python (list recursion), is additionally run through the AST interpreter on every nesting pattern of frozen wrappers up to depth 3.
"""
import itertools
import os
from pyvc.engine import harness

LEVEL = 'exploration'
TRUSTED = ['the independent type-tree printer / frozen-stripper of contracts/native/c28.py is the oracle for CQL and Cassandra marshal notation',
           'bounded: type trees of depth <= 3 (thorough 4) over 8 scalars with list / set / map / tuple(1..3) / frozen / vector / udt (<= 2 fields) / reversed constructors, pruned to the stated count',
           'value-codec equality is sampled: the re-parsed type must serialize a canonical sample value of the tree to the same bytes']
EXPLANATION = 'native evaluation of the round-trip contracts of lookup_casstype / cass_parameterized_type / cql_parameterized_type / cqltype_to_python / python_to_cqltype / strip_frozen on enumerated type trees; _strip_frozen_from_python through the AST interpreter'

TIER = os.environ.get('VERIF_TIER', 'quick')


def _patterns(depth):
    """python-list forms of types with frozen wrappers in every position: t ::= 'int' | C[t] | frozen[C[t]] for C in {list, map(k,v)}"""
    if depth == 0:
        return [(['int'], ['int'])]
    out = list(_patterns(0))
    for inner, stripped in _patterns(depth - 1):
        out.append((['list', inner], ['list', stripped]))
        out.append((['frozen', ['list', inner]], ['list', stripped]))
        out.append((['frozen', ['frozen', ['set', inner]]], ['set', stripped]))
        out.append((['map', ['text'] + inner], ['map', ['text'] + stripped]) if False else (['map', [inner[0] if len(inner) == 1 else 'int', 'text']], ['map', [stripped[0] if len(stripped) == 1 else 'int', 'text']]))
        out.append((['tuple', ['frozen', ['list', inner], 'int', 'frozen', ['set', inner]]], ['tuple', ['list', stripped, 'int', 'set', stripped]]))
    return out


@harness('C28', '_strip_frozen_from_python', functions=['cassandra.cqltypes._strip_frozen_from_python'], native='contracts.native.c28:replay')
def strip_frozen_lists(vc):
    """for every nesting pattern (depth <= 3) of list / set / map / tuple with frozen wrappers single, doubled and as siblings: ensures the result is the same tree with exactly the
    'frozen' markers removed (each marker's argument spliced in its place)"""
    pats = _patterns(3 if TIER != 'quick' else 2)
    i = vc.choice('pattern', list(range(len(pats))))
    src, want = pats[i]
    import copy
    got = vc.call('cassandra.cqltypes._strip_frozen_from_python', copy.deepcopy(src))
    vc.check('strip/exactly-the-frozen-markers-removed', got == want)
    if src == ['frozen', ['list', ['int']]]:
        vc.must_fail('selfcheck/unchanged', got == src)


def type_trees(tier, seed):
    from contracts.native import c28
    return c28.type_trees(tier, seed)


BOUNDED = [type_trees]
