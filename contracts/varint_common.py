"""varint (BigInteger) contracts shared by C01 and C02.

Spec: java.math.BigInteger.toByteArray(x) is the unique byte string r, n = len(r) >= 1, with
   (P1) unsigned big-endian value of r  ==  x            if x >= 0
                                        ==  x + 256**n   if x <  0       (two's complement)
   (P2) -2**(8n-1) <= x < 2**(8n-1)                                      (fits in n bytes)
   (P3) n == 1  or  x >= 2**(8n-9)  or  x < -2**(8n-9)                   (minimal: fewer bytes would not fit)
   (P4) (r[0] >= 128) == (x < 0)                                         (sign bit)
The big-endian value of r is LE(REV(r)) (little-endian value of the reversed string) by definition.
"""
import z3
from pyvc.engine import harness
from pyvc import sym, specfun
from pyvc.sym import SInt, SBytes, SBool
from pyvc.specfun import P256, pow2, LE, LE_append, REV, LE_F
from pyvc.libmodels import _POW2, _REV, _BL

M = 'cassandra.marshal.'

LEAN_LEMMAS = ['pow2_mono', 'pow2_mono_strict', 'twos_complement_unique']
LEMMAS = ['lemmas pow2_mono / pow2_mono_strict: 2**a <= 2**b for 0 <= a <= b and 2 * 2**a <= 2**b for a < b, used at the instances named in the harness - proved in lemmas/Lemmas.lean, elaborated by lean on every run (no longer assumed); what stays assumed is that z3\'s Int and Lean\'s Nat agree on 2**k for k >= 0',
          'E-HEX: int("".join("%02x" % b for b in term), 16) is the unsigned big-endian value of term (probed natively in the bounded stand-in)',
          'uniqueness of the minimal two\'s-complement representation (two byte strings satisfying P0-P3 for the same integer are equal, so P1-P4 characterise BigInteger.toByteArray): '
          'twos_complement_unique in lemmas/Lemmas.lean, elaborated by lean on every run; assumed: the big-endian value LE(REV(r)) of the contracts is beVal r of the Lean file']


def Hpow(ctx, n):
    """2**(8n-1)."""
    nt = sym.as_int_term(n)
    P256(ctx, n)
    return SInt(_POW2(8 * nt - 1))


def mono(ctx, a, b):
    """Assumed lemma instance: 0 <= a <= b  =>  2**a <= 2**b  (and strictness for a < b)."""
    at, bt = sym.as_int_term(a), sym.as_int_term(b)
    ctx.assume(z3.And(z3.Implies(z3.And(at >= 0, at <= bt), _POW2(at) <= _POW2(bt)),
                      z3.Implies(z3.And(at >= 0, at < bt), 2 * _POW2(at) <= _POW2(bt))), silent=True)


def le_of(ctx, s):
    """LE(s): closed form when s has a fixed length on this path, else the uninterpreted function."""
    t = sym.lift(s).t
    els = sym.flatten_units(t)
    if els is not None:
        acc = z3.IntVal(0)
        for j, e in enumerate(els):
            acc = acc + e * z3.IntVal(256 ** j)
        return SInt(acc)
    # REV(REV(c)) is c (involution of reversal); unfold LE at a trailing unit of c (definitional instance)
    if t.decl().name() == 'seq_rev' and t.arg(0).decl().name() == 'seq_rev':
        c = t.arg(0).arg(0)
        ctx.assume(t == c, silent=True)
        if c.decl().kind() == z3.Z3_OP_SEQ_CONCAT and c.arg(c.num_args() - 1).decl().kind() == z3.Z3_OP_SEQ_UNIT:
            head = c.arg(0) if c.num_args() == 2 else z3.Concat(*[c.arg(i) for i in range(c.num_args() - 1)])
            LE_append(ctx, SBytes(head), SInt(c.arg(c.num_args() - 1).arg(0)))
        LE(ctx, SBytes(c))
    return LE(ctx, s)


def rev_of(ctx, s):
    from pyvc.libmodels import seq_reverse
    return seq_reverse(ctx, sym.lift(s))


def biginteger_post(ctx, r, x):
    """[(name, cond)] : r is BigInteger(x).toByteArray()."""
    n = r.length()
    P = P256(ctx, n)
    H = Hpow(ctx, n)
    Hm = Hpow(ctx, n - 1)
    val = le_of(ctx, rev_of(ctx, r))
    r0 = SInt(sym.lift(r).t[0])
    return [('P0-nonempty', n >= 1),
            ('P1-value', sym.and_(sym.implies(x >= 0, val == x), sym.implies(x < 0, val == x + P))),
            ('P2-fits', sym.and_(x >= -H.t if False else x >= SInt(-H.t), x < H)),
            ('P3-minimal', sym.or_(n == 1, x >= Hm, x < SInt(-Hm.t))),
            ('P4-sign-bit', (r0 >= 128) == (x < 0))]


def mk_varint_pack(prop):
    @harness(prop, 'varint_pack', functions=[M + 'varint_pack', M + 'bit_length'], native='contracts.native.varint:replay')
    def h(vc):
        """ensures varint_pack(x) is BigInteger(x).toByteArray() (P0-P4) for EVERY integer x (unbounded);
        loop invariant: B0 == big*256**k + LE(revbytes), LE(revbytes) < 256**k, top digit bounds, B0 >= 256**(k-1)"""
        ctx = vc.ctx
        x = vc.int('big')
        st = {}

        def neg_lemmas(n):
            # lemma instances (monotonicity of 2**k) relating bit_length(|x|-1) to the byte length n
            a = SInt(z3.If(x.t < 0, -x.t - 1, z3.IntVal(0)))
            bl = SInt(_BL(a.t))
            P256(ctx, n)
            P256(ctx, n - 1)
            mono(ctx, bl, 8 * n - 1)
            mono(ctx, 8 * n - 9, bl - 1)
            specfun.pow2_split(ctx, bl, n - 1)
            specfun.pow2(ctx, bl)
            specfun.pow2(ctx, bl - 1)

        def inv(L):
            rev = L.revbytes.get()
            if L._phase == 'init':
                st['B0'] = L.big
                if 'bytelength' in L:
                    neg_lemmas(L.bytelength)
            B0 = st['B0']
            n = rev.length()
            P = P256(ctx, n)
            Pm = P256(ctx, n - 1)
            le = LE(ctx, rev)
            # definitional unfolding of LE at the byte appended in this iteration
            t = rev.t
            if t.decl().kind() == z3.Z3_OP_SEQ_CONCAT and t.arg(t.num_args() - 1).decl().kind() == z3.Z3_OP_SEQ_UNIT:
                head = t.arg(0) if t.num_args() == 2 else z3.Concat(*[t.arg(i) for i in range(t.num_args() - 1)])
                LE_append(ctx, SBytes(head), SInt(t.arg(t.num_args() - 1).arg(0)))
                LE(ctx, SBytes(head))
            top = SInt(rev.t[n.t - 1])
            if L._phase == 'assume':
                st['pre'] = (sym.as_int_term(L.big), P.t)
            elif L._phase == 'step' and 'pre' in st:
                # checked lemma (its own obligation, proved in the empty context): one base-256 digit split off `big`,
                # multiplied through by 256**k.  The step obligations need exactly this product identity, and z3 finds it
                # in isolation every time but inside the full step query only for some seeds.
                b, Pk = st['pre']
                ctx.lemma('lemma/digit-split-times-power', Pk * b == 256 * Pk * (b / 256) + Pk * (b % 256))
            return [('big-nonneg', L.big >= 0),
                    ('value-split', B0 == L.big * P + le),
                    ('digits-below-power', le < P),
                    ('top-digit', sym.implies(n > 0, sym.and_(top >= 0, top < 256, top * Pm <= le, le < (top + 1) * Pm, B0 >= Pm)))]
        def on_exit(L):
            # lemma instances: the number of base-256 digits of B0 equals the byte length computed from bit_length
            if 'bytelength' in L:
                nb, k = L.bytelength, L.revbytes.get().length()
                mono(ctx, 8 * nb, 8 * (k - 1))
                mono(ctx, 8 * k, 8 * nb - 8)
                P256(ctx, nb)
                P256(ctx, nb - 1)
                P256(ctx, k)
            return []
        vc.loop(M + 'varint_pack', 0, invariant=inv, on_exit=on_exit)
        r = sym.lift(vc.call(M + 'varint_pack', x))
        n = r.length()
        neg_lemmas(n)
        mono(ctx, 8 * n - 8, 8 * n)
        for name, cond in biginteger_post(ctx, r, x):
            vc.check('post/' + name, cond)
        if 'B0' in st:
            vc.must_fail('selfcheck/always-one-byte', n == 1)
    return h


def mk_varint_unpack(prop):
    @harness(prop, 'varint_unpack', functions=[M + 'varint_unpack'], native='contracts.native.varint:replay')
    def h(vc):
        """requires term = BigInteger(x).toByteArray() for some integer x (P0-P4, as established by varint_pack's contract);
        ensures varint_unpack(term) == x"""
        ctx = vc.ctx
        x = vc.int('x')
        term = vc.bytes('term')
        for name, cond in biginteger_post(ctx, term, x):
            vc.assume(cond)
        vc.cover('requires-inhabited')

        def hexvalue(interp, node, m):
            t = interp.eval(ast_parse_expr(m.group(1)))
            return le_of(ctx, rev_of(ctx, t))
        vc.abstract_expr(M + 'varint_unpack', r"int\(''\.join\(\('%02x' % i for i in (\w+)\)\), 16\)", hexvalue)
        v = vc.call(M + 'varint_unpack', term)
        vc.check('post/roundtrip-through-contract', v == x)
    return h


def ast_parse_expr(src):
    import ast
    return ast.parse(src, mode='eval').body
