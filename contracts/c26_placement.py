"""C26 - replica sets match Cassandra's replica placement."""
import itertools
import os
import random
from pyvc.engine import harness
from pyvc import sym
from pyvc.interp import SObj, PyExc, exc_class, call_value
from pyvc.libmodels import LockModel, _M, SymKey

LEVEL = 'other'
TRUSTED = ['spec/placement.py transcribes Cassandra 4.x SimpleStrategy / NetworkTopologyStrategy.calculateNaturalReplicas (reference implementation, not machine-checked against the Java)',
           'SimpleStrategy is verified symbolically for every ring of up to 5 tokens with ARBITRARY ownership (host identities are symbolic integers: every equality pattern) and every replication factor (symbolic integer); longer rings only repeat the inner step',
           'NetworkTopologyStrategy is a BOUNDED stand-in: the real method is executed natively on every ring over <= 4 hosts x 2 DCs x 2 racks x <= 2 tokens per host (quick) / <= 5 hosts x 2 DCs x 3 racks x <= 3 tokens (thorough, sampled above 200000 rings) x every RF map with RF <= 3 per DC, compared as a set and for repetitions',
           'E-BISECT: bisect_left on the sorted ring (sortedness is the postcondition of Metadata.rebuild_token_map, verified here)']
EXPLANATION = 'postconditions against the placement spec on the real SimpleStrategy.make_token_replica_map (symbolic ownership), TokenMap.get_replicas / rebuild_keyspace, Metadata.rebuild_token_map / _update_keyspace; bounded exhaustive comparison for NetworkTopologyStrategy.make_token_replica_map'

MD = 'cassandra.metadata.'
TIER = os.environ.get('VERIF_TIER', 'quick')


@harness('C26', 'SimpleStrategy', functions=[MD + 'SimpleStrategy.make_token_replica_map'], native='contracts.native.c26:replay')
def simple(vc):
    """for every ring of up to 4 (thorough: 5) tokens, every assignment of tokens to hosts (host identities symbolic: all equality
    patterns) and every replication factor >= 1: ensures for each ring position i the replica list is exactly the first
    min(rf, #hosts) distinct owners met walking clockwise from token i, in that order, without repetition"""
    from cassandra.metadata import SimpleStrategy
    ctx = vc.ctx
    n = vc.choice('ring_tokens', list(range(1, (4 if TIER == 'quick' else 5) + 1)))
    ring = list(range(n))
    owners = [vc.int('owner_of_token_%d' % i) for i in range(n)]
    rf = vc.int('replication_factor')
    vc.assume(rf >= 1)
    st = vc.obj(SimpleStrategy, replication_factor_info=None)
    vc.stub(MD + 'SimpleStrategy.replication_factor', lambda self_: rf) if False else None
    st.lazy = None

    class RFI(object):
        full_replicas = rf
    st.attrs['replication_factor_info'] = RFI()
    m = vc.call(MD + 'SimpleStrategy.make_token_replica_map', st, {i: owners[i] for i in ring}, ring)
    eq = lambda a, b: ctx.branch((sym.lift(a) == sym.lift(b)).t)
    for i in ring:
        got = list(m[i])
        # spec (spec/placement.simple_strategy), evaluated on the path's equality pattern
        want = []
        for k in range(n):
            h = owners[(i + k) % n]
            if ctx.branch((rf <= len(want)).t):
                break
            if not any(eq(h, w) for w in want):
                want.append(h)
        vc.check('post/first-rf-distinct-owners-clockwise-in-order', len(got) == len(want) and all(eq(a, b) for a, b in zip(got, want)))
        vc.check('post/no-host-repeated', not any(eq(got[a], got[b]) for a in range(len(got)) for b in range(a + 1, len(got))))
    if n == 3:
        vc.must_fail('selfcheck/always-one-replica', len(list(m[0])) == 1)


class Tok(object):
    """a token (total order by value)"""

    def __init__(self, v):
        self.value = v

    def __lt__(self, o):
        return self.value < o.value

    def __eq__(self, o):
        return isinstance(o, Tok) and self.value == o.value

    def __hash__(self):
        return hash(self.value)

    def __repr__(self):
        return 'T%d' % self.value

    @classmethod
    def from_string(cls, s):
        return cls(int(s))


@harness('C26', 'TokenMap.get_replicas', functions=[MD + 'TokenMap.get_replicas', MD + 'TokenMap.rebuild_keyspace', MD + 'TokenMap.replica_map_for_keyspace'],
         native='contracts.native.c26:replay')
def get_replicas(vc):
    """ensures the replicas of a token are those recorded for the first ring token at or after it, wrapping to the first ring token;
    the per-keyspace map is built on first use from the keyspace's CURRENT replication strategy; an unknown keyspace or an empty ring
    gives no replicas"""
    from cassandra.metadata import TokenMap
    ring = [Tok(10), Tok(20), Tok(30)]
    built = []

    class Strategy(object):
        def __init__(self, tag):
            self.tag = tag

        def make_token_replica_map(self, owner, r):
            built.append(self.tag)
            return {t: ['%s-replica-of-%r' % (self.tag, t)] for t in r}

    class KS(object):
        def __init__(self, tag):
            self.replication_strategy = Strategy(tag)

    class Meta(object):
        keyspaces = {'ks': KS('current')}
    tm = vc.obj(TokenMap, token_class=Tok, ring=ring, token_to_host_owner={}, tokens_to_hosts_by_ks={}, _metadata=Meta(), _rebuild_lock=LockModel('TokenMap._rebuild_lock'))
    v = vc.choice('token', [5, 10, 15, 20, 25, 30, 35])
    r = vc.call(MD + 'TokenMap.get_replicas', tm, 'ks', Tok(v))
    owner = next((t for t in ring if t.value >= v), ring[0])
    vc.check('post/replicas-of-the-first-ring-token-at-or-after-wrapping', r == ['current-replica-of-%r' % owner])
    vc.check('post/map-built-once-on-first-use', built == ['current'])
    vc.call(MD + 'TokenMap.get_replicas', tm, 'ks', Tok(v))
    vc.check('post/cached-afterwards', built == ['current'])
    vc.check('post/unknown-keyspace-has-no-replicas', vc.call(MD + 'TokenMap.get_replicas', tm, 'nope', Tok(v)) == [])


@harness('C26', 'keyspace-update', functions=[MD + 'Metadata._update_keyspace', MD + 'Metadata._keyspace_updated', MD + 'TokenMap.rebuild_keyspace'],
         native='contracts.native.c26:replay')
def keyspace_update(vc):
    """ensures after a keyspace definition with a different replication strategy is applied, an already built replica map of that
    keyspace is rebuilt from the NEW strategy (never from the replaced definition); an unchanged strategy does not rebuild; tables
    etc. are carried over"""
    from cassandra.metadata import Metadata, TokenMap
    built = []

    class Strategy(object):
        def __init__(self, tag):
            self.tag = tag

        def __eq__(self, o):
            return self.tag == o.tag

        def __ne__(self, o):
            return self.tag != o.tag

        def make_token_replica_map(self, owner, r):
            built.append(self.tag)
            return {t: [self.tag] for t in r}

    class KS(object):
        def __init__(self, tag):
            self.name, self.replication_strategy = 'ks', Strategy(tag)
            self.tables, self.user_types, self.indexes, self.functions, self.aggregates, self.views = {}, {}, {}, {}, {}, {}
    old = KS('old')
    old.tables = {'t': 'table-meta'}
    cached = vc.choice('replica_map_already_built', [True, False])
    changed = vc.choice('strategy_changed', [True, False])
    md = vc.obj(Metadata, keyspaces={'ks': old}, token_map=None, _hosts={}, _hosts_lock=LockModel('l'))
    tm = vc.obj(TokenMap, token_class=Tok, ring=[Tok(1)], token_to_host_owner={}, tokens_to_hosts_by_ks=({'ks': {Tok(1): ['old']}} if cached else {}),
                _metadata=md, _rebuild_lock=LockModel('TokenMap._rebuild_lock'))
    md.attrs['token_map'] = tm
    new = KS('new' if changed else 'old')
    vc.call(MD + 'Metadata._update_keyspace', md, new)
    vc.check('post/new-definition-published-with-tables-carried-over', md.attrs['keyspaces']['ks'] is new and new.tables == {'t': 'table-meta'})
    r = vc.call(MD + 'TokenMap.get_replicas', tm, 'ks', Tok(1))
    vc.check('post/replicas-follow-the-current-definition', r == [new.replication_strategy.tag])
    if cached and not changed:
        vc.check('post/unchanged-strategy-not-rebuilt', built == [])


@harness('C26', 'rebuild_token_map', functions=[MD + 'Metadata.rebuild_token_map'], native='contracts.native.c26:replay')
def rebuild_token_map(vc):
    """ensures rebuild_token_map builds a ring that is sorted, contains every token of every host exactly once, maps each token to
    the host that owns it, and uses the partitioner's token class; an unknown partitioner leaves no token map"""
    from cassandra.metadata import Metadata, Murmur3Token, MD5Token, BytesToken
    part = vc.choice('partitioner', ['org.apache.cassandra.dht.Murmur3Partitioner', 'org.apache.cassandra.dht.RandomPartitioner', 'com.example.Unknown'])
    toks = {'h1': ['30', '-5'], 'h2': ['10'], 'h3': []}
    if vc.choice('token_order', ['as-given', 'swapped']) == 'swapped':
        toks['h1'] = toks['h1'][::-1]
    md = vc.obj(Metadata, keyspaces={}, token_map=None, partitioner=None, _hosts={}, _hosts_lock=LockModel('l'))
    made = []

    def mk(token_class, owner, all_tokens, metadata):
        made.append((token_class, dict(owner), list(all_tokens)))
        return 'token-map'
    vc.stub('cassandra.metadata.TokenMap', mk)
    vc.call(MD + 'Metadata.rebuild_token_map', md, part, toks)
    vc.check('post/partitioner-recorded', md.attrs['partitioner'] == part)
    if 'Unknown' in part:
        vc.check('unknown/no-token-map', md.attrs['token_map'] is None and made == [])
        return
    cls, owner, ring = made[0]
    vc.check('post/token-class-of-the-partitioner', cls is (Murmur3Token if 'Murmur3' in part else MD5Token))
    val = lambda t: t.attrs['value'] if isinstance(t, SObj) else t.value
    vals = [val(t) for t in ring]
    vc.check('post/ring-sorted-and-complete', vals == sorted(vals) and sorted(vals) == [-5, 10, 30])
    vc.check('post/owner-of-each-token', {val(__import__('pyvc.libmodels', fromlist=['unwrap_key']).unwrap_key(t)): h for t, h in owner.items()} == {30: 'h1', -5: 'h1', 10: 'h2'})


# ---------------------------------------------------------------------------
# bounded stand-in: NetworkTopologyStrategy (and SimpleStrategy end to end) on every small ring, natively

def nts_exhaustive(tier, seed):
    from contracts.native import c26
    return c26.enumerate_rings(tier, seed)


BOUNDED = [nts_exhaustive]
