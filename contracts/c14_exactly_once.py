"""C14 - every request completes exactly once.

Typestate: ghost `completed`.  _set_final_result / _set_final_exception deliver the outcome to exactly the registered callbacks
of the matching kind, once each, and to nobody of the other kind; add_callback/add_errback on a completed future run the new
function exactly once.  Progress: every way of handling a response either completes the future or leaves exactly one pending
continuation (a sent request, a submitted task or a registered keyspace callback).
KNOWN FINDING (KF-C14-second-completion): the completion functions do not test `completed`, so a second outcome (second
speculative execution answered, late response after a client timeout) is delivered again.
"""
import z3
from pyvc.engine import harness
from pyvc import sym
from pyvc.interp import SObj, PyExc, exc_class
from pyvc.libmodels import PartialModel, _M, LockModel
from contracts import rf_common as R

LEVEL = 'proof'
TRUSTED = ['A-CB: user callbacks are opaque and do not re-enter the future', 'A-EXEC', 'E-EVENT: threading.Event is a flag',
           'A-ATOMIC: blocks under _callback_lock are atomic',
           'lock discipline: _final_result/_final_exception/_callbacks/_errbacks are written only under _callback_lock (checked on every executed path)',
           'progress is stated per response handler (one continuation or completion); the whole-history statement is their composition (meta-argument)']
EXPLANATION = 'typestate + ghost delivery log on the real completion functions, callback registration and every branch of _set_result'

RF = R.RF
KF = 'KF-C14-second-completion'


def _future_with_callbacks(vc, ncb, neb):
    h1 = R.Host('h1')
    world = R.World(vc, [h1])
    session = R.Session(world, 4)
    fut = R.make_future(vc, world, session, [])
    ran = []
    cbs = [_M((lambda i: (lambda resp, *a, **k: ran.append(('cb%d' % i, resp, a))))(i), 'cb%d' % i) for i in range(ncb)]
    ebs = [_M((lambda i: (lambda resp, *a, **k: ran.append(('eb%d' % i, resp, a))))(i), 'eb%d' % i) for i in range(neb)]
    fut.attrs['_callbacks'] = [(c, ('x',), {}) for c in cbs]
    fut.attrs['_errbacks'] = [(e, (), {}) for e in ebs]
    lock = fut.attrs['_callback_lock']
    base_on_set = fut.on_set

    def on_set(name, value):
        base_on_set(name, value)
        if name in ('_final_result', '_final_exception', '_callbacks', '_errbacks'):
            vc.check('lock/%s-written-under-_callback_lock' % name, lock.depth > 0)
    fut.on_set = on_set
    return fut, world, ran, lock


def _mk_final(which):
    @harness('C14', which, functions=[RF + which, RF + '_cancel_timer'], native='contracts.native.c14:replay')
    def h(vc):
        from cassandra.cluster import _NOT_SET
        ncb = vc.choice('callbacks', [0, 1, 2])
        neb = vc.choice('errbacks', [0, 1, 2])
        fut, world, ran, lock = _future_with_callbacks(vc, ncb, neb)
        prior = vc.choice('already_completed', ['no', 'with-result', 'with-exception'])
        old_result, old_exc = 'OLD-RESULT', SObj(Exception, {'args': ('old',)})
        if prior == 'with-result':
            fut.attrs['_final_result'] = old_result
            fut.attrs['_event'].flag = True
        elif prior == 'with-exception':
            fut.attrs['_final_exception'] = old_exc
            fut.attrs['_event'].flag = True
        fut.ghost['completions'][:] = []
        timer = R.Timer(world.log, 1.0, None)
        fut.attrs['_timer'] = timer
        outcome = vc.opaque('outcome', 'Outcome') if which == '_set_final_result' else SObj(Exception, {'args': ('boom',)})
        vc.call(RF + which, fut, outcome)
        mine = 'cb' if which == '_set_final_result' else 'eb'
        n_mine = ncb if mine == 'cb' else neb
        if prior == 'no':
            vc.check('post/each-registered-function-of-this-kind-ran-once-in-order',
                     [r[0] for r in ran] == ['%s%d' % (mine, i) for i in range(n_mine)])
            vc.check('post/with-the-outcome', all(r[1] is outcome for r in ran))
            vc.check('post/extra-args-passed', all(r[2] == (('x',) if mine == 'cb' else ()) for r in ran))
            vc.check('post/outcome-stored', (fut.attrs['_final_result'] is outcome) if mine == 'cb' else (fut.attrs['_final_exception'] is outcome))
            vc.check('post/other-kind-untouched', (fut.attrs['_final_exception'] is None) if mine == 'cb' else (fut.attrs['_final_result'] is _NOT_SET))
            vc.check('post/waiters-released', fut.attrs['_event'].flag is True)
            vc.check('post/timer-cancelled', timer.cancelled)
            vc.check('post/lock-released', lock.depth == 0)
        else:
            # typestate precondition "not completed" does not hold: nothing may be delivered again (known finding)
            vc.check('KF:%s/no-second-delivery' % KF, ran == [])
            vc.check('KF:%s/first-outcome-stands' % KF,
                     fut.attrs['_final_result'] is (old_result if prior == 'with-result' else _NOT_SET) and
                     fut.attrs['_final_exception'] is (old_exc if prior == 'with-exception' else None))
        if prior == 'no' and n_mine == 2:
            vc.must_fail('selfcheck/nothing-ran', ran == [])
    h.__doc__ = 'requires not completed; ensures %s delivers the outcome exactly once to each registered function of its kind, none of the other kind' % which
    return h


_mk_final('_set_final_result')
_mk_final('_set_final_exception')


def _mk_add(which):
    @harness('C14', which, functions=[RF + which], native='contracts.native.c14:replay')
    def h(vc):
        from cassandra.cluster import _NOT_SET
        fut, world, ran, lock = _future_with_callbacks(vc, 0, 0)
        state = vc.choice('state', ['pending', 'result', 'exception'])
        res, exc = 'THE-RESULT', SObj(Exception, {'args': ('e',)})
        if state == 'result':
            fut.attrs['_final_result'] = res
        elif state == 'exception':
            fut.attrs['_final_exception'] = exc
        fn = _M(lambda resp, *a, **k: ran.append(('fn', resp, a, k)), 'fn')
        r = vc.call(RF + which, fut, fn, 'extra', key='v')
        matching = (state == 'result') if which == 'add_callback' else (state == 'exception')
        if matching:
            vc.check('completed/runs-once-immediately-with-the-outcome', ran == [('fn', res if which == 'add_callback' else exc, ('extra',), {'key': 'v'})])
        else:
            vc.check('other/does-not-run', ran == [])
        lst = fut.attrs['_callbacks' if which == 'add_callback' else '_errbacks']
        vc.check('post/registered-once', len(lst) == 1 and lst[0][0] is fn)
        vc.check('post/other-list-untouched', fut.attrs['_errbacks' if which == 'add_callback' else '_callbacks'] == [])
        vc.check('post/returns-self', r is fut)
        vc.check('post/lock-released', lock.depth == 0)
    h.__doc__ = 'ensures %s runs the function exactly once iff the matching outcome is already there, otherwise only registers it' % which
    return h


_mk_add('add_callback')
_mk_add('add_errback')


@harness('C14', 'result', functions=[RF + 'result'], native='contracts.native.c14:replay')
def result(vc):
    """ensures the blocking call reports the delivered outcome: the result if there is one, otherwise raises the stored exception"""
    from cassandra.cluster import ResultSet
    fut, world, ran, lock = _future_with_callbacks(vc, 0, 0)
    state = vc.choice('state', ['result', 'exception'])
    exc = SObj(Exception, {'args': ('e',)})
    captured = {}
    vc.stub(ResultSet, lambda f, r: captured.setdefault('rs', (f, r)))
    if state == 'result':
        fut.attrs['_final_result'] = 'ROWS'
    else:
        fut.attrs['_final_exception'] = exc
    kind, v = vc.call_catch(RF + 'result', fut)
    if state == 'result':
        vc.check('post/returns-result', kind == 'ok' and captured.get('rs') == (fut, 'ROWS'))
    else:
        vc.check('post/raises-stored-exception', kind == 'exc' and v is exc)


RESPONSES = ['void', 'rows', 'other-result', 'set-keyspace', 'schema-change', 'read-timeout', 'server-error-other', 'unprepared',
             'connection-error', 'plain-exception', 'garbage']


@harness('C14', '_set_result-progress', functions=[RF + '_set_result', RF + '_handle_retry_decision', RF + '_retry'],
         native='contracts.native.c14:replay')
def progress(vc):
    """for every kind of response to a not-yet-completed future: afterwards exactly one of {completed once, one continuation
    submitted, one keyspace callback registered} holds - the request is never dropped and never completed twice by one response"""
    from cassandra import protocol
    from cassandra.protocol import (ResultMessage, RESULT_KIND_VOID, RESULT_KIND_ROWS, RESULT_KIND_SET_KEYSPACE,
                                    RESULT_KIND_SCHEMA_CHANGE, RESULT_KIND_PREPARED)
    from cassandra.connection import ConnectionException
    from pyvc.libmodels import SymKey
    h1 = R.Host('h1')
    world = R.World(vc, [h1])
    qid = b'qid'
    from cassandra.query import PreparedStatement
    ps = vc.obj(PreparedStatement, query_id=qid, query_string='q', keyspace=None, result_metadata=[], result_metadata_id=None)
    session = R.Session(world, 4, prepared={qid: ps})
    fut = R.make_future(vc, world, session, [], prepared_statement=ps)
    pool, conn = world.pools[h1], world.pools[h1].conn
    fut.attrs['_connection'] = conn
    kind = vc.choice('response', RESPONSES)
    if kind == 'void':
        resp = vc.obj(ResultMessage, kind=RESULT_KIND_VOID)
    elif kind == 'rows':
        resp = vc.obj(ResultMessage, kind=RESULT_KIND_ROWS, paging_state=None, column_names=['a'], column_types=[None], parsed_rows=[(1,)])
    elif kind == 'other-result':
        resp = vc.obj(ResultMessage, kind=RESULT_KIND_PREPARED)
    elif kind == 'set-keyspace':
        resp = vc.obj(ResultMessage, kind=RESULT_KIND_SET_KEYSPACE, new_keyspace='ks2')
    elif kind == 'schema-change':
        resp = vc.obj(ResultMessage, kind=RESULT_KIND_SCHEMA_CHANGE, schema_change_event={'target_type': 'KEYSPACE'})
    elif kind == 'read-timeout':
        resp = vc.obj(protocol.ReadTimeoutErrorMessage, code=0x1200, message='m',
                      info=dict(consistency=1, received_responses=1, required_responses=2, data_retrieved=False))
    elif kind == 'server-error-other':
        resp = vc.obj(protocol.SyntaxException, code=0x2000, message='m', info=None)
    elif kind == 'unprepared':
        resp = vc.obj(protocol.PreparedQueryNotFound, code=0x2500, message='m', info=qid)
    elif kind == 'connection-error':
        resp = SObj(ConnectionException, {'args': ('lost',)})
    elif kind == 'plain-exception':
        resp = SObj(Exception, {'args': ('x',)})
    else:
        resp = vc.opaque('garbage')
    vc.call(RF + '_set_result', fut, h1, conn, pool, resp)
    comps = len(fut.ghost['completions'])
    subs = len(world.submitted())
    ksreg = len([e for e in world.log if e[0] == 'set-keyspace-all-pools'])
    vc.check('post/exactly-one-way-forward', comps + subs + ksreg == 1)
    vc.check('post/at-most-one-completion', comps <= 1)
    if kind in ('void', 'rows', 'other-result'):
        vc.check('success/completed-with-result', comps == 1 and fut.ghost['completions'][0][0] == 'result')
    if kind in ('server-error-other', 'plain-exception', 'garbage'):
        vc.check('error/completed-with-exception', comps == 1 and fut.ghost['completions'][0][0] == 'exception')


class _Spec(object):
    def __init__(self, delay):
        self.delay = delay

    def next_execution(self, host):
        return self.delay


@harness('C14', '_on_speculative_execute', functions=[RF + '_on_speculative_execute', RF + 'send_request', RF + '_start_timer'],
         native='contracts.native.c14:replay')
def speculative(vc):
    """ensures a speculative execution never completes the future by itself while the original request is in flight: with hosts left
    it sends exactly one more copy of the message to the next host; with the plan exhausted it sends nothing and reports nothing;
    on a completed future it does nothing"""
    import time
    h1, h2 = R.Host('h1'), R.Host('h2')
    left = vc.choice('hosts_left_in_plan', [1, 0])
    world = R.World(vc, [h1, h2])
    session = R.Session(world, 4)
    fut = R.make_future(vc, world, session, [h2] if left else [])
    fut.attrs['attempted_hosts'] = [h1]
    fut.attrs['_current_host'] = h1
    fut.attrs['_spec_execution_plan'] = _Spec(-1)
    done = vc.choice('already_completed', [False, True])
    if done:
        fut.attrs['_event'].flag = True
    vc.stub(time.time, lambda: vc.ctx.fresh_real('now', register=False))
    vc.call(RF + '_on_speculative_execute', fut)
    sends = [e[1] for e in world.sends()]
    vc.check('post/never-completes-the-future', fut.ghost['completions'] == [])
    if done:
        vc.check('done/nothing-sent', sends == [])
    elif left:
        vc.check('post/one-more-copy-to-next-host', sends == [h2] and world.sends()[0][2] is fut.attrs['message'])
    else:
        vc.check('exhausted/nothing-sent-nothing-reported', sends == [])


@harness('C14', 'start_fetching_next_page', functions=[RF + 'start_fetching_next_page'], native='contracts.native.c14:replay')
def next_page(vc):
    """ensures a page fetch starts a fresh execution: no outcome stored (neither result nor exception), waiters blocked again,
    the paging state on the message, exactly one request sent; without a paging state it raises QueryExhausted and changes nothing"""
    from cassandra.cluster import _NOT_SET, QueryExhausted
    h1 = R.Host('h1')
    world = R.World(vc, [h1])
    session = R.Session(world, 4)
    fut = R.make_future(vc, world, session, [])

    class LB(object):
        def make_query_plan(self, ks, q):
            return [h1]
    fut.attrs['_load_balancer'] = LB()
    fut.attrs['_spec_execution_plan'] = _Spec(-1)
    prev = vc.choice('previous_outcome', ['result', 'exception'])
    if prev == 'result':
        fut.attrs['_final_result'] = 'PAGE-1'
    else:
        fut.attrs['_final_exception'] = SObj(Exception, {'args': ('page fetch failed',)})
    fut.attrs['_event'].flag = True
    has_state = vc.choice('has_paging_state', [True, False])
    fut.attrs['_paging_state'] = b'state-1' if has_state else None
    fut.ghost['completions'][:] = []
    kind, v = vc.call_catch(RF + 'start_fetching_next_page', fut)
    if not has_state:
        vc.check('exhausted/raises-QueryExhausted', kind == 'exc' and issubclass(exc_class(v), QueryExhausted))
        vc.check('exhausted/nothing-sent', world.sends() == [])
        return
    vc.check('post/no-result-stored', fut.attrs['_final_result'] is _NOT_SET)
    vc.check('post/no-exception-stored', fut.attrs['_final_exception'] is None)
    vc.check('post/waiters-block-again', fut.attrs['_event'].flag is False)
    vc.check('post/paging-state-on-message', fut.attrs['message'].attrs['paging_state'] == b'state-1')
    vc.check('post/one-request-sent', len(world.sends()) == 1 and world.sends()[0][2] is fut.attrs['message'])


# A ResponseFuture completes once only if the connection hands its callback each outcome once: a handler errored twice by a failing connection
# schedules two retries and both answers complete the future.  The connection-side contract (every outstanding handler exactly once) is C10's;
# the two obligations the future relies on are re-discharged here.
from contracts import c10_defunct as _C10
_CQ = 'cassandra.connection.Connection.'
harness('C14', 'connection-errors-each-handler-once', functions=[_CQ + 'defunct', _CQ + 'error_all_requests', _CQ + 'error_all_cp_sessions'], native='contracts.native.c10:replay')(_C10.defunct)
harness('C14', 'connection-errors-each-handler-once[many]', functions=[_CQ + 'error_all_requests'], native='contracts.native.c10:replay')(_C10.many)

# A retried request must be in flight once: _retry_task sends to the same host OR hands over to the next host, never both (two answers would complete the future
# twice).  C17's contract on _retry_task (request id 0 counts as sent), re-discharged here.
from contracts import c17_plan_order as _C17
_RF = 'cassandra.cluster.ResponseFuture.'
harness('C14', 'retry-is-sent-once', functions=[_RF + '_retry_task', _RF + '_query', _RF + 'send_request'], native='contracts.native.c17:replay')(_C17.retry_task)

# Continuations that run later (the re-prepare answer handled on the executor) must do nothing once the future has completed - a request sent after the outcome
# brings a second outcome.  C19's contract on _execute_after_prepare (incl. its `already failed` case), re-discharged here.
from contracts import c19_reprepare as _C19
harness('C14', 'reprepare-continuation-after-completion', functions=[_RF + '_execute_after_prepare', _RF + '_query'], native='contracts.native.c19:replay')(_C19.after_prepare)
