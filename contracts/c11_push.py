"""C11 - messages pushed concurrently reach the socket whole and in order.

asyncio reactor: push() cuts a message into chunks and schedules ONE coroutine (_push_msg) that appends all chunks to the write queue; handle_write() sends queue items
in FIFO order.  The event loop runs one task at a time and switches tasks only at `await`.  Contracts:
  push            : concat(chunks) == data, every chunk non-empty, exactly one coroutine scheduled (thread-safe form off the loop thread), carrying the chunks in order;
  _push_msg       : the chunks are appended to the queue in order, inside the write-queue lock, with NO await point between two appends (so no other task's chunk can get between);
  handle_write    : one iteration takes the oldest queue item and hands exactly it to sock_sendall.
Together with E-ASYNCIO (tasks submitted from one thread start in submission order; Queue is FIFO; sock_sendall sends all bytes or raises) the wire is the concatenation of the
pushed messages in an order consistent with each thread's push order.  twisted reactor: push() hands the whole message to transport.write through reactor.callFromThread exactly once.
"""
import os
import sys
import types
import z3
from pyvc.engine import harness
from pyvc import sym
from pyvc.sym import SBytes
from pyvc.interp import CoroutineModel, PyExc, exc_class, get_attr, py_raise

LEVEL = 'proof'
TRUSTED = ['E-ASYNCIO (assumed, probed on the real event loop by the bounded stand-in): coroutines submitted with run_coroutine_threadsafe / create_task start in submission order; a task is only '
           'suspended at an await; asyncio.Queue is FIFO; asyncio.Lock supports `async with` and is NOT awaitable (Python >= 3.9); sock_sendall(sock, b) sends all of b or raises',
           'E-TWISTED (assumed): reactor.callFromThread calls run on the reactor thread in submission order; transport.write(b) queues all of b',
           'chunking is verified for message lengths 0 .. 3 x buffer + remainder with an out_buffer_size of 4 and symbolic content (the loop only compares lengths with the buffer size; stated bound)',
           'A-AFFINITY: handle_write is the only consumer of the write queue']
EXPLANATION = 'postconditions over a ghost wire / queue log on the real AsyncioConnection.push / _push_msg / handle_write (async code interpreted with explicit await points) and TwistedConnection.push; bounded multi-threaded probe on the real event loop'

A = 'cassandra.io.asyncioreactor.AsyncioConnection.'
TIER = os.environ.get('VERIF_TIER', 'quick')


def _data(vc, n):
    if n == 0:
        return b''
    xs = [vc.int('byte%d' % i) for i in range(n)]
    vc.assume(sym.and_(*[sym.and_(x >= 0, x <= 255) for x in xs]))
    units = [z3.Unit(x.t) for x in xs]
    return SBytes(units[0] if n == 1 else z3.Concat(*units))


class _Awaitable(object):
    def __init__(self, fn):
        self.__pyvc_await__ = fn


class _Lock(object):
    """asyncio.Lock as of Python 3.9+: an async context manager, not awaitable"""
    def __init__(self, log):
        self.log, self.held = log, False

    def __pyvc_aenter__(self):
        self.held = True
        self.log.append(('lock', 'acquired'))

    def __pyvc_aexit__(self, exc):
        self.held = False
        self.log.append(('lock', 'released'))


class _Queue(object):
    def __init__(self, vc, log, lock):
        self.vc, self.log, self.lock, self.items = vc, log, lock, []

    def put_nowait(self, item):
        self.log.append(('put', item, self.vc.ctx.ghost.get('await_points', 0), self.lock.held))
        self.items.append(item)

    def get(self):
        return _Awaitable(lambda: self.items.pop(0))

    # the rest of asyncio.Queue's synchronous API (E-ASYNCIO: FIFO; put_nowait appends at the tail)
    def empty(self):
        return not self.items

    def qsize(self):
        return len(self.items)

    def full(self):
        return False

    def get_nowait(self):
        import asyncio
        if not self.items:
            py_raise(asyncio.QueueEmpty())
        return self.items.pop(0)

    def task_done(self):
        pass


class _Loop(object):
    def __init__(self, log):
        self.log = log

    def create_task(self, coro):
        self.log.append(('create_task', coro))

    def sock_sendall(self, sock, data):
        def go():
            self.log.append(('sendall', sock, data))
        return _Awaitable(go)


class _Thread(object):
    def __init__(self, ident):
        self.ident = ident


@harness('C11', 'asyncio-push', functions=[A + 'push', A + '_push_msg'], native='contracts.native.c11:replay')
def asyncio_push(vc):
    """for every message length 0..14 with a 4-byte output buffer (symbolic content), pushed from the loop thread or from another thread:
    ensures exactly one coroutine is scheduled (run_coroutine_threadsafe off the loop thread, create_task on it); running it appends chunks whose concatenation is the message, each
    non-empty and at most one buffer long, in order, all while holding the write-queue lock and with no await point between two appends; the lock is released afterwards"""
    import asyncio
    import cassandra.io.asyncioreactor as R
    n = vc.choice('message_length', list(range(0, 15)) if TIER == 'quick' else list(range(0, 23)))
    on_loop = vc.choice('pushed_from', ['another-thread', 'the-loop-thread'])
    data = _data(vc, n)
    log = []
    lock = _Lock(log)
    q = _Queue(vc, log, lock)
    loop = _Loop(log)
    conn = vc.obj(R.AsyncioConnection, out_buffer_size=4, _loop=loop, _loop_thread=_Thread(1), _write_queue=q, _write_queue_lock=lock)
    vc.stub(R.get_ident, lambda: 1 if on_loop == 'the-loop-thread' else 2)
    vc.stub(asyncio.run_coroutine_threadsafe, lambda coro, loop=None: log.append(('threadsafe', coro, loop)))
    vc.call(A + 'push', conn, data)
    sched = [e for e in log if e[0] in ('threadsafe', 'create_task')]
    vc.check('push/exactly-one-coroutine-scheduled-in-the-right-way', len(sched) == 1 and isinstance(sched[0][1], CoroutineModel) and
             sched[0][0] == ('create_task' if on_loop == 'the-loop-thread' else 'threadsafe') and (on_loop == 'the-loop-thread' or sched[0][2] is loop))
    vc.check('push/nothing-queued-before-the-coroutine-runs', not [e for e in log if e[0] == 'put'])
    if len(sched) != 1 or not isinstance(sched[0][1], CoroutineModel):
        return
    k, r = 'ok', None
    try:
        sched[0][1].run()
    except PyExc as e:
        k, r = 'exc', e.value
    vc.check('_push_msg/runs-to-completion', k == 'ok')
    if k != 'ok':
        return
    puts = [e for e in log if e[0] == 'put']
    chunks = [e[1] for e in puts]
    joined = SBytes(z3.Empty(sym.ByteSeq))
    for c in chunks:
        joined = joined + sym.lift(c)
    vc.check('_push_msg/queued-chunks-concatenate-to-the-message', joined == sym.lift(data))
    lens = [(sym.lift(c).length() if isinstance(c, SBytes) else len(c)) for c in chunks]
    vc.check('_push_msg/every-chunk-at-most-one-buffer-and-only-an-empty-message-gives-an-empty-chunk', all(sym.concrete_int(l) is not None and sym.concrete_int(l) <= 4 for l in lens) and
             (n == 0 or all(sym.concrete_int(l) >= 1 for l in lens)))
    vc.check('_push_msg/all-appends-under-the-lock-with-no-await-between-them', all(e[3] for e in puts) and len({e[2] for e in puts}) <= 1)
    seq = [e[0] if e[0] != 'lock' else e[1] for e in log if e[0] in ('lock', 'put')]
    vc.check('_push_msg/lock-acquired-before-the-first-append-and-released-after-the-last', seq == ['acquired'] + ['put'] * len(puts) + ['released'] and not lock.held)
    if n == 9:
        vc.must_fail('selfcheck/one-chunk-per-message', len(chunks) == 1)


@harness('C11', 'asyncio-handle_write', functions=[A + 'handle_write'], native='contracts.native.c11:replay')
def asyncio_handle_write(vc):
    """for a write queue holding chunks c1, c2, (empty), c3: ensures the byte stream handle_write hands to sock_sendall is c1 + c2 + c3 - every queued byte, in queue order,
    nothing empty sent, the queue drained; a socket error defuncts the connection and stops the writer"""
    import asyncio
    import socket
    import cassandra.io.asyncioreactor as R
    log = []
    lock = _Lock(log)
    q = _Queue(vc, log, lock)
    loop = _Loop(log)
    fail_at = vc.choice('socket_error_at_send', [None, 1])
    c1, c2, c3 = vc.bytes('chunk1'), vc.bytes('chunk2'), vc.bytes('chunk3')
    for c in (c1, c2, c3):
        vc.assume(c.length() >= 1)
    q.items = [c1, c2, b'', c3]
    sends = []

    def sendall(sock, data):
        def go():
            if fail_at is not None and len(sends) == fail_at:
                py_raise(socket.error('broken pipe'))
            sends.append(data)
        return _Awaitable(go)
    loop.sock_sendall = sendall
    stop = {}

    def get():
        def go():
            if not q.items:
                py_raise(asyncio.CancelledError())       # the harness ends the (endless) writer when the queue is drained
            return q.items.pop(0)
        return _Awaitable(go)
    q.get = get
    defunct = []
    conn = vc.obj(R.AsyncioConnection, _loop=loop, _socket='SOCKET', _write_queue=q, is_defunct=False)
    vc.stub(A + 'defunct', lambda self, exc: defunct.append(exc))
    coro = vc.call(A + 'handle_write', conn)
    vc.check('handle_write/is-a-coroutine', isinstance(coro, CoroutineModel))
    coro.run()
    if fail_at is None:
        # what the socket receives is the queue's content in queue order: how the bytes are grouped into sendall calls is the writer's business
        # (the property speaks of messages reaching the socket whole and in order, not of one system call per chunk)
        stream = sym.lift(b'')
        for d in sends:
            stream = stream + sym.lift(d)
        vc.check('handle_write/socket-receives-the-queued-bytes-in-queue-order', sym.and_(stream == sym.lift(c1) + sym.lift(c2) + sym.lift(c3)) and not defunct and not q.items)
        vc.check('handle_write/nothing-empty-is-sent', all(sym.proves(vc.ctx, sym.lift(d).length() >= 1) for d in sends))
    else:
        vc.check('handle_write/socket-error-defuncts-and-stops', len(sends) == 1 and len(defunct) == 1)          # one send went through, the failing one defuncts, nothing is sent after it


def _twisted_stubs():
    """cassandra.io.twistedreactor imports twisted and zope; under the verifier's interpreter they are replaced by empty stand-ins (only push() is verified)"""
    if 'twisted' in sys.modules:
        return
    class _Any(object):
        def __getattr__(self, n):
            return type(n, (object,), {}) if n[:1].isupper() else _Any()

        def __call__(self, *a, **k):
            return _Any()
    for name in ('twisted', 'twisted.internet', 'twisted.internet.endpoints', 'twisted.internet.interfaces', 'twisted.internet.protocol', 'twisted.internet.reactor', 'twisted.python',
                 'twisted.python.failure', 'twisted.internet.ssl', 'zope', 'zope.interface'):
        m = types.ModuleType(name)
        m.__getattr__ = lambda n, _A=_Any: type(n, (object,), {}) if n[:1].isupper() else _A()
        sys.modules[name] = m
    sys.modules['zope.interface'].implementer = lambda *ifaces: (lambda cls: cls)


@harness('C11', 'twisted-push', functions=['cassandra.io.twistedreactor.TwistedConnection.push'], native='contracts.native.c11:replay')
def twisted_push(vc):
    """for every message: ensures push hands the whole message, unmodified, to transport.write through reactor.callFromThread exactly once"""
    _twisted_stubs()
    import cassandra.io.twistedreactor as T
    data = vc.bytes('message')
    calls = []

    class _Reactor(object):
        @staticmethod
        def callFromThread(fn, *a):
            calls.append((fn, a))
    old = T.reactor
    T.reactor = _Reactor
    try:
        conn = vc.obj(T.TwistedConnection, transport=types.SimpleNamespace(write='TRANSPORT.WRITE'))
        vc.call('cassandra.io.twistedreactor.TwistedConnection.push', conn, data)
    finally:
        T.reactor = old
    vc.check('push/one-thread-safe-call-of-transport.write-with-the-whole-message', len(calls) == 1 and calls[0][0] == 'TRANSPORT.WRITE' and len(calls[0][1]) == 1 and sym.lift(calls[0][1][0]) == data)


def threads_on_a_real_event_loop(tier, seed):
    """under /venv/bin/python (3.12, the interpreter of the test suite - a supported version on which the asyncio reactor is the usable one)"""
    import json
    import subprocess
    repo = os.environ.get('VERIF_REPO', '/repo')
    verif = os.path.dirname(os.path.dirname(os.path.abspath(__file__)))
    code = 'import json,sys; sys.path.insert(0, %r); sys.path.insert(0, %r); from contracts.native import c11; print(json.dumps(c11.threads_on_a_real_loop(%r, %d)))' % (repo, verif, tier, seed)
    p = subprocess.run(['/venv/bin/python', '-W', 'ignore', '-c', code], capture_output=True, text=True, cwd=repo, timeout=900, env=dict(os.environ, PYTHONPATH=repo))
    try:
        return json.loads([ln for ln in p.stdout.strip().splitlines() if ln.startswith('{')][-1])
    except Exception:
        return {'name': 'threads-on-a-real-event-loop', 'error': 'no result: %s %s' % (p.stdout[-300:], p.stderr[-800:])}


BOUNDED = [threads_on_a_real_event_loop]
