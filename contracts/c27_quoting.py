"""C27 - CQL identifiers and literals produced by the driver read back unchanged."""
import os
import z3
from pyvc.engine import harness
from pyvc import sym
from pyvc.sym import SStr, SBool
from pyvc.interp import SObj, PyExc, exc_class, get_attr
from pyvc.libmodels import str_replace_all

LEVEL = 'proof'
LEAN_LEMMAS = ['quote_roundtrip']
TRUSTED = ['CQL lexical grammar (Cassandra Lexer.g): IDENT = LETTER (LETTER | DIGIT | \'_\')* read back lower-cased; QUOTED_NAME = \'"\' (~\'"\' | \'""\')+ \'"\' with "" standing for "; '
           'STRING_LITERAL = "\'" (~"\'" | "\'\'")* "\'" with \'\' standing for \'; the reserved words are org.apache.cassandra.cql3.ReservedKeywords (4.x) transcribed in CASSANDRA_RESERVED',
           'E-STR: str.replace replaces every occurrence (z3/cvc5 str.replace_all), %-formatting with a literal template concatenates, lower() of an ASCII string without upper-case letters is the string itself, '
           'Python regex $ = end of string or before a final newline',
           'lemma L1 (the lexer reads q + replace_all(s, q, q+q) + q back as exactly s and the token ends at the closing quote) is an induction over strings the solvers do not do: proved as '
           'quote_roundtrip in lemmas/Lemmas.lean over the spec functions esc / unesc and elaborated by lean on every run. Assumed: SMT-LIB str.replace_all with a one-character pattern is esc, and Cassandra\'s lexer '
           'reads a quoted token as unesc (Lexer.g: a doubled quote is one quote, a single quote ends the token); the bounded stand-in (exhaustive over a 4-letter alphabet to length 7 through the real functions and '
           'an independent lexer) stays as a probe of both identifications',
           'the regex subset translated to z3 regular expressions (pyvc.libmodels._regex_to_z3) and the frame obligation that the two patterns used are inside it']
EXPLANATION = 'string postconditions (z3 strings / regular languages, cvc5 as fall-back) on the real escape_name / maybe_escape_name / is_valid_name / protect_name(s) / protect_value / cql_quote and the USE statement text of Connection.set_keyspace_*; reserved-word set inclusion; bounded lexer round trip'

M = 'cassandra.metadata.'
CASSANDRA_RESERVED = [w.lower() for w in (
    "SELECT FROM WHERE AND ENTRIES FULL INSERT UPDATE WITH LIMIT USING USE SET BEGIN UNLOGGED BATCH APPLY TRUNCATE DELETE IN CREATE KEYSPACE SCHEMA COLUMNFAMILY TABLE "
    "MATERIALIZED VIEW INDEX ON TO DROP PRIMARY INTO ALTER RENAME ADD ORDER BY ASC DESC ALLOW IF IS GRANT OF REVOKE MODIFY AUTHORIZE DESCRIBE EXECUTE NORECURSIVE TOKEN "
    "NULL NOT NAN INFINITY OR REPLACE DEFAULT UNSET MBEAN MBEANS").split()]
IDENT = z3.Concat(z3.Range('a', 'z'), z3.Star(z3.Union(z3.Range('a', 'z'), z3.Range('0', '9'), z3.Re('_'))))


def quoted(q, s):
    """the spec text of a quoted name / string literal: q + s with every q doubled + q"""
    return SStr(z3.Concat(z3.StringVal(q), str_replace_all(sym.lift(s).t, z3.StringVal(q), z3.StringVal(q + q)), z3.StringVal(q)))


@harness('C27', 'identifiers', functions=[M + n for n in ('escape_name', 'maybe_escape_name', 'is_valid_name', 'protect_name', 'protect_names')], native='contracts.native.c27:replay')
def identifiers(vc):
    """for every name (any unicode string):  ensures escape_name(n) == '"' + n with every " doubled + '"';  is_valid_name(n) only if n is in [a-z][a-z0-9_]* (what CQL reads back
    unchanged as a bare word: nothing to lower-case, no trailing newline) and n is not one of Cassandra's reserved words;  maybe_escape_name / protect_name(s) return n itself exactly
    when is_valid_name(n) and the quoted form otherwise;  is_valid_name(None) is False"""
    n = vc.str('name')
    e = vc.call(M + 'escape_name', n)
    vc.check('escape_name/quoted-with-doubled-quotes', sym.lift(e) == quoted('"', n))
    v = vc.call(M + 'is_valid_name', n)
    vb = v if isinstance(v, bool) else None
    if vb is None:
        vb = vc.ctx.branch(sym.as_bool_term(v))
    if vb:
        vc.check('is_valid_name/only-bare-words-that-read-back-unchanged', SBool(z3.InRe(n.t, IDENT)))
        vc.check('is_valid_name/never-a-reserved-word', sym.and_(*[n != w for w in CASSANDRA_RESERVED]))
    m = vc.call(M + 'maybe_escape_name', n)
    p = vc.call(M + 'protect_name', n)
    ps = vc.call(M + 'protect_names', [n, 'select'])
    want = n if vb else quoted('"', n)
    vc.check('maybe_escape_name/bare-iff-valid-else-quoted', sym.lift(m) == want)
    vc.check('protect_name/same', sym.lift(p) == want)
    vc.check('protect_names/each-name-protected', isinstance(ps, list) and len(ps) == 2 and sym.and_(sym.lift(ps[0]) == want) and ps[1] == '"select"')
    vc.check('is_valid_name/None-is-not-a-name', vc.call(M + 'is_valid_name', None) is False)
    if vb:
        vc.must_fail('selfcheck/valid-names-have-one-letter', n.length() == 1)


@harness('C27', 'reserved-words', functions=[M + 'is_valid_name'], native='contracts.native.c27:replay')
def reserved(vc):
    """ensures every word Cassandra reserves is in the driver's reserved set (so it is never emitted bare), in any letter case"""
    from cassandra import metadata
    w = vc.choice('word', CASSANDRA_RESERVED)
    vc.check('reserved/in-the-drivers-reserved-set', w in metadata.cql_keywords_reserved)
    vc.check('reserved/quoted-by-protect_name', vc.call(M + 'protect_name', w) == '"%s"' % w and vc.call(M + 'is_valid_name', w.upper()) is False)


@harness('C27', 'string-literals', functions=[M + 'protect_value', 'cassandra.encoder.cql_quote'], native='contracts.native.c27:replay')
def literals(vc):
    """for every text s: ensures protect_value(s) == cql_quote(s) == "'" + s with every ' doubled + "'"; protect_value(None) == 'NULL'; numbers and booleans are rendered bare in lower case"""
    s = vc.str('text')
    vc.check('protect_value/quoted-with-doubled-quotes', sym.lift(vc.call(M + 'protect_value', s)) == quoted("'", s))
    vc.check('cql_quote/quoted-with-doubled-quotes', sym.lift(vc.call('cassandra.encoder.cql_quote', s)) == quoted("'", s))
    vc.check('protect_value/null', vc.call(M + 'protect_value', None) == 'NULL')
    vc.check('protect_value/booleans-and-numbers-bare', vc.call(M + 'protect_value', True) == 'true' and vc.call(M + 'protect_value', False) == 'false' and
             vc.call(M + 'protect_value', 42) == '42' and vc.call(M + 'protect_value', -1.5) == '-1.5')
    vc.check('cql_quote/non-text-is-str', vc.call('cassandra.encoder.cql_quote', 7) == '7')


@harness('C27', 'index-target[2.x-schema]', functions=[M + 'SchemaParserV22._build_index_metadata', M + 'IndexMetadata.as_cql_query'], native='contracts.native.c27:replay')
def index_target(vc):
    """the index target the driver GENERATES itself when it reads a Cassandra 2.x schema (later versions are handed the target by the server): for every column name and
    every kind of index - plain, keys(...) of a map, values of a collection, full(...) of a frozen collection, custom - ensures the target is the column name as
    protect_name renders it (bare only when that reads back unchanged), wrapped in keys( ) / full( ) where the index kind says so, never the raw name"""
    from cassandra import metadata
    name = vc.str('column_name')
    kind = vc.choice('index', ['plain', 'keys-of-a-map', 'values-of-a-collection', 'full-frozen-collection', 'custom', 'plain-on-a-frozen-udt'])
    frozen = kind in ('full-frozen-collection', 'plain-on-a-frozen-udt')

    class T(object):
        def __init__(self, typename, subtypes=()):
            self.typename, self.subtypes = typename, subtypes

    class Table(object):
        keyspace_name, name = 'ks', 'tb'

    class Col(object):
        table = Table()
    col = Col()
    col.name = name
    col._cass_type = T('frozen', (T('list' if kind == 'full-frozen-collection' else 'udt'),)) if frozen else T('map' if kind.startswith('keys') else 'text')
    options = {'keys-of-a-map': '{"index_keys": ""}', 'values-of-a-collection': '{"index_values": ""}', 'custom': '{"class_name": "org.example.Idx"}'}.get(kind)
    row = {'index_name': 'idx', 'index_type': 'CUSTOM' if kind == 'custom' else 'COMPOSITES', 'index_options': options}
    # callee contract: protect_name (discharged by the `identifiers` harness) is an arbitrary function here - the target must be ITS result, whatever that is
    import z3
    from pyvc.sym import SStr
    PN = z3.Function('protect_name_result', z3.StringSort(), z3.StringSort())
    vc.stub(M + 'protect_name', lambda n: SStr(PN(sym.lift(n).t)))
    im = vc.call(metadata.SchemaParserV22._build_index_metadata, col, row)
    target = get_attr(vc.ctx, im, 'index_options')['target'] if im is not None else None
    safe = SStr(PN(name.t))
    want = sym.lift('keys(') + safe + sym.lift(')') if kind == 'keys-of-a-map' else (sym.lift('full(') + safe + sym.lift(')') if kind == 'full-frozen-collection' else safe)
    vc.check('target/is-the-protected-column-name-in-the-right-wrapper', im is not None and sym.and_(sym.lift(target) == want))


@harness('C27', 'keyspace-switch', functions=['cassandra.connection.Connection.set_keyspace_blocking', 'cassandra.connection.Connection.set_keyspace_async'], native='contracts.native.c27:replay')
def use_statement(vc):
    """for every keyspace name: ensures the statement sent by Connection.set_keyspace_blocking / set_keyspace_async is 'USE ' followed by the quoted form of the name (every " doubled)"""
    from cassandra import ConsistencyLevel
    for fn in ('set_keyspace_blocking', 'set_keyspace_async'):
        ks = vc.str('keyspace')
        made = {}

        def QM(query=None, consistency_level=None, **kw):
            made['query'], made['cl'] = query, consistency_level
            return 'QUERY-MESSAGE'
        loc = vc.exec_slice('cassandra.connection.Connection.' + fn, r'^query = QueryMessage\(', {'keyspace': ks, 'QueryMessage': QM, 'ConsistencyLevel': ConsistencyLevel})
        vc.check(fn + '/statement-text', 'query' in made and sym.lift(made['query']) == SStr(z3.Concat(z3.StringVal('USE '), quoted('"', ks).t)))


def lexer_round_trip(tier, seed):
    from contracts.native import c27
    return c27.quoting_round_trip(tier, seed)


def generated_ddl(tier, seed):
    from contracts.native import c27
    return c27.ddl_names_read_back(tier, seed)


BOUNDED = [lexer_round_trip, generated_ddl]
