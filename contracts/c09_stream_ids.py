"""C09 - multiplexed requests never receive another request's response (stream-id pool invariant).

Abstract view of a connection under connection.lock:
   FREE  = set(request_ids) U {highest_request_id+1 .. max_request_id}      ids that may be handed out
   REQ   = keys(_requests)                                                  ids with a registered handler
   ORPH  = orphaned_request_ids                                             timed-out ids still owned by the server
INV-ID: ids created so far are 0..highest_request_id <= max_request_id; request_ids holds some of them, none of which is in
REQ or ORPH; in_flight >= (highest_request_id + 1) - len(request_ids)  (over-counting is transient and safe: equality holds
whenever no response handler is between releasing the id and returning the connection).
"""
import time
import z3
from pyvc.engine import harness
from pyvc import sym, frames
from pyvc.sym import SInt, SBool
from pyvc.interp import SObj, PyExc, exc_class
from pyvc.libmodels import LockModel, _M, SymKey, MISSING
from contracts import rf_common as R

LEVEL = 'proof'
TRUSTED = ['A-ATOMIC: blocks under connection.lock are atomic; A-AFFINITY: process_msg and request timeouts of one connection run on the event-loop thread',
           'request_ids is modelled as a sequence without duplicates (part of INV-ID; preserved: an id is appended only when it was in REQ/ORPH, never while free)',
           'Connection.__init__: only the stream-id set-up statement is extracted and executed (sockets, SSL, reactor wiring dropped)',
           'history clause (any interleaving) = induction over the discharged per-operation contracts under INV-ID (meta-argument)']
EXPLANATION = 'lock-invariant style contracts on get_request_id / HostConnection.borrow_connection / return_connection / process_msg / _on_timeout and the id-pool set-up slice of Connection.__init__, plus frame scans'

CQ = 'cassandra.connection.Connection.'


class SymDeque(object):
    """collections.deque holding a symbolic sequence of ints (E-DEQUE: popleft from the left, append to the right)."""

    def __init__(self, seq):
        self.seq = seq
        self.appended = []

    def popleft(self):
        from pyvc.engine import cur
        if cur().branch((self.seq.length() > 0).t):
            x = self.seq[0]
            self.seq = self.seq[1:]
            return x
        raise PyExc(IndexError('pop from an empty deque'))

    def append(self, x):
        self.appended.append(x)
        self.seq = self.seq + sym.int_seq(z3.Unit(sym.as_int_term(x)))

    def __len__(self):
        raise sym.Unsupported('len of symbolic deque')


def _conn(vc, with_requests=True):
    """A connection in an arbitrary state satisfying INV-ID."""
    from cassandra.connection import Connection
    ctx = vc.ctx
    F = vc.intseq('request_ids')
    H, M, inflight = vc.int('highest_request_id'), vc.int('max_request_id'), vc.int('in_flight')
    k1, k2 = vc.int('registered_id_1'), vc.int('orphaned_id')
    nF = F.length()
    inv = [M >= 0, H >= -1, H <= M, nF >= 0, nF <= H + 1, inflight >= H + 1 - nF, inflight >= 0,
           k1 >= 0, k1 <= H, k2 >= 0, k2 <= H, k1 != k2,
           SBool(z3.Not(z3.Contains(F.t, z3.Unit(k1.t)))), SBool(z3.Not(z3.Contains(F.t, z3.Unit(k2.t))))]
    # every free id in the deque is one of the created ids (ground instance at the head)
    inv.append(SBool(z3.Implies(nF.t > 0, z3.And(F.t[0] >= 0, F.t[0] <= H.t))))
    for c in inv:
        vc.assume(c)
    lock = LockModel('connection.lock')
    dq = SymDeque(F)
    conn = vc.obj(Connection, request_ids=dq, highest_request_id=H, max_request_id=M, in_flight=inflight, lock=lock,
                  orphaned_request_ids={k2} if False else set(), _requests={}, is_closed=False, is_defunct=False,
                  orphaned_threshold_reached=False, orphaned_threshold=vc.int('orphaned_threshold'),
                  _continuous_paging_sessions={}, _on_orphaned_stream_released=None, user_type_map={}, decompressor=None,
                  msg_received=False, is_unsupported_proto_version=False, signaled_error=False)
    cb1 = _M(lambda r: log.append(('cb1', r)), 'cb1')
    log = []
    conn.attrs['_requests'] = {SymKey(k1): (cb1, _M(lambda *a, **k: 'DECODED'), None)}
    conn.attrs['orphaned_request_ids'] = SymSet([k2])
    st = dict(F=F, H=H, M=M, inflight=inflight, k1=k1, k2=k2, lock=lock, dq=dq, log=log)

    def on_set(name, value):
        if name in ('in_flight', 'highest_request_id'):
            vc.check('lock/%s-written-under-connection.lock' % name, lock.depth > 0)
    conn.on_set = on_set
    return conn, st


class SymSet(object):
    """A set of symbolic ints with explicit membership (used for orphaned_request_ids)."""

    def __init__(self, items):
        self.items = list(items)

    def __contains__(self, x):
        from pyvc.engine import cur
        for y in self.items:
            if cur().branch((y == x).t):
                return True
        return False

    def add(self, x):
        if not self.__contains__(x):
            self.items.append(x)

    def remove(self, x):
        from pyvc.engine import cur
        for i, y in enumerate(self.items):
            if cur().branch((y == x).t):
                del self.items[i]
                return
        raise PyExc(KeyError('x'))

    def __len__(self):
        return len(self.items)


@harness('C09', 'get_request_id', functions=[CQ + 'get_request_id'], native='contracts.native.c09:replay')
def get_id(vc):
    """requires INV-ID, connection.lock held, in_flight (before the caller's increment) <= max_request_id minus one free slot;
    ensures the returned id was free, is within 0..max_request_id, is neither registered nor orphaned, and leaves the free set"""
    conn, st = _conn(vc)
    F, H, M = st['F'], st['H'], st['M']
    # what borrow_connection / wait_for_responses establish before calling: a free id exists
    vc.assume(sym.or_(F.length() > 0, H < M))
    vc.cover('requires-inhabited')
    st['lock'].depth = 1
    kind, rid = vc.call_catch(CQ + 'get_request_id', conn)
    vc.check('post/never-raises-with-a-free-id', kind == 'ok')
    if kind != 'ok':
        return
    vc.check('post/within-protocol-maximum', sym.and_(rid >= 0, rid <= M))
    vc.check('post/not-a-registered-id', rid != st['k1'])
    vc.check('post/not-an-orphaned-id', rid != st['k2'])
    from_deque = vc.ctx.branch((F.length() > 0).t)
    if from_deque:
        vc.check('post/is-head-of-free-list', sym.and_(rid == F[0], conn.attrs['highest_request_id'] == H))
        vc.check('post/removed-from-free-list', SBool(st['dq'].seq.t == z3.SubSeq(F.t, 1, z3.Length(F.t) - 1)))
    else:
        vc.check('post/next-never-used-id', sym.and_(rid == H + 1, conn.attrs['highest_request_id'] == H + 1))
    vc.must_fail('selfcheck/always-zero', rid == 0)


@harness('C09', 'borrow_connection', functions=['cassandra.pool.HostConnection.borrow_connection', 'cassandra.pool.HostConnection._get_connection',
                                               CQ + 'get_request_id'], native='contracts.native.c09:replay')
def borrow(vc):
    """ensures a successful borrow increments in_flight by exactly one (to at most max_request_id) and returns a free id obtained
    under connection.lock; a full connection raises NoConnectionsAvailable after the timeout with in_flight unchanged"""
    from cassandra.pool import HostConnection, NoConnectionsAvailable
    conn, st = _conn(vc)
    pool_lock = LockModel('pool._lock')

    class Cond(object):
        def __enter__(self):
            return self

        def __exit__(self, *a):
            return False

        def wait(self, t=None):
            return None

        def notify(self):
            pass
    pool = vc.obj(HostConnection, _connection=conn, is_shutdown=False, _lock=pool_lock, _stream_available_condition=Cond(),
                  _is_replacing=False, _trash=set(), host='h', _session=None)
    vc.stub(time.time, lambda: vc.ctx.fresh_real('now', register=False))
    seen = {}
    orig_get = 'cassandra.connection.Connection.get_request_id'
    timeout = vc.real('timeout')
    vc.assume(timeout >= 0)
    # wait loop: at most two rounds explored (the loop body does not depend on the round)
    inflight0 = st['inflight']
    vc.loop('cassandra.pool.HostConnection.borrow_connection', 0,
            invariant=lambda L: [('in_flight-unchanged-while-waiting', conn.attrs['in_flight'] is inflight0),
                                 ('connection-lock-free-between-rounds', st['lock'].depth == 0)],
            havoc={'conn': lambda c: conn, 'remaining': lambda c: c.fresh_real('remaining', register=False)})
    kind, r = vc.call_catch('cassandra.pool.HostConnection.borrow_connection', pool, timeout)
    inflight0, M = st['inflight'], st['M']
    if kind == 'ok':
        c, rid = r
        vc.check('ok/same-connection', c is conn)
        vc.check('ok/in_flight-plus-one', conn.attrs['in_flight'] == inflight0 + 1)
        vc.check('ok/capacity-respected', conn.attrs['in_flight'] <= M)
        vc.check('ok/id-in-range-and-unused', sym.and_(rid >= 0, rid <= M, rid != st['k1'], rid != st['k2']))
        vc.check('ok/lock-released', st['lock'].depth == 0)
    else:
        vc.check('full/NoConnectionsAvailable', issubclass(exc_class(r), NoConnectionsAvailable))
        vc.check('full/in_flight-unchanged', conn.attrs['in_flight'] is inflight0)
        vc.check('full/only-when-at-capacity', inflight0 >= M)


@harness('C09', 'return_connection', functions=['cassandra.pool.HostConnection.return_connection'], native='contracts.native.c09:replay')
def give_back(vc):
    """ensures returning a connection decrements in_flight by exactly one under connection.lock - except for an orphaned stream,
    whose slot stays counted until the late response arrives"""
    from cassandra.pool import HostConnection
    conn, st = _conn(vc)
    vc.assume(st['inflight'] >= 1)

    class Cond(object):
        def __enter__(self):
            return self

        def __exit__(self, *a):
            return False

        def notify(self):
            pass
    pool = vc.obj(HostConnection, _connection=conn, is_shutdown=False, _lock=LockModel('pool._lock'), _stream_available_condition=Cond(),
                  _is_replacing=False, _trash=set(), host='h', _session=None)
    orphaned = vc.choice('stream_was_orphaned', [False, True])
    vc.call('cassandra.pool.HostConnection.return_connection', pool, conn, stream_was_orphaned=orphaned)
    if orphaned:
        vc.check('orphaned/in_flight-unchanged', conn.attrs['in_flight'] is st['inflight'])
    else:
        vc.check('post/in_flight-minus-one', conn.attrs['in_flight'] == st['inflight'] - 1)
    vc.check('post/lock-released', st['lock'].depth == 0)


@harness('C09', 'process_msg', functions=[CQ + 'process_msg'], native='contracts.native.c09:replay')
def process(vc):
    """ensures a response on stream s: is delivered to the handler registered for s and to no other; releases s exactly once to the
    free list; an orphaned s additionally gives its in_flight slot back (exactly one decrement, under the lock) and leaves the
    orphan set; a response for an id with no handler is delivered to nobody"""
    conn, st = _conn(vc)
    s = vc.int('response_stream_id')
    vc.assume(sym.and_(s >= 0, s <= st['H'], SBool(z3.Not(z3.Contains(st['F'].t, z3.Unit(s.t))))))
    vc.stub(CQ + 'defunct', lambda self_, exc: st['log'].append(('defunct', exc)))
    header = vc.obj(type(conn.cls), ) if False else vc.obj(conn.cls, stream=s, version=4, flags=0, opcode=8)
    vc.call(CQ + 'process_msg', conn, header, vc.bytes('body'))
    is_k1 = vc.ctx.branch((s == st['k1']).t)
    is_orph = (not is_k1) and vc.ctx.branch((s == st['k2']).t)
    app = st['dq'].appended
    vc.check('post/id-released-exactly-once', len(app) == 1 and app[0] is s)
    if is_k1:
        vc.check('registered/own-handler-got-the-decoded-response', st['log'] == [('cb1', 'DECODED')])
        vc.check('registered/handler-forgotten', len(conn.attrs['_requests']) == 0)
        vc.check('registered/in_flight-untouched-here', conn.attrs['in_flight'] is st['inflight'])
    else:
        vc.check('unregistered/delivered-to-nobody', st['log'] == [])
        vc.check('unregistered/other-handlers-kept', len(conn.attrs['_requests']) == 1)
        if is_orph:
            vc.check('orphaned/slot-given-back-once', conn.attrs['in_flight'] == st['inflight'] - 1)
            vc.check('orphaned/leaves-orphan-set', conn.attrs['orphaned_request_ids'].items == [])
        else:
            vc.check('unknown/in_flight-unchanged', conn.attrs['in_flight'] is st['inflight'])


@harness('C09', '_on_timeout-orphaning', functions=[R.RF + '_on_timeout'], native='contracts.native.c09:replay')
def orphaning(vc):
    """ensures a client-side timeout of a request still registered on a live connection: removes exactly its own handler, moves its
    id into the orphan set under connection.lock, keeps in_flight (the server still owns the stream), returns the connection as
    orphaned; if the handler is already gone (answered/defuncted) nothing on the connection changes"""
    conn, st = _conn(vc)
    h1 = R.Host('h1')
    world = R.World(vc, [h1])
    session = R.Session(world, 4)
    fut = R.make_future(vc, world, session, [])
    mine = vc.int('my_request_id')
    vc.assume(sym.and_(mine >= 0, mine <= st['H'], mine != st['k2'], SBool(z3.Not(z3.Contains(st['F'].t, z3.Unit(mine.t))))))
    fut.attrs['_connection'] = conn
    fut.attrs['_req_id'] = mine
    fut.attrs['_current_host'] = h1
    vc.call(R.RF + '_on_timeout', fut)
    still_registered = vc.ctx.branch((mine == st['k1']).t)
    orph = conn.attrs['orphaned_request_ids'].items
    vc.check('post/in_flight-unchanged', conn.attrs['in_flight'] is st['inflight'])
    vc.check('post/completed-once', len(fut.ghost['completions']) == 1)
    if still_registered:
        vc.check('registered/handler-removed', len(conn.attrs['_requests']) == 0)
        vc.check('registered/id-orphaned', len(orph) == 2 and any(o is mine for o in orph))
        vc.check('registered/returned-as-orphaned', [e for e in world.log if e[0] == 'return'] == [('return', h1, True)])
        vc.check('registered/id-not-released-to-free-list', st['dq'].appended == [])
    else:
        vc.check('gone/handlers-untouched', len(conn.attrs['_requests']) == 1)
        vc.check('gone/orphan-set-untouched', len(orph) == 1)
        vc.check('gone/nothing-returned', [e for e in world.log if e[0] == 'return'] == [])


@harness('C09', 'id-pool-setup', functions=[CQ + '__init__'], native='contracts.native.c09:replay')
def setup(vc):
    """slice of Connection.__init__ (the `if protocol_version >= 3:` statement): ensures max_request_id is the protocol's maximum
    stream id (127 for v1/v2, 32767 for v3+) capped by max_in_flight, the initial free list is 0..highest without duplicates and
    INV-ID holds with in_flight == 0"""
    from cassandra.connection import Connection
    pv = vc.choice('protocol_version', [1, 2, 3, 4, 5, 6, 0x41, 0x42])
    mif = vc.choice('max_in_flight', [2 ** 15, 100, 200, 1])
    self = vc.obj(Connection, max_in_flight=mif)
    vc.exec_slice(CQ + '__init__', r'^if protocol_version >= 3:', dict(self=self, protocol_version=pv))
    M, H, ids = self.attrs['max_request_id'], self.attrs['highest_request_id'], list(self.attrs['request_ids'])
    proto_max = 127 if pv < 3 else 2 ** 15 - 1
    vc.check('post/max-id-within-protocol', M <= proto_max)
    vc.check('post/max-id-value', M == (min(mif, 127) if pv < 3 else min(mif - 1, 2 ** 15 - 1)))
    vc.check('post/free-list-is-0..highest', ids == list(range(H + 1)))
    vc.check('post/highest-within-max', H <= M)
    vc.check('post/inv-id-initially', Connection.in_flight == 0 and (H + 1) - len(ids) == 0)


@harness('C09', 'frame', functions=[])
def frame(vc):
    """frame: in_flight / request_ids / highest_request_id / orphaned_request_ids are written only by the functions under contract"""
    allowed_inflight = {'cassandra/connection.py::Connection.process_msg', 'cassandra/connection.py::Connection.wait_for_responses',
                        'cassandra/connection.py::Connection.set_keyspace_async', 'cassandra/connection.py::HeartbeatFuture.__init__',
                        'cassandra/connection.py::HeartbeatFuture._options_callback',
                        'cassandra/connection.py::ResponseWaiter.got_response', 'cassandra/connection.py::ConnectionHeartbeat.run',
                        'cassandra/pool.py::HostConnection.borrow_connection', 'cassandra/pool.py::HostConnection.return_connection',
                        'cassandra/pool.py::HostConnectionPool.borrow_connection', 'cassandra/pool.py::HostConnectionPool._wait_for_conn',
                        'cassandra/pool.py::HostConnectionPool.return_connection'}
    ok, bad, sites = frames.frame_ok('in_flight', allowed_inflight, files=['cassandra/connection.py', 'cassandra/pool.py', 'cassandra/cluster.py'])
    vc.check('frame/in_flight', ok, note=str(bad))
    ok, bad, sites = frames.frame_ok('request_ids', {'cassandra/connection.py::Connection.__init__', 'cassandra/connection.py::Connection.get_request_id',
                                                     'cassandra/connection.py::Connection.process_msg',
                                                     'cassandra/connection.py::Connection.remove_continuous_paging_session'},
                                     files=['cassandra/connection.py', 'cassandra/pool.py', 'cassandra/cluster.py'])
    vc.check('frame/request_ids', ok, note=str(bad))
    ok, bad, sites = frames.frame_ok('highest_request_id', {'cassandra/connection.py::Connection.__init__', 'cassandra/connection.py::Connection.get_request_id'})
    vc.check('frame/highest_request_id', ok, note=str(bad))
    ok, bad, sites = frames.frame_ok('orphaned_request_ids', {'cassandra/connection.py::Connection.__init__', 'cassandra/connection.py::Connection.process_msg',
                                                              'cassandra/cluster.py::ResponseFuture._on_timeout'})
    vc.check('frame/orphaned_request_ids', ok, note=str(bad))


@harness('C09', '_query-tracks-its-stream', functions=[R.RF + '_query', R.RF + '_retry_task', R.RF + '_reprepare', R.RF + '_execute_after_prepare'],
         native='contracts.native.c09:replay_tracking')
def tracking(vc):
    """ensures whenever the future puts a request on the wire - first attempt, retry on the same host, re-prepare, re-execution after
    prepare - the (connection, stream id) pair it will orphan on a client timeout is the pair of THAT request, not of an earlier
    attempt whose id has meanwhile gone back to the free list (and may belong to another request)"""
    from cassandra.protocol import ResultMessage, RESULT_KIND_PREPARED, PrepareMessage
    h1, h2 = R.Host('h1'), R.Host('h2')
    world = R.World(vc, [h1, h2])
    ids = iter([11, 22, 33])
    world.new_request_id = lambda host: next(ids)
    session = R.Session(world, 4)
    from cassandra.query import PreparedStatement
    ps = vc.obj(PreparedStatement, query_id=b'q', query_string='q', keyspace=None, result_metadata=[], result_metadata_id=None)
    fut = R.make_future(vc, world, session, [h1, h2], prepared_statement=ps)
    vc.call(R.RF + 'send_request', fut)                       # first attempt: id 11 on h1
    vc.check('first/tracks-its-stream', fut.attrs['_req_id'] == 11 and fut.attrs['_connection'] is world.pools[h1].conn)
    how = vc.choice('second_request_via', ['_retry_task', '_reprepare', '_execute_after_prepare'])
    pool, conn = world.pools[h1], world.pools[h1].conn
    if how == '_retry_task':
        vc.call(R.RF + '_retry_task', fut, True, h1)
    elif how == '_reprepare':
        vc.call(R.RF + '_reprepare', fut, vc.obj(PrepareMessage, query='q', keyspace=None), h1, conn, pool)
    else:
        resp = vc.obj(ResultMessage, kind=RESULT_KIND_PREPARED, query_id=b'q', column_metadata=[], result_metadata_id=None)
        vc.call(R.RF + '_execute_after_prepare', fut, h1, conn, pool, resp)
    sends = world.sends()
    vc.check('second/sent', len(sends) == 2 and sends[1][4] == 22)
    vc.check('second/tracks-its-stream', fut.attrs['_req_id'] == 22 and fut.attrs['_connection'] is conn)
