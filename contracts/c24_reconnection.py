"""C24 - reconnection schedules respect delay bounds and attempt limits."""
import random
import z3
from pyvc.engine import harness, PathAbort
from pyvc import sym
from pyvc.interp import SObj, PyExc, GenList
from pyvc.libmodels import RepeatModel, _M, pow2_sym, _POW2
from contracts.native import c24 as N

LEVEL = 'proof'
TRUSTED = ['A-REAL: delays are mathematical reals (float rounding not modelled)',
           'E-ITER: itertools.repeat(x, n) yields x exactly n times, repeat(x) forever',
           'E-RANDOM: randint(a, b) returns an int in [a, b]',
           'E-FLOAT: int*float may raise OverflowError at an unspecified attempt index (abstracted as "at any iteration")',
           'A-GEN: generator laziness not modelled; the schedule is the ghost sequence of yielded values',
           '2**i is an uninterpreted function with its recurrence (pow2(i+1) == 2*pow2(i), pow2(0) == 1)']
EXPLANATION = 'postconditions on the real new_schedule/_add_jitter bodies; the exponential generator loop is cut at an inductive invariant (exactly one in-bounds yield per iteration, i counts iterations)'

CQ = 'cassandra.policies.ConstantReconnectionPolicy'
EQ = 'cassandra.policies.ExponentialReconnectionPolicy'


def _max_attempts(vc):
    """None, or any int >= 0 (the constructors reject negatives)."""
    if vc.ctx.branch(vc.bool('max_attempts_is_none').t):
        return None
    n = vc.int('max_attempts')
    vc.assume(n >= 0)
    return n


@harness('C24', 'Constant.new_schedule', functions=[CQ + '.new_schedule'], native='contracts.native.c24:replay')
def constant(vc):
    """ensures schedule == repeat(delay) exactly max_attempts times (0 => empty), endless iff max_attempts is None"""
    from cassandra.policies import ConstantReconnectionPolicy
    d = vc.real('delay')
    vc.assume(d >= 0)
    ma = _max_attempts(vc)
    self = vc.obj(ConstantReconnectionPolicy, delay=d, max_attempts=ma)
    r = vc.call(CQ + '.new_schedule', self)
    vc.check('post/is-repeat', isinstance(r, RepeatModel))
    vc.check('post/every-item-is-delay', r.value == d)
    if ma is None:
        vc.check('post/endless-when-unlimited', r.times is None)
    else:
        vc.check('post/exactly-max_attempts-items', r.times is not None and r.times == ma)


@harness('C24', 'Constant.__init__', functions=[CQ + '.__init__'], native='contracts.native.c24:replay')
def constant_init(vc):
    """ensures negative delay / negative max_attempts raise ValueError, otherwise fields stored unchanged"""
    from cassandra.policies import ConstantReconnectionPolicy
    d = vc.real('delay')
    neg = vc.bool('max_attempts_is_none')
    ma = None if vc.ctx.branch(neg.t) else vc.int('max_attempts')
    self = vc.obj(ConstantReconnectionPolicy)
    kind, val = vc.call_catch(CQ + '.__init__', self, d, ma)
    bad = sym.or_(d < 0, False if ma is None else ma < 0)
    if kind == 'exc':
        vc.check('raises/ValueError-only-on-bad-args', sym.and_(vc.exc_is(val, ValueError), bad))
    else:
        vc.check('post/accepted-only-good-args', sym.not_(bad))
        vc.check('post/fields', sym.and_(self.attrs['delay'] == d, N.eq(self.attrs['max_attempts'], ma)))


@harness('C24', 'Exponential.__init__', functions=['cassandra.policies.ExponentialReconnectionPolicy.__init__'], native='contracts.native.c24:replay')
def exponential_init(vc):
    """ensures a negative delay, max_delay < base_delay or a negative max_attempts raise ValueError; otherwise the three settings are stored exactly as
    given - max_attempts in particular as None (unlimited), 0 (no attempt at all) or n, never one turned into another"""
    from cassandra.policies import ExponentialReconnectionPolicy
    b, m = vc.real('base_delay'), vc.real('max_delay')
    ma = None if vc.ctx.branch(vc.bool('max_attempts_is_none').t) else vc.int('max_attempts')
    self = vc.obj(ExponentialReconnectionPolicy)
    kind, val = vc.call_catch('cassandra.policies.ExponentialReconnectionPolicy.__init__', self, b, m, ma)
    bad = sym.or_(b < 0, m < 0, m < b, False if ma is None else ma < 0)
    if kind == 'exc':
        vc.check('raises/ValueError-only-on-bad-args', sym.and_(vc.exc_is(val, ValueError), bad))
    else:
        vc.check('post/accepted-only-good-args', sym.not_(bad))
        vc.check('post/fields', sym.and_(self.attrs['base_delay'] == b, self.attrs['max_delay'] == m, N.eq(self.attrs['max_attempts'], ma)))


def _exp(vc):
    from cassandra.policies import ExponentialReconnectionPolicy
    b, m = vc.real('base_delay'), vc.real('max_delay')
    vc.assume(sym.and_(b >= 0, m >= b))
    ma = _max_attempts(vc)
    return vc.obj(ExponentialReconnectionPolicy, base_delay=b, max_delay=m, max_attempts=ma), b, m, ma


def _clamp(x, lo, hi):
    return sym.real_min(sym.real_max(lo, x), hi)


@harness('C24', 'Exponential._add_jitter', functions=[EQ + '._add_jitter'], native='contracts.native.c24:replay')
def jitter(vc):
    """ensures result == clamp(j*value/100, base, max) for the drawn j in [85,115]; hence base <= result <= max"""
    self, b, m, ma = _exp(vc)
    v = vc.real('value')
    st = {}

    def randint(a, bb):
        j = vc.ctx.fresh_int('jitter')
        vc.ctx.assume(sym.and_(j >= a, j <= bb), silent=True)
        st['j'] = j
        st['range'] = (a, bb)
        return j
    vc.stub(random.randint, randint)
    r = vc.call(EQ + '._add_jitter', self, v)
    vc.check('post/jitter-band-is-85-115', st.get('range') == (85, 115))
    vc.must_fail('selfcheck/result-is-value', r == v)
    vc.check('post/in-bounds', sym.and_(r >= b, r <= m))
    vc.check('post/value', r == _clamp(st['j'] * v / 100, b, m))


@harness('C24', 'Exponential.new_schedule', functions=[EQ + '.new_schedule'], native='contracts.native.c24:replay')
def exponential(vc):
    """loop invariant: i == number of items yielded so far, 0 <= i (<= max_attempts); every iteration yields exactly one item,
    which is jitter(min(base*2^i, max)) or max (after an OverflowError); on exit i == max_attempts; unlimited => loop never exits"""
    self, b, m, ma = _exp(vc)
    ctx = vc.ctx
    ctx.float_overflow_nondet = True
    st = {}

    def add_jitter(self_, value):
        # callee contract (verified in Exponential._add_jitter)
        j = ctx.fresh_int('jitter', register=False)
        ctx.assume(sym.and_(j >= 85, j <= 115), silent=True)
        st['arg'] = value
        return _clamp(j * value / 100, b, m)
    vc.stub(EQ + '._add_jitter', add_jitter)

    def inv(L):
        out = [('i-nonneg', L.i >= 0)]
        if ma is not None:
            out.append(('i-at-most-max_attempts', L.i <= ma))
        if L._phase == 'step':
            ys = L._yields
            out.append(('exactly-one-item-per-attempt', len(ys) == 1))
            if len(ys) == 1:
                y = ys[0]
                out.append(('item-within-bounds', sym.and_(y >= b, y <= m)))
                i0 = L.i - 1
                if 'arg' in st and not L.overflowed is True:
                    curve = sym.real_min(sym.SReal(b.t * z3.ToReal(_POW2(i0.t))), m)
                    out.append(('item-follows-doubling-curve', st['arg'] == curve))
                else:
                    out.append(('item-is-max-after-overflow', y == m))
        return out

    def on_exit(L):
        return [('never-exits-when-unlimited', ma is not None),
                ('exits-after-exactly-max_attempts-items', True if ma is None else L.i == ma)]
    vc.loop(EQ + '.new_schedule', 0, invariant=inv, on_exit=on_exit)
    g = vc.call(EQ + '.new_schedule', self)
    vc.check('post/no-items-after-loop', isinstance(g, GenList) and len(g.items) == 0)


@harness('C24', 'handler.run', functions=['cassandra.pool._ReconnectionHandler.run'], native='contracts.native.c24:replay')
def handler_run(vc):
    """ensures: cancelled => nothing; failed attempt => on_exception(exc, next delay or None) once, and the next attempt is
    scheduled with exactly that delay (any value >= 0, including 0) iff the schedule was not exhausted and on_exception agreed"""
    from cassandra.pool import _ReconnectionHandler
    ctx = vc.ctx
    log = {'sched': [], 'onexc': [], 'reconn': 0, 'cb': 0}
    exhausted = vc.bool('schedule_exhausted')
    d = vc.real('next_delay')
    vc.assume(d >= 0)
    fails = vc.bool('attempt_fails')
    cont = vc.bool('on_exception_result')
    cancelled = vc.bool('cancelled')

    class Sched(object):
        def schedule(self, delay, fn, *a, **k):
            log['sched'].append((delay, fn))
    sched_items = [] if ctx.branch(exhausted.t) else [d]
    self = vc.obj(_ReconnectionHandler, scheduler=Sched(), schedule=GenList(sched_items), _cancelled=cancelled,
                  callback_args=(), callback_kwargs={})
    self.attrs['callback'] = _M(lambda *a, **k: log.__setitem__('cb', log['cb'] + 1))

    def try_reconnect(self_):
        if ctx.branch(fails.t):
            raise PyExc(SObj(Exception, {'args': ('down',)}))
        return None
    vc.stub('cassandra.pool._ReconnectionHandler.try_reconnect', try_reconnect)

    def on_exception(self_, exc, next_delay):
        log['onexc'].append(next_delay)
        return cont
    vc.stub('cassandra.pool._ReconnectionHandler.on_exception', on_exception)
    vc.stub('cassandra.pool._ReconnectionHandler.on_reconnection', lambda self_, c: log.__setitem__('reconn', log['reconn'] + 1))
    vc.call('cassandra.pool._ReconnectionHandler.run', self)
    was_cancelled = ctx.branch(cancelled.t)
    failed = ctx.branch(fails.t)
    if was_cancelled:
        vc.check('post/cancelled-does-nothing', not log['sched'] and not log['onexc'] and log['cb'] == 0 and log['reconn'] == 0)
    elif failed:
        vc.check('post/on_exception-once', len(log['onexc']) == 1)
        if sched_items:
            vc.check('post/on_exception-gets-next-delay', log['onexc'][0] is not None and log['onexc'][0] == d)
            if ctx.branch(cont.t):
                vc.check('post/next-attempt-scheduled-once', len(log['sched']) == 1)
                if len(log['sched']) == 1:
                    vc.check('post/scheduled-with-next-delay', log['sched'][0][0] == d)
            else:
                vc.check('post/not-scheduled-when-handler-declines', not log['sched'])
        else:
            vc.check('post/exhausted-reported-as-None', log['onexc'][0] is None)
            vc.check('post/exhausted-schedules-nothing', not log['sched'])
    else:
        vc.check('post/success-notifies-once', log['reconn'] == 1 and log['cb'] == 1 and not log['sched'])
