"""C44 - heartbeats detect dead idle connections without leaking capacity."""
import os
from pyvc.engine import harness
from pyvc import sym
from pyvc.interp import SObj, PyExc, exc_class, make_exception
from pyvc.libmodels import LockModel, _M

LEVEL = 'proof'
TRUSTED = ['E-EVENT: threading.Event is a flag; wait(timeout) returns once the flag is set or the timeout passed; a response delivered "in time" is one whose callback ran before the wait gave up',
           'E-CLOCK: time.time() is non-decreasing (arbitrary symbolic readings)',
           'callee contracts: Connection.send_msg registers the callback or raises (C09/C10), Connection.defunct marks the connection defunct (C10), Connection.get_request_id (C09), owner.return_connection (C12)',
           'bounded dimension: one heartbeat round over up to 2 connections (thorough: 3) spread over up to 2 owners, each in any of 9 states; the loops are unrolled - the per-connection step does not depend on the position',
           'the interval scheduling between rounds (Thread, Event.wait(interval)) is outside the contract']
EXPLANATION = 'postconditions over a ghost log on the real ConnectionHeartbeat.run (one round), HeartbeatFuture.__init__/wait/_options_callback, Connection.is_idle/reset_idle'

KINDS = ['idle-answers', 'idle-silent', 'idle-send-raises', 'idle-at-capacity', 'idle-connection-error', 'idle-unexpected-reply', 'busy', 'defunct', 'closed']
TIER = os.environ.get('VERIF_TIER', 'quick')
HB = 'cassandra.connection.ConnectionHeartbeat.'


class Ev(object):
    def __init__(self):
        self.flag = False

    def set(self):
        self.flag = True

    def is_set(self):
        return self.flag

    def wait(self, timeout=None):
        return self.flag


class RoundEvent(object):
    """the heartbeat thread's shutdown event: not set during the round, set by the wait that ends it (one round is verified)"""

    def __init__(self):
        self.flag, self.waits = False, 0

    def is_set(self):
        return self.flag

    def wait(self, timeout=None):
        self.waits += 1
        if self.waits >= 2:
            self.flag = True
        return self.flag


def _round(vc, nmax):
    from cassandra.connection import Connection, ConnectionHeartbeat, ConnectionException, ConnectionShutdown
    from cassandra.protocol import SupportedMessage, OptionsMessage, ReadyMessage
    from cassandra import OperationTimedOut
    ctx = vc.ctx
    n = vc.choice('connections', list(range(1, nmax + 1)))
    log = []

    class Owner(object):
        def __init__(self, name):
            self.name, self.conns, self.shutdown_on_error = name, [], False

        def get_connections(self):
            return list(self.conns)

        def return_connection(self, c, *a, **k):
            log.append(('return', self.name, c.attrs['_name']))
    owners = [Owner('o0'), Owner('o1')]
    conns = []
    for i in range(n):
        kind = vc.choice('conn%d' % i, KINDS)
        own = owners[vc.choice('conn%d_owner' % i, [0, 1])] if i else owners[0]
        maxid = vc.int('conn%d_max_request_id' % i)
        inf = vc.int('conn%d_in_flight' % i)
        vc.assume(sym.and_(maxid >= 1, inf >= 0, inf <= maxid))
        if kind == 'idle-at-capacity':
            vc.assume(inf == maxid)
        elif kind.startswith('idle'):
            vc.assume(inf < maxid)
        c = vc.obj(Connection, _name='c%d' % i, _kind=kind, in_flight=inf, max_request_id=maxid, msg_received=(kind == 'busy'),
                   is_defunct=(kind == 'defunct'), is_closed=(kind == 'closed'), lock=LockModel('connection.lock'),
                   is_control_connection=(vc.choice('conn0_is_control', [False, True]) if i == 0 else False), endpoint='ep%d' % i)
        c.in_flight0 = inf
        own.conns.append(c)
        conns.append((c, own, kind))

    def send_msg(self_, msg, rid, cb, *a, **k):
        kind = self_.attrs['_kind']
        if kind == 'idle-send-raises':
            raise PyExc(make_exception(ctx, ConnectionShutdown, ['closed'], {}))
        log.append(('send', self_.attrs['_name'], msg.cls.__name__ if isinstance(msg, SObj) else type(msg).__name__, self_.attrs['in_flight']))
        # the reply (if any) arrives before the round's wait gives up
        if kind == 'idle-answers':
            from pyvc.interp import call_value
            call_value(ctx, cb, [vc.obj(SupportedMessage, cql_versions=[], options={})], {})
        elif kind == 'idle-connection-error':
            from pyvc.interp import call_value
            call_value(ctx, cb, [SObj(ConnectionException, {'args': ('lost',)})], {})
        elif kind == 'idle-unexpected-reply':
            from pyvc.interp import call_value
            call_value(ctx, cb, [vc.obj(ReadyMessage)], {})

    def defunct(self_, exc):
        log.append(('defunct', self_.attrs['_name'], exc))
        self_.attrs['is_defunct'] = True
    vc.stub('cassandra.connection.Connection.send_msg', send_msg)
    vc.stub('cassandra.connection.Connection.defunct', defunct)
    vc.stub('cassandra.connection.Connection.get_request_id', lambda self_: 7)
    vc.stub('threading.Event', lambda *a: Ev())
    times = [vc.real('t%d' % i) for i in range(12)]
    for a, b in zip(times, times[1:]):
        vc.assume(b >= a)
    clock = {'i': 0}

    def now():
        t = times[min(clock['i'], len(times) - 1)]
        clock['i'] += 1
        return t
    vc.stub('time.time', now)
    interval, timeout = vc.real('interval'), vc.real('timeout')
    vc.assume(sym.and_(interval > 0, timeout > 0))
    hb = vc.obj(ConnectionHeartbeat, _interval=interval, _timeout=timeout, _get_connection_holders=_M(lambda: list(owners), 'holders'),
                _shutdown_event=RoundEvent())
    vc.call(HB + 'run', hb)
    return conns, owners, log


def _checks(vc, conns, owners, log):
    for c, own, kind in conns:
        name = c.attrs['_name']
        sends = [e for e in log if e[0] == 'send' and e[1] == name]
        defs = [e for e in log if e[0] == 'defunct' and e[1] == name]
        rets = [e for e in log if e[0] == 'return' and e[2] == name]
        if kind.startswith('idle') and kind not in ('idle-send-raises', 'idle-at-capacity'):
            vc.check('idle/exactly-one-OPTIONS-heartbeat-sent-holding-one-slot', len(sends) == 1 and sends[0][2] == 'OptionsMessage' and
                     sends[0][3] == c.in_flight0 + 1)
        else:
            vc.check('not-idle-or-unusable/no-heartbeat-sent', sends == [])
        if kind == 'idle-answers':
            vc.check('answered/request-capacity-exactly-as-before', c.attrs['in_flight'] == c.in_flight0)
            vc.check('answered/not-defunct-owner-not-bothered', defs == [] and rets == [] and c.attrs['is_defunct'] is False)
            vc.check('answered/idle-flag-re-armed', c.attrs['msg_received'] is False)
        elif kind == 'busy':
            vc.check('busy/idle-flag-re-armed-capacity-untouched', c.attrs['msg_received'] is False and c.attrs['in_flight'] is c.in_flight0
                     and defs == [] and rets == [])
        elif kind in ('defunct', 'closed'):
            vc.check('unusable/owner-notified-once', rets == [('return', own.name, name)] and defs == [])
        else:
            vc.check('failed/marked-defunct-exactly-once', len(defs) == 1 and c.attrs['is_defunct'] is True)
            vc.check('failed/its-own-owner-notified-exactly-once', rets == [('return', own.name, name)])
            if len(defs) == 1:
                from cassandra import OperationTimedOut
                from cassandra.connection import ConnectionException
                exc = defs[0][2]
                want = {'idle-silent': OperationTimedOut, 'idle-connection-error': ConnectionException,
                        'idle-unexpected-reply': ConnectionException, 'idle-send-raises': ConnectionException}.get(kind, Exception)
                vc.check('failed/defunct-reason-describes-the-failure', issubclass(exc_class(exc), want))
            if not c.attrs['is_control_connection']:
                vc.check('failed/pool-owner-flagged-shutdown_on_error', own.shutdown_on_error is True)
    for o in owners:
        bad = [c for c, own, kind in conns if own is o and kind not in ('idle-answers', 'busy', 'defunct', 'closed') and not c.attrs['is_control_connection']]
        if not bad:
            vc.check('frame/owner-without-failed-connection-not-flagged', o.shutdown_on_error is False)


@harness('C44', 'heartbeat-round', functions=[HB + 'run', HB + '_raise_if_stopped', 'cassandra.connection.HeartbeatFuture.__init__',
                                              'cassandra.connection.HeartbeatFuture.wait', 'cassandra.connection.HeartbeatFuture._options_callback',
                                              'cassandra.connection.Connection.is_idle', 'cassandra.connection.Connection.reset_idle'],
         native='contracts.native.c44:replay')
def heartbeat_round(vc):
    """for one heartbeat round over up to 2 (thorough: 3) connections of up to 2 owners, each idle-and-answering / silent / failing to
    send / at capacity / answering with an error / busy / defunct / closed, arbitrary in_flight counts and clock readings: ensures
    idle => one OPTIONS; answered => in_flight exactly as before, idle flag re-armed; failed or silent => defunct once + ITS owner
    notified once; busy => nothing sent; every connection's outcome independent of the others in the round"""
    conns, owners, log = _round(vc, 2 if TIER == 'quick' else 3)
    _checks(vc, conns, owners, log)
    if len(conns) == 2:
        vc.must_fail('selfcheck/nobody-ever-defunct', not [e for e in log if e[0] == 'defunct'])


@harness('C44', 'msg_received', functions=['cassandra.connection.Connection.process_msg'], native='contracts.native.c44:replay')
def msg_received(vc):
    """ensures every received frame marks the connection as not idle before it is dispatched (frame scan: the only writes of
    msg_received are process_msg (True) and reset_idle (False))"""
    from pyvc import frames
    ok, bad, sites = frames.frame_ok('msg_received', {'cassandra/connection.py::Connection.process_msg', 'cassandra/connection.py::Connection.reset_idle'})
    vc.check('frame/msg_received-written-only-by-process_msg-and-reset_idle', ok and len(sites) == 2)
    # and executed: whatever kind of frame arrives - a pushed event (stream -1), the response of a registered request, the late response of an orphaned
    # stream, a response nobody waits for - the connection counts as having received traffic, so the next heartbeat round leaves it alone
    from contracts import c10_defunct as C10
    from cassandra.connection import Connection
    from cassandra import protocol
    conn, st = C10._conn(vc, 1)
    conn.attrs.update(orphaned_request_ids={7}, in_flight=2, _on_orphaned_stream_released=None, request_ids=[], user_type_map={},
                      decompressor=None, is_unsupported_proto_version=False, msg_received=False, _iobuf=None)
    kind = vc.choice('frame', ['pushed-event', 'registered-response', 'orphaned-late-response', 'unknown-stream'])
    stream = {'pushed-event': -1, 'registered-response': 100, 'orphaned-late-response': 7, 'unknown-stream': 55}[kind]
    cb0 = conn.attrs['_requests'][100][0]
    conn.attrs['_requests'][100] = (cb0, _M(lambda *a, **k: 'RESPONSE', 'decoder'), None)
    pushed = []
    vc.stub(protocol._ProtocolHandler.decode_message.__func__, lambda *a, **k: 'EVENT')
    vc.stub('cassandra.connection.Connection.handle_pushed', lambda self_, r: pushed.append(r))
    header = vc.obj(Connection, stream=stream, version=4, flags=0, opcode=12 if stream < 0 else 8)
    vc.call('cassandra.connection.Connection.process_msg', conn, header, b'')
    vc.check('received/any-frame-marks-the-connection-not-idle', conn.attrs['msg_received'] is True)
    if kind == 'pushed-event':
        vc.check('received/event-dispatched', pushed == ['EVENT'])
