"""C31 - client timestamps strictly increase across threads.

Lock invariant of MonotonicTimestampGenerator.lock:  every timestamp returned so far <= self.last.
`__call__` is verified once, for an arbitrary value of `last` at lock acquisition (= arbitrary history and
arbitrary interleaving of lock-respecting threads) and an arbitrary clock reading; `last` may be read or
written only while the lock is held (checked on the executed paths and by a package-wide frame scan).
"""
import time
import z3
from pyvc.engine import harness
from pyvc import frames, sym
from pyvc.libmodels import LockModel
from contracts.native import c31 as N

LEVEL = 'proof'
TRUSTED = ['A-ATOMIC: blocks under self.lock are atomic w.r.t. each other',
           'E-CLOCK: time.time() returns an arbitrary real (stalls and backward jumps included)',
           'A-REAL: time.time()*1e6 computed over the reals, int() truncates toward zero',
           'A-LOG: logging has no effect on tracked state']
EXPLANATION = 'lock-invariant proof of __call__/_next_timestamp for arbitrary history, clock and configuration'

Q = 'cassandra.timestamps.MonotonicTimestampGenerator'


def _gen(vc, lock):
    from cassandra.timestamps import MonotonicTimestampGenerator
    wt = vc.int('warning_threshold')
    wi = vc.int('warning_interval')
    vc.assume(sym.and_(wt >= 0, wi >= 0))
    return vc.obj(MonotonicTimestampGenerator, lock=lock, last=vc.int('last'), _last_warn=vc.int('last_warn'),
                  warn_on_drift=vc.bool('warn_on_drift'), warning_threshold=wt, warning_interval=wi)


@harness('C31', 'call', functions=[Q + '.__call__', Q + '._next_timestamp', Q + '._maybe_warn'],
         native='contracts.native.c31:replay')
def call(vc):
    """requires lock-inv(returned <= last); ensures result > last@acquire, result >= int(clock*1e6), last' == result,
    lock taken exactly once, `last` touched only under the lock"""
    st = {}
    ctx = vc.ctx

    def on_acquire(c):
        st['L0'] = c.fresh_int('last_at_acquire')
        self.attrs['last'] = st['L0']
        self.attrs['_last_warn'] = c.fresh_int('last_warn_at_acquire', register=False)
    lock = LockModel('MonotonicTimestampGenerator.lock', on_acquire=on_acquire, reentrant=False)
    self = _gen(vc, lock)

    def on_set(name, value):
        if name in ('last', '_last_warn'):
            vc.check('lock/%s-written-under-lock' % name, lock.depth > 0)
    self.on_set = on_set

    def on_get(name, value):
        if name == 'last' and lock.depth == 0:
            return ctx.fresh_int('stale_last', register=False)      # unprotected read: arbitrary (stale) value
        return value
    self.on_get = on_get
    clock = vc.real('clock')
    vc.stub(time.time, lambda: clock)
    res = vc.call(Q + '.__call__', self)
    vc.check('lock/lock-taken-once', lock.acquisitions == 1 and lock.depth == 0)
    now = sym.SInt(z3.If(clock.t * 1000000 >= 0, z3.ToInt(clock.t * 1000000), -z3.ToInt(-clock.t * 1000000)))
    last_after = self.attrs['last']
    for name, cond in N.post(st.get('L0', self.attrs['last']), now, res, last_after):
        vc.check('post/' + name, cond)
    vc.must_fail('selfcheck/result-equals-clock', res == now)


@harness('C31', 'next_timestamp', functions=[Q + '._next_timestamp'], native='contracts.native.c31:replay')
def next_timestamp(vc):
    """ensures result > last and result >= now and self.last' == result, for all ints now, last"""
    lock = LockModel('lock')
    self = _gen(vc, lock)
    now, last = vc.int('now'), vc.int('last_arg')
    lock.depth = 1
    res = vc.call(Q + '._next_timestamp', self, now=now, last=last)
    for name, cond in N.post(last, now, res, self.attrs['last']):
        vc.check('post/' + name, cond)


@harness('C31', 'init', functions=[Q + '.__init__'], native='contracts.native.c31:replay')
def init(vc):
    """ensures last == 0 (no timestamp returned yet: invariant holds initially)"""
    from cassandra.timestamps import MonotonicTimestampGenerator
    self = vc.obj(MonotonicTimestampGenerator)
    vc.call(Q + '.__init__', self)
    vc.check('post/last-initially-zero', self.attrs['last'] == 0)


@harness('C31', 'one-lock-per-generator', functions=[Q + '.__init__', Q + '.__call__'], native='contracts.native.c31:replay_first_calls')
def one_lock(vc):
    """the lock invariant of `call` presupposes that every caller takes the SAME lock.  ensures the generator's lock exists when the constructor
    returns (callers racing on the first calls cannot each make their own): no lock is created during a call, and two calls acquire one and the
    same lock object, once each"""
    import threading
    from cassandra.timestamps import MonotonicTimestampGenerator
    made = []

    def mk():
        made.append(LockModel('lock#%d' % len(made), reentrant=False))
        return made[-1]
    vc.stub(threading.Lock, mk)
    vc.stub(threading.RLock, mk)
    self = vc.obj(MonotonicTimestampGenerator)
    vc.call(Q + '.__init__', self)
    at_construction = len(made)
    vc.stub(time.time, lambda: 15.0)
    vc.call(Q + '.__call__', self)
    vc.call(Q + '.__call__', self)
    vc.check('post/no-lock-created-after-the-constructor', len(made) == at_construction, note='locks created: %d in __init__, %d later' % (at_construction, len(made) - at_construction))
    vc.check('post/both-calls-took-the-same-lock', len([l for l in made if l.acquisitions >= 2]) == 1 and all(l.depth == 0 for l in made),
             note=str([(l.name, l.acquisitions) for l in made]))


@harness('C31', 'frame', functions=[])
def frame(vc):
    """frame: `last` of the generator is written only by __init__ and _next_timestamp; _next_timestamp is called only from __call__ (under the lock)"""
    ok, bad, sites = frames.frame_ok('last', {'cassandra/timestamps.py::MonotonicTimestampGenerator.__init__',
                                              'cassandra/timestamps.py::MonotonicTimestampGenerator._next_timestamp'},
                                     files=['cassandra/timestamps.py'])
    vc.check('frame/last', ok, note=str(bad))
    import ast, os
    tree = ast.parse(open(os.path.join(frames.REPO, 'cassandra/timestamps.py')).read())
    q = frames._qual_index(tree)
    # every mention of _next_timestamp (called directly or through an alias) sits in __call__, whose body the `call` harness proves to run under the lock
    callers = sorted({q.get(id(n), '<module>') for n in ast.walk(tree) if isinstance(n, ast.Attribute) and n.attr == '_next_timestamp'})
    vc.check('frame/_next_timestamp-called-only-from-__call__', set(callers) <= {'MonotonicTimestampGenerator.__call__'}, note=str(callers))
