"""C06 - protocol v5 segments are reassembled exactly and corruption is detected."""
import zlib
import z3
from pyvc.engine import harness
from pyvc import sym
from pyvc.sym import SInt, SBytes, SBool, SLow
from pyvc.interp import SObj, PyExc
from pyvc.libmodels import MBytesIO, _M, LockModel
from spec import segment_spec as SP

LEVEL = 'proof'
TRUSTED = ['E-CRC32: zlib.crc32 is an (uninterpreted) function of (bytes, initial value); detection of payload corruption rests on the CRC-32 polynomial (bounded stand-in on the real zlib)',
           'compressor/decompressor: an arbitrary pair with decompress(int32(len(x)) ++ compress(x)[4:]) == x (lz4 block format with length prefix), assumed',
           'E-BYTESIO, E-STRUCT', 'bit-level code runs on exact 128-bit vectors; exactness is established by proven bounds (engine refuses otherwise)',
           'A-AFFINITY: process_io_buffer runs on the event-loop thread only',
           'bounded dimension: SegmentCodec.encode chunking verified with the chunk-size constant instantiated to 7 and messages of up to 4 chunks (the code is parametric in the constant)']
EXPLANATION = 'header codec over full-domain bit-vectors (loop-free after unrolling the fixed CRC loops: complete), segment/connection buffer handling over Seq(Int) with callee contracts'

SG = 'cassandra.segment.'
MAXP = SP.MAX_PAYLOAD


def _codec(vc, compression):
    from cassandra.segment import SegmentCodec
    if compression:
        return vc.obj(SegmentCodec, compressor=_M(lambda b: b, 'compressor'), decompressor=_M(lambda b: b, 'decompressor'))
    return vc.obj(SegmentCodec, compressor=None, decompressor=None)


def _fields(vc):
    """payload / uncompressed lengths as exact 17-bit values (the whole domain of the header fields)"""
    pb, ub_ = z3.BitVec('payload_length', 17), z3.BitVec('uncompressed_length', 17)
    vc.ctx._reg('payload_length', 'int', z3.BV2Int(pb))
    vc.ctx._reg('uncompressed_length', 'int', z3.BV2Int(ub_))
    p = SLow(z3.ZeroExt(sym.EXACT_W - 17, pb), MAXP)
    u = SLow(z3.ZeroExt(sym.EXACT_W - 17, ub_), MAXP)
    return p, u, vc.bool('is_self_contained')


CRC24 = z3.Function('crc24', z3.BitVecSort(sym.EXACT_W), z3.IntSort(), z3.BitVecSort(sym.EXACT_W))


def _stub_crc24(vc):
    """callee contract of compute_crc24 (verified on its body in the `compute_crc24` harness):
    result == Crc.crc24(low `length` bytes of data) < 2**24; data must be a non-negative int below 2**(8*length)."""
    def crc24(data, length):
        L = sym.concrete_int(length)
        if L not in (3, 5):
            raise sym.Unsupported('crc24 contract only for the header lengths 3 and 5')
        d = sym.exact_bv(vc.ctx, data)
        vc.check('pre@compute_crc24/data-fits-length', d < (1 << (8 * L)))
        r = CRC24(d.t, z3.IntVal(L))
        vc.ctx.assume(z3.ULT(r, z3.BitVecVal(1 << 24, sym.EXACT_W)), silent=True)
        return SLow(r, (1 << 24) - 1)
    vc.stub(SG + 'compute_crc24', crc24)


FOLD = z3.Function('crc24_fold', z3.BitVecSort(sym.EXACT_W), z3.IntSort(), z3.BitVecSort(sym.EXACT_W))
SHR8 = z3.Function('shr8', z3.BitVecSort(sym.EXACT_W), z3.IntSort(), z3.BitVecSort(sym.EXACT_W))


@harness('C06', 'compute_crc24', functions=[SG + 'compute_crc24'], native='contracts.native.c06:replay')
def crc24_impl(vc):
    """ensures compute_crc24(data, n) == Cassandra's Crc.crc24(data, n) for EVERY length n >= 0 and every data < 2**64:
    outer-loop invariant crc == fold(i) of the spec byte step, data == data0 >> 8i, crc < 2**24 (inner 8 rounds unrolled)"""
    ctx = vc.ctx
    W = sym.EXACT_W
    d0 = z3.BitVec('data', 64)
    data0 = SLow(z3.ZeroExt(W - 64, d0), (1 << 64) - 1)
    n = vc.int('length')
    vc.assume(sym.and_(n >= 0, n <= 8))
    ctx.assume(FOLD(data0.t, z3.IntVal(0)) == z3.BitVecVal(SP.CRC24_INIT, W), silent=True)

    def sh(i):
        """data0 >> 8i as the uninterpreted shr8(data0, i) plus its defining instance at i.  The definition is a case
        split on i = 0..8 with constant shift amounts (the only values i takes, as 0 <= i <= length <= 8) and the general
        int2bv term for every other i - the same function of i as LShR(data0, int2bv(8i)).  Keeping the symbol opaque lets
        the crc step follow by congruence from `data == shr8(data0, i)`; only `data-shifted` has to open the definition,
        and then with constant shifts instead of bit-level reasoning about int2bv of a symbolic integer (on which z3
        decided the step obligations in 2-3 s for most seeds and not at all for others)."""
        t = z3.LShR(data0.t, z3.Int2BV(8 * i, W))
        for k in range(8, -1, -1):
            t = z3.If(i == k, z3.LShR(data0.t, z3.BitVecVal(8 * k, W)), t)
        ctx.assume(SHR8(data0.t, i) == t, silent=True)
        return SHR8(data0.t, i)

    def inv(L):
        i = sym.as_int_term(L._i)
        if L._phase == 'step':
            j = i - 1
            # definitional unfolding: fold(j+1) == step(fold(j), byte j of data0)
            ctx.assume(FOLD(data0.t, i) == SP.z_crc24_step(FOLD(data0.t, j), sh(j) & z3.BitVecVal(0xff, W), W), silent=True)
        crc = sym.exact_bv(ctx, L.crc)
        dat = sym.exact_bv(ctx, L.data)
        return [('crc-is-fold', SBool(crc.t == FOLD(data0.t, i))),
                ('crc-below-2^24', SBool(z3.ULT(crc.t, z3.BitVecVal(1 << 24, W)))),
                ('data-shifted', SBool(dat.t == sh(i)))]
    exact = lambda name, ub: (lambda c: SLow(z3.BitVec(c.fresh_name('h_' + name), W), ub))
    vc.loop(SG + 'compute_crc24', 0, invariant=inv, havoc={'crc': exact('crc', (1 << 25) - 1), 'data': exact('data', (1 << 64) - 1)})
    r = vc.call(SG + 'compute_crc24', data0, n)
    rb = sym.exact_bv(ctx, r)
    vc.check('post/equals-fold-of-spec-step', SBool(rb.t == FOLD(data0.t, sym.as_int_term(n))))
    vc.check('post/below-2^24', SBool(z3.ULT(rb.t, z3.BitVecVal(1 << 24, W))))
    vc.must_fail('selfcheck/crc-is-init', SBool(rb.t == z3.BitVecVal(SP.CRC24_INIT, W)))


@harness('C06', 'crc24-detects-single-byte-change', functions=[])
def crc24_lemmas(vc):
    """lemmas on the spec step function f(crc, byte) of Crc.crc24 (24-bit state): injective in the byte for a fixed state and
    injective in the state for a fixed byte, and closed on 24-bit states.  By induction over the remaining bytes, two header
    values that differ in exactly one byte (in particular: in one bit) have different CRC24s."""
    W = 32
    c1, c2, b1, b2 = z3.BitVecs('c1 c2 b1 b2', W)
    rng = lambda c, n: z3.ULT(c, z3.BitVecVal(1 << n, W))
    f = lambda c, b: SP.z_crc24_step(c, b, W)
    vc.check('lemma/byte-injective', SBool(z3.Implies(z3.And(rng(c1, 24), rng(b1, 8), rng(b2, 8), b1 != b2), f(c1, b1) != f(c1, b2))))
    vc.check('lemma/state-injective', SBool(z3.Implies(z3.And(rng(c1, 24), rng(c2, 24), rng(b1, 8), c1 != c2), f(c1, b1) != f(c2, b1))))
    vc.check('lemma/state-closed', SBool(z3.Implies(z3.And(rng(c1, 24), rng(b1, 8)), rng(f(c1, b1), 24))))


def _mk_header(compression):
    hl = 5 if compression else 3

    @harness('C06', 'header[%s]' % ('compression' if compression else 'plain'),
             functions=[SG + 'SegmentCodec.encode_header', SG + 'SegmentCodec.decode_header',
                        'cassandra.protocol.write_uint_le', 'cassandra.protocol.read_uint_le'],
             native='contracts.native.c06:replay')
    def h(vc):
        codec = _codec(vc, compression)
        _stub_crc24(vc)
        p, u, s = _fields(vc)
        buf = MBytesIO(b'', 0)
        vc.call(SG + 'SegmentCodec.encode_header', codec, buf, p, u, s)
        b = sym.lift(buf.content)
        vc.check('post/encoded-length', b.length() == hl + 3)
        # byte-exact against the v5 layout; CRC bytes are the little-endian bytes of crc24(header value)
        W = sym.EXACT_W
        sbit = z3.If(s.t, z3.BitVecVal(1, W), z3.BitVecVal(0, W))
        hv = (p.t | (u.t << 17) | (sbit << 34)) if compression else (p.t | (sbit << 17))
        crc = CRC24(hv, z3.IntVal(hl))
        want = [z3.Extract(8 * k + 7, 8 * k, hv) for k in range(hl)] + [z3.Extract(8 * k + 7, 8 * k, crc) for k in range(3)]
        got = sym.flatten_units(b.t)
        vc.check('post/fixed-length-bytes', got is not None and len(got) == hl + 3)
        if got is not None and len(got) == hl + 3:
            gbv = [sym._bv_of_bv2int(g) for g in got]
            vc.check('post/bytes-are-bitvector-bytes', all(g is not None and g.size() <= 8 for g in gbv))
            if all(g is not None and g.size() <= 8 for g in gbv):
                vc.check('post/byte-exact-v5-header', SBool(z3.And(*[z3.ZeroExt(8 - g.size(), g) == w if g.size() < 8 else g == w
                                                                     for g, w in zip(gbv, want)])))
        back = vc.call(SG + 'SegmentCodec.decode_header', codec, MBytesIO(b, 0))
        vc.check('post/roundtrip-payload-length', back.attrs['payload_length'] == p)
        if compression:
            vc.check('post/roundtrip-uncompressed-length', back.attrs['uncompressed_payload_length'] == u)
            vc.must_fail('selfcheck/uncompressed-always-zero', back.attrs['uncompressed_payload_length'] == 0)
        else:
            vc.check('post/roundtrip-uncompressed-length', back.attrs['uncompressed_payload_length'] == -1)
        vc.check('post/roundtrip-self-contained', back.attrs['is_self_contained'] == s)
    h.__doc__ = ('ensures encode_header writes exactly the v5 header bytes + CRC24 (all 2^17 x 2^17 x 2 field values) and '
                 'decode_header(encode_header(p,u,s)) == (p,u,s); %d-byte header; compute_crc24 by contract' % hl)
    return h


_mk_header(False)
_mk_header(True)


@harness('C06', 'header-too-long', functions=[SG + 'SegmentCodec.encode_header'], native='contracts.native.c06:replay')
def too_long(vc):
    """ensures payload_length > 128KiB-1 raises DriverException and writes nothing"""
    from cassandra import DriverException
    compression = vc.choice('compression', [False, True])
    codec = _codec(vc, compression)
    p = vc.int('payload_length')
    vc.assume(p > MAXP)
    buf = MBytesIO(b'', 0)
    kind, e = vc.call_catch(SG + 'SegmentCodec.encode_header', codec, buf, p, vc.int('u'), vc.bool('s'))
    vc.check('raises/DriverException', kind == 'exc' and vc.exc_is(e, DriverException))
    vc.check('post/nothing-written', buf.content == b'')


def _mk_corrupt(compression):
    hl = 5 if compression else 3

    @harness('C06', 'header-bitflip[%s]' % ('compression' if compression else 'plain'),
             functions=[SG + 'SegmentCodec.decode_header'], native='contracts.native.c06:replay')
    def h(vc):
        from cassandra.segment import CrcException
        codec = _codec(vc, compression)
        _stub_crc24(vc)
        p, u, s = _fields(vc)
        buf = MBytesIO(b'', 0)
        vc.call(SG + 'SegmentCodec.encode_header', codec, buf, p, u, s)
        els = sym.flatten_units(sym.lift(buf.content).t)
        bit = vc.choice('flipped_bit', list(range(8 * (hl + 3))))
        k, j = divmod(bit, 8)
        flipped = list(els)
        ebv = sym._bv_of_bv2int(els[k])
        if ebv is None:
            ebv = z3.Int2BV(els[k], 8)
        ebv = z3.ZeroExt(8 - ebv.size(), ebv) if ebv.size() < 8 else ebv
        flipped[k] = z3.BV2Int(ebv ^ z3.BitVecVal(1 << j, 8))
        corrupted = SBytes(z3.Concat(*[z3.Unit(x) for x in flipped]))
        if k < hl:
            # lemma instance (crc24-detects-single-byte-change): a header value differing in one byte has a different CRC24
            W = sym.EXACT_W
            sbit = z3.If(s.t, z3.BitVecVal(1, W), z3.BitVecVal(0, W))
            hv = (p.t | (u.t << 17) | (sbit << 34)) if compression else (p.t | (sbit << 17))
            hv2 = hv ^ z3.BitVecVal(1 << bit, W)
            vc.ctx.assume(CRC24(hv2, z3.IntVal(hl)) != CRC24(hv, z3.IntVal(hl)), silent=True)
        kind, exc = vc.call_catch(SG + 'SegmentCodec.decode_header', codec, MBytesIO(corrupted, 0))
        vc.check('raises/CrcException-on-any-single-bit-flip', kind == 'exc' and vc.exc_is(exc, CrcException))
    h.__doc__ = ('ensures every single-bit corruption of the %d header+CRC bytes makes decode_header raise CrcException (all field '
                 'values, all bit positions); CRC24 injectivity from the step lemmas' % (hl + 3))
    return h


_mk_corrupt(False)
_mk_corrupt(True)


@harness('C06', 'segment_length', functions=[SG + 'SegmentHeader.segment_length', SG + 'SegmentCodec.decode_header',
                                            SG + 'SegmentCodec.header_length_with_crc'], native='contracts.native.c06:replay')
def seglen(vc):
    """ensures for a header decoded by a codec: segment_length == codec.header_length + 3 + payload_length + 4, for both codecs,
    including a segment the sender left uncompressed (uncompressed length 0) although compression is negotiated"""
    compression = vc.choice('compression', [False, True])
    codec = _codec(vc, compression)
    _stub_crc24(vc)
    p, u, s = _fields(vc)
    buf = MBytesIO(b'', 0)
    vc.call(SG + 'SegmentCodec.encode_header', codec, buf, p, u, s)
    hdr = vc.call(SG + 'SegmentCodec.decode_header', codec, MBytesIO(sym.lift(buf.content), 0))
    from pyvc.interp import get_attr
    ln = get_attr(vc.ctx, hdr, 'segment_length')
    hlc = get_attr(vc.ctx, codec, 'header_length_with_crc')
    vc.check('post/header_length_with_crc', hlc == (8 if compression else 6))
    vc.check('post/segment-length', ln == (8 if compression else 6) + p + 4)


CRC32 = z3.Function('crc32', sym.ByteSeq, z3.IntSort(), z3.IntSort())
COMP = z3.Function('lz4_compress_body', sym.ByteSeq, sym.ByteSeq)


def _stub_crc_and_compression(vc, codec_obj):
    ctx = vc.ctx

    def crc32(data, value):
        r = CRC32(sym.lift(data).t, sym.as_int_term(value))
        ctx.assume(z3.And(r >= 0, r < (1 << 32)), silent=True)
        return SInt(r)
    vc.stub(zlib.crc32, crc32)

    def compress(self_, data):
        return SBytes(COMP(sym.lift(data).t))

    def decompress(self_, enc, ulen):
        # contract of the pair: decompressing compress(x) with len(x) gives x
        e = sym.lift(enc).t
        if e.decl().name() == 'lz4_compress_body':
            x = e.arg(0)
            vc.check('pre@decompress/length-is-original-length', ulen == SInt(z3.Length(x)))
            return SBytes(x)
        # the callee's precondition: only what compress() produced may be handed to the decompressor (a payload the sender left uncompressed - marked by an
        # uncompressed length of 0 - must not be); the result for anything else is unspecified
        vc.check('pre@decompress/only-payloads-that-were-compressed', False)
        return ctx.fresh_bytes('decompressor_garbage', register=False)
    vc.stub(SG + 'SegmentCodec.compress', compress)
    vc.stub(SG + 'SegmentCodec.decompress', decompress)


HDR = z3.Function('v5_header_byte', z3.IntSort(), z3.IntSort(), z3.BoolSort(), z3.IntSort(), z3.IntSort())


def _stub_header_codec(vc, compression):
    """callee contracts of encode_header / decode_header (verified in the header[...] harnesses): encode writes the
    header_length+3 bytes HDR(p, u, sc) for 0 <= p, u <= 128KiB-1; decode of exactly those bytes returns (p, u or -1, sc)."""
    from cassandra.segment import SegmentHeader
    H = 8 if compression else 6

    def encode_header(self_, buffer, p, u, sc):
        vc.check('pre@encode_header/lengths-in-range', sym.and_(p >= 0, p <= MAXP, u >= 0, u <= MAXP))
        ut = sym.as_int_term(u) if compression else z3.IntVal(0)
        units = [HDR(sym.as_int_term(p), ut, sym.as_bool_term(sc), z3.IntVal(k)) for k in range(H)]
        vc.ctx.assume(z3.And(*[z3.And(x >= 0, x < 256) for x in units]), silent=True)
        from pyvc.interp import get_attr, call_value
        call_value(vc.ctx, get_attr(vc.ctx, buffer, 'write'), [SBytes(z3.Concat(*[z3.Unit(x) for x in units]))], {})

    def decode_header(self_, buffer):
        from pyvc.interp import get_attr, call_value
        piece = call_value(vc.ctx, get_attr(vc.ctx, buffer, 'read'), [H], {})
        els = sym.flatten_units(sym.lift(piece).t)
        if els is None or len(els) != H or any(e.decl().name() != 'v5_header_byte' for e in els) or \
                any(not (e.arg(0).eq(els[0].arg(0)) and e.arg(1).eq(els[0].arg(1)) and e.arg(2).eq(els[0].arg(2))
                         and z3.simplify(e.arg(3) == k)) for k, e in enumerate(els)):
            raise sym.Unsupported('decode_header contract applied to bytes that are not an encoded header')
        t = els[0]
        return vc.obj(SegmentHeader, payload_length=SInt(t.arg(0)), uncompressed_payload_length=(SInt(t.arg(1)) if compression else -1),
                      is_self_contained=SBool(t.arg(2)))
    vc.stub(SG + 'SegmentCodec.encode_header', encode_header)
    vc.stub(SG + 'SegmentCodec.decode_header', decode_header)


@harness('C06', 'segment-roundtrip', functions=[SG + 'SegmentCodec._encode_segment', SG + 'SegmentCodec.decode',
                                               SG + 'SegmentCodec.decode_header', SG + 'SegmentCodec.encode_header'],
         native='contracts.native.c06:replay')
def segment_roundtrip(vc):
    """ensures decode(decode_header(encode_segment(payload, sc))) yields exactly payload and sc, for both codecs, compressed and
    left-uncompressed segments; and the bytes consumed equal header.segment_length"""
    compression = vc.choice('compression', [False, True])
    codec = _codec(vc, compression)
    _stub_crc_and_compression(vc, codec)
    _stub_header_codec(vc, compression)
    payload = vc.bytes('payload')
    vc.assume(sym.and_(payload.length() >= 1, payload.length() <= MAXP))
    sc = vc.bool('is_self_contained')
    buf = MBytesIO(b'', 0)
    vc.call(SG + 'SegmentCodec._encode_segment', codec, buf, payload, sc)
    wire = sym.lift(buf.content)
    rd = MBytesIO(wire, 0)
    hdr = vc.call(SG + 'SegmentCodec.decode_header', codec, rd)
    seg = vc.call(SG + 'SegmentCodec.decode', codec, rd, hdr)
    vc.check('post/payload-restored', seg.attrs['payload'] == payload)
    vc.check('post/self-contained-restored', seg.attrs['is_self_contained'] == sc)
    vc.check('post/whole-segment-consumed', rd.pos == wire.length())
    from pyvc.interp import get_attr
    vc.check('post/segment_length-is-bytes-on-the-wire', get_attr(vc.ctx, hdr, 'segment_length') == wire.length())


@harness('C06', 'payload-crc-checked', functions=[SG + 'SegmentCodec.decode'], native='contracts.native.c06:replay')
def payload_crc(vc):
    """ensures decode raises CrcException whenever the trailing CRC32 differs from crc32(payload bytes read)"""
    from cassandra.segment import CrcException, SegmentHeader
    codec = _codec(vc, False)
    _stub_crc_and_compression(vc, codec)
    body = vc.bytes('payload')
    p = body.length()
    vc.assume(sym.and_(p >= 0, p <= MAXP))
    crc = vc.int('crc_on_wire')
    vc.assume(sym.and_(crc >= 0, crc < (1 << 32)))
    from spec import cser
    from pyvc.libmodels import _reverse_units
    wire = body + SBytes(_reverse_units(crc.t, 4, False))
    hdr = vc.obj(SegmentHeader, payload_length=p, uncompressed_payload_length=-1, is_self_contained=True)
    kind, r = vc.call_catch(SG + 'SegmentCodec.decode', codec, MBytesIO(wire, 0), hdr)
    from cassandra.segment import CRC32_INITIAL
    good = SInt(CRC32(body.t, z3.IntVal(CRC32_INITIAL))) == crc
    if kind == 'exc':
        vc.check('raises/only-on-mismatch', sym.and_(vc.exc_is(r, CrcException), sym.not_(good)))
    else:
        vc.check('post/accepted-only-on-match', good)


@harness('C06', 'encode-chunking', functions=[SG + 'SegmentCodec.encode'], native='contracts.native.c06:replay')
def chunking(vc):
    """ensures encode splits a message into payloads whose concatenation is the message, each 1..MAX bytes, and marks them
    self-contained iff there is exactly one.  The code is parametric in Segment.MAX_PAYLOAD_LENGTH (read once per use, only
    compared and added): verified with the constant set to 7 for every message of up to 4 chunks (bounded unrolling);
    the real constant is checked to be 2**17 - 1."""
    from cassandra.segment import Segment
    vc.check('post/MAX_PAYLOAD_LENGTH-is-128KiB-1', Segment.MAX_PAYLOAD_LENGTH == MAXP)
    M = 7
    saved = Segment.MAX_PAYLOAD_LENGTH
    Segment.MAX_PAYLOAD_LENGTH = M
    try:
        codec = _codec(vc, False)
        msg = vc.bytes('msg')
        n = msg.length()
        vc.assume(sym.and_(n >= 1, n <= 3 * M + 5))
        got = []
        vc.stub(SG + 'SegmentCodec._encode_segment', lambda self_, buf, payload, sc: got.append((sym.lift(payload), sc)))
        vc.call(SG + 'SegmentCodec.encode', codec, MBytesIO(b'', 0), msg)
    finally:
        Segment.MAX_PAYLOAD_LENGTH = saved
    total = SBytes(z3.Empty(sym.ByteSeq))
    for pl, sc in got:
        total = total + pl
        vc.check('post/chunk-size', sym.and_(pl.length() >= 1, pl.length() <= M))
        vc.check('post/self-contained-iff-single', sc == (len(got) == 1))
    vc.check('post/concatenation-is-message', total == msg)
    vc.check('post/minimal-number-of-segments', n > (len(got) - 1) * M)


@harness('C06', 'connection-segment-buffer', functions=['cassandra.connection.Connection._process_segment_buffer',
                                                       'cassandra.connection._ConnectionIOBuffer.reset_io_buffer'],
         native='contracts.native.c06:replay')
def conn_buffer(vc):
    """one step of process_io_buffer on the checksummed path (= _process_segment_buffer(); reset_io_buffer()), for ANY buffered
    bytes: either one whole segment is moved (its payload appended to the frame buffer, exactly segment_length bytes removed) or
    nothing is lost and nothing is consumed - in particular when fewer bytes than a header are buffered"""
    from cassandra.connection import Connection, _ConnectionIOBuffer
    from cassandra.segment import SegmentCodec, SegmentHeader, Segment
    ctx = vc.ctx
    compression = vc.choice('compression', [False, True])
    H = 8 if compression else 6
    codec = _codec(vc, compression)
    content = vc.bytes('buffered')
    n = content.length()
    io_buf = MBytesIO(content, n)            # position after the last write == end
    frame_buf = MBytesIO(vc.bytes('frame_buffer'), 0)
    frame_buf.pos = sym.lift(frame_buf.content).length()
    frame_before = sym.lift(frame_buf.content)
    p = vc.int('payload_length')
    u = vc.int('uncompressed_length')
    vc.assume(sym.and_(p >= 0, p <= MAXP, u >= 0, u <= MAXP))
    st = {'decoded': 0}

    def decode_header(self_, buf):
        # contract (header harness): consumes header_length_with_crc bytes, returns the fields the sender wrote
        vc.check('pre@decode_header/at-start-with-whole-header', sym.and_(buf.pos == 0, sym.lift(buf.content).length() >= H))
        buf.pos = buf.pos + H
        return vc.obj(SegmentHeader, payload_length=p, uncompressed_payload_length=(u if compression else -1),
                      is_self_contained=vc.bool('sc'))

    def decode(self_, buf, header):
        # contract (segment-roundtrip harness): needs the whole payload + CRC32 in the buffer
        c = sym.lift(buf.content)
        vc.check('pre@decode/whole-segment-buffered', c.length() - buf.pos >= header.attrs['payload_length'] + 4)
        pl = c[buf.pos:buf.pos + header.attrs['payload_length']]
        buf.pos = buf.pos + header.attrs['payload_length'] + 4
        st['decoded'] += 1
        st['payload'] = pl
        return vc.obj(Segment, payload=pl, is_self_contained=header.attrs['is_self_contained'])
    vc.stub(SG + 'SegmentCodec.decode_header', decode_header)
    vc.stub(SG + 'SegmentCodec.decode', decode)
    conn = vc.obj(Connection, _segment_codec=codec, _is_checksumming_enabled=True, endpoint=vc.opaque('endpoint'))
    iob = vc.obj(_ConnectionIOBuffer, _io_buffer=io_buf, _cql_frame_buffer=frame_buf, _connection=conn, _segment_consumed=False)
    conn.attrs['_io_buffer'] = iob
    conn.attrs['_iobuf'] = io_buf
    vc.stub('cassandra.connection.Connection.defunct', lambda self_, exc: st.__setitem__('defunct', exc))
    vc.call('cassandra.connection.Connection._process_segment_buffer', conn)
    vc.check('post/no-error', 'defunct' not in st)
    vc.call('cassandra.connection._ConnectionIOBuffer.reset_io_buffer', iob)
    new_io = sym.lift(iob.attrs['_io_buffer'].content)
    L = H + p + 4
    consumed = iob.attrs['_segment_consumed']
    whole = sym.and_(n >= H, n >= L)
    vc.check('post/consumed-iff-whole-segment-buffered', consumed == whole if sym.is_sym(consumed) else sym.SBool(z3.BoolVal(bool(consumed))) == whole)
    if st['decoded']:
        vc.check('post/remaining-bytes-kept', new_io == content[L:])
        vc.check('post/payload-appended-to-frame-buffer', sym.lift(frame_buf.content) == frame_before + st['payload'])
    else:
        vc.check('post/nothing-lost-when-incomplete', new_io == content)
        vc.check('post/frame-buffer-untouched', sym.lift(frame_buf.content) == frame_before)
    vc.check('post/write-position-at-end', iob.attrs['_io_buffer'].pos == new_io.length())


@harness('C06', 'reset-buffers', functions=['cassandra.connection._ConnectionIOBuffer.reset_cql_frame_buffer',
                                           'cassandra.connection._ConnectionIOBuffer.reset_io_buffer'],
         native='contracts.native.c06:replay')
def reset_buffers(vc):
    """ensures reset_cql_frame_buffer / reset_io_buffer keep exactly the unread remainder and leave the write position at its
    end, so that the next segment payload / socket read is appended after the bytes still waiting (never over them)"""
    from cassandra.connection import Connection, _ConnectionIOBuffer
    checks = vc.choice('checksumming', [False, True])
    conn = vc.obj(Connection, _is_checksumming_enabled=checks)
    c_io, c_fr = vc.bytes('io_content'), vc.bytes('frame_content')
    p_io, p_fr = vc.int('io_pos'), vc.int('frame_pos')
    vc.assume(sym.and_(p_io >= 0, p_io <= c_io.length(), p_fr >= 0, p_fr <= c_fr.length()))
    iob = vc.obj(_ConnectionIOBuffer, _io_buffer=MBytesIO(c_io, p_io), _cql_frame_buffer=MBytesIO(c_fr, p_fr), _connection=conn,
                 _segment_consumed=False)
    which = vc.choice('which', ['reset_cql_frame_buffer', 'reset_io_buffer'])
    vc.call('cassandra.connection._ConnectionIOBuffer.' + which, iob)
    if which == 'reset_cql_frame_buffer' and checks:
        buf, old, oldpos = iob.attrs['_cql_frame_buffer'], c_fr, p_fr
        vc.check('post/io-buffer-untouched', iob.attrs['_io_buffer'].content is c_io or sym.lift(iob.attrs['_io_buffer'].content) == c_io)
    else:
        buf, old, oldpos = iob.attrs['_io_buffer'], c_io, p_io
    new = sym.lift(buf.content)
    vc.check('post/keeps-exactly-the-unread-remainder', new == old[oldpos:])
    vc.check('post/write-position-at-end', buf.pos == new.length())
    # appending afterwards does not disturb the kept bytes
    from pyvc.interp import get_attr, call_value
    extra = vc.bytes('next_write')
    call_value(vc.ctx, get_attr(vc.ctx, buf, 'write'), [extra], {})
    vc.check('post/next-write-appends', sym.lift(buf.content) == old[oldpos:] + extra)


def bounded_payload_bitflips(tier, seed):
    """E-CRC32 on the real zlib + real codec: every single-bit flip of payload or CRC32 bytes of a real segment is rejected."""
    import io, random
    from cassandra.segment import SegmentCodec, CrcException
    rng = random.Random(seed + 3)
    codec = SegmentCodec()
    n = 0
    bad = []
    sizes = [1, 2, 7, 16, 33, 64] if tier == 'quick' else list(range(1, 65))
    for size in sizes:
        payload = bytes(rng.randrange(256) for _ in range(size))
        buf = io.BytesIO()
        codec._encode_segment(buf, payload, True)
        wire = buf.getvalue()
        for bit in range(8 * 6, 8 * len(wire)):
            w = bytearray(wire)
            w[bit // 8] ^= 1 << (bit % 8)
            n += 1
            rd = io.BytesIO(bytes(w))
            try:
                hdr = codec.decode_header(rd)
                seg = codec.decode(rd, hdr)
                bad.append({'payload_hex': payload.hex(), 'flipped_bit': bit, 'accepted_as': seg.payload.hex()})
            except CrcException:
                pass
    return {'name': 'bounded_payload_bitflips', 'evaluations': n, 'distinct_nontrivial': n,
            'rule': 'real zlib.crc32: all single-bit flips of payload+CRC32 of random payloads of sizes %r; each flip is a distinct case' % (sizes,),
            'samples': ['size 7, bit 48'], 'violations': bad[:3], 'bound': 'payload sizes <= 64 bytes'}


BOUNDED = [bounded_payload_bitflips]
