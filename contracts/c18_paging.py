"""C18 - paged results yield every row exactly once, in order."""
import os
from pyvc.engine import harness
from pyvc import sym
from pyvc.interp import SObj, PyExc, exc_class, call_value, BoundMethod, resolve
from pyvc.libmodels import LockModel, _M
from contracts import rf_common as R

LEVEL = 'proof'
TRUSTED = ['rows are opaque values (the row factory returns the page as a list); paging states are opaque non-empty byte strings (an EMPTY paging state would make '
           'has_more_pages true while start_fetching_next_page raises QueryExhausted - the protocol never sends one)',
           'E-EVENT: ResponseFuture.result() waits until the response handler has run; the next page is delivered through the real _set_result',
           'callee contracts of pool.borrow_connection / Connection.send_msg (contracts/rf_common.py), A-LOG',
           'bounded dimension: up to 4 pages (thorough: 5) of 0..2 rows each are enumerated (the recursion in ResultSet.next is unrolled); the per-page step does not depend on the page index',
           'continuous paging (DSE) is out of scope']
EXPLANATION = 'postconditions over a ghost request log on the real ResultSet.__iter__/next/fetch_next_page/_fetch_all/_enter_list_mode/__getitem__ and ResponseFuture.result/start_fetching_next_page/_set_result(ROWS)/has_more_pages'

RS = 'cassandra.cluster.ResultSet.'
TIER = os.environ.get('VERIF_TIER', 'quick')


def _setup(vc, max_pages, fault_at=None):
    from cassandra.protocol import ResultMessage, RESULT_KIND_ROWS
    npages = vc.choice('pages', list(range(1, max_pages + 1)))
    sizes = [vc.choice('page%d_rows' % i, [0, 1, 2]) for i in range(npages)]
    pages = [['row%d.%d' % (i, j) for j in range(n)] for i, n in enumerate(sizes)]
    states = [('state-after-page-%d' % i).encode() if i < npages - 1 else None for i in range(npages)]
    h1 = R.Host('h1')
    world = R.World(vc, [h1])
    session = R.Session(world, 4)
    fut = R.make_future(vc, world, session, [], _host=h1, _spec_execution_plan=_NoSpec(), _col_names=['c'], _col_types=['t'],
                        row_factory=_M(lambda names, rows: list(rows), 'row_factory'), _continuous_paging_session=None)
    pool, conn = world.pools[h1], world.pools[h1].conn
    requested = []          # ghost: paging state carried by each page request
    real_send = conn.send_msg

    def send_msg(message, request_id, cb=None, **kw):
        requested.append(message.attrs['paging_state'])
        return real_send(message, request_id, cb=cb, **kw)
    conn.send_msg = send_msg
    delivered = {'n': 0}

    def deliver():
        i = delivered['n']
        delivered['n'] += 1
        if fault_at is not None and i == fault_at(npages):
            # this page request ends in an error (timeout rethrown by the retry policy, NoHostAvailable, ...)
            from cassandra import ReadTimeout
            exc = SObj(ReadTimeout, {'args': ('page request failed',)})
            fut.ghost['fault'] = exc
            call_value(vc.ctx, BoundMethod(resolve(R.RF + '_set_final_exception'), fut), [exc], {})
            return
        resp = vc.obj(ResultMessage, kind=RESULT_KIND_ROWS, paging_state=states[i], column_names=['c'], column_types=['t'], parsed_rows=list(pages[i]))
        call_value(vc.ctx, BoundMethod(resolve(R.RF + '_set_result'), fut), [h1, conn, pool, resp], {})

    class Ev(R.Event):
        def wait(self_, timeout=None):
            # the response to the outstanding request arrives before result() returns
            if not self_.flag and delivered['n'] < npages and len(requested) == delivered['n'] + 1:
                deliver()
            return self_.flag
    ev = Ev(world.log)
    fut.attrs['_event'] = ev
    # first page: the initial request was sent by execute_async
    requested.append(None)
    deliver()
    rs = vc.call(R.RF + 'result', fut)
    return rs, fut, pages, states, requested


class _NoSpec(object):
    def next_execution(self, host):
        return -1


def _drain(vc, rs, limit=20):
    out = []
    call_value(vc.ctx, BoundMethod(resolve(RS + '__iter__'), rs), [], {})
    for _ in range(limit):
        kind, r = vc.call_catch(RS + 'next', rs)
        if kind == 'exc':
            return out, r
        out.append(r)
    return out, None


@harness('C18', 'iterate', functions=[RS + '__iter__', RS + 'next', RS + 'fetch_next_page', R.RF + 'start_fetching_next_page', R.RF + 'result',
                                      R.RF + '_set_result', R.RF + 'has_more_pages'], native='contracts.native.c18:replay')
def iterate(vc):
    """for every sequence of up to 4 (thorough: 5) pages of 0..2 rows: ensures iteration yields the concatenation of all pages in order and
    then stops; the i-th page request carries the paging state returned with page i-1; exactly pages-1 further requests are made,
    none after the page without paging state"""
    rs, fut, pages, states, requested = _setup(vc, 4 if TIER == 'quick' else 5)
    rows, end = _drain(vc, rs)
    want = [r for p in pages for r in p]
    vc.check('post/rows-are-the-concatenation-of-all-pages-in-order', rows == want)
    vc.check('post/ends-with-StopIteration', end is not None and issubclass(exc_class(end), StopIteration))
    vc.check('post/each-request-carries-the-previous-pages-paging-state', requested == [None] + states[:-1])
    vc.check('post/no-more-pages-flag', fut.attrs['_paging_state'] is None)
    kind, r = vc.call_catch(RS + 'next', rs)
    vc.check('post/stays-exhausted-no-further-request', kind == 'exc' and issubclass(exc_class(r), StopIteration) and len(requested) == len(pages))
    if len(pages) == 3:
        vc.must_fail('selfcheck/single-request', len(requested) == 1)


@harness('C18', 'list-and-manual', functions=[RS + '_enter_list_mode', RS + '_fetch_all', RS + '__getitem__', RS + 'fetch_next_page', RS + 'current_rows',
                                              RS + 'all'], native='contracts.native.c18:replay')
def list_and_manual(vc):
    """ensures materialising the result (index operator / all()) and manual page fetching (current_rows + fetch_next_page while
    has_more_pages) both give exactly the rows iteration gives, with the same page requests; a materialised result can be iterated
    again and indexed; mixing iteration and the index operator is refused"""
    mode = vc.choice('access', ['index', 'all', 'manual', 'iterate-then-index'])
    rs, fut, pages, states, requested = _setup(vc, 3)
    want = [r for p in pages for r in p]
    if mode == 'index':
        call_value(vc.ctx, BoundMethod(resolve(RS + '_enter_list_mode'), rs), ['index operator'], {})
        vc.check('list/materialised-rows-equal-iteration', list(rs.attrs['_current_rows']) == want and rs.attrs['_list_mode'] is True)
        for i in range(len(want)):
            vc.check('list/indexing', vc.call(RS + '__getitem__', rs, i) == want[i])
        rows, end = _drain(vc, rs)
        again = list(vc.call(RS + '__iter__', rs))
        vc.check('list/iterable-again', again == want)
    elif mode == 'all':
        rows = vc.call(RS + 'all', rs)
        vc.check('all/equals-iteration', list(rows) == want)
    elif mode == 'manual':
        got = list(vc.call(R.RF.replace('ResponseFuture.', 'ResultSet.') + 'current_rows', rs)) if False else list(rs.attrs['_current_rows'] or [])
        n = 0
        while fut.attrs['_paging_state'] is not None and n < 10:
            vc.call(RS + 'fetch_next_page', rs)
            got += list(rs.attrs['_current_rows'] or [])
            n += 1
        vc.check('manual/pages-concatenate-to-the-iteration-result', got == want)
        vc.call(RS + 'fetch_next_page', rs)
        vc.check('manual/fetch-after-last-page-gives-empty-page-no-request', list(rs.attrs['_current_rows']) == [] and len(requested) == len(pages))
    else:
        call_value(vc.ctx, BoundMethod(resolve(RS + '__iter__'), rs), [], {})
        kind, r = vc.call_catch(RS + '_enter_list_mode', rs, 'index operator')
        vc.check('mixed/index-after-iteration-refused', kind == 'exc' and issubclass(exc_class(r), RuntimeError))
        return
    vc.check('post/each-request-carries-the-previous-pages-paging-state', requested == [None] + states[:-1])


@harness('C18', 'page-request-fails', functions=[RS + 'next', RS + 'fetch_next_page', R.RF + 'start_fetching_next_page', R.RF + 'result',
                                                 R.RF + '_set_final_exception'], native='contracts.native.c18:replay')
def page_fails(vc):
    """ensures when the request for page k (k >= 1) ends in an error, iteration raises exactly that error after yielding exactly the
    rows of pages 0..k-1 - the previous page is not handed out a second time - and start_fetching_next_page puts the future back
    into the not-completed state (no stale result or error)"""
    from cassandra.cluster import _NOT_SET
    k = {}

    def fault_at(npages):
        if 'k' not in k:
            k['k'] = vc.choice('failing_page', list(range(1, npages))) if npages > 1 else None
        return k['k']
    rs, fut, pages, states, requested = _setup(vc, 3, fault_at)
    if len(pages) < 2:
        return
    rows, end = _drain(vc, rs)
    kk = k.get('k')
    want = [r for p in pages[:kk] for r in p]
    vc.check('post/rows-before-the-failure-exactly-once', rows == want)
    vc.check('post/the-page-error-is-raised-not-swallowed', end is not None and end is fut.ghost.get('fault'))
    vc.check('post/paging-state-still-points-at-the-failed-page', fut.attrs['_paging_state'] == states[kk - 1])


# the request for a later page on the wire: the paging state has to sit where the server reads it (between the page size and the serial consistency).
# Same contract as C03's QUERY/EXECUTE harnesses, re-discharged here for the option combinations a next-page request carries.
from contracts import c03_requests as _C03
for _pv in (2, 3, 4, 5, 0x42):
    _C03._mk_query_like('QUERY', _pv, prop='C18', opt_fn=_C03.next_page_options, label='next-page-')
    _C03._mk_query_like('EXECUTE', _pv, prop='C18', opt_fn=_C03.next_page_options, label='next-page-')
