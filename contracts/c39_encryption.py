"""C39 - column encryption is transparent, including for nulls."""
import os
import z3
from pyvc.engine import harness
from pyvc import sym
from pyvc.sym import SBytes
from pyvc.interp import SObj, PyExc, exc_class, get_attr, py_raise
from pyvc.libmodels import _M, MBytesIO
from spec import cser
from contracts.wire_common import cat, s_int, s_short, s_string, s_bytes, same

LEVEL = 'proof'
TRUSTED = ['E-AES (assumed contract of the policy, probed on the real AES256ColumnEncryptionPolicy by the bounded stand-in): for BYTES b, decrypt(cd, encrypt(cd, b)) == b and encrypt(cd, b) != b; '
           'both REQUIRE a bytes argument (the real padder / slicing raise TypeError on None) - this precondition is enforced by the stub, so a call with a null cell fails the obligation',
           'the encrypted column\'s CQL type is an abstract 4-byte integer codec (any codec with the C01 contract behaves the same); the wire type of an encrypted column is blob',
           'the compiled row parser (obj_parser.pyx) has the same branch; it is outside this family (C07) and only reached by the bounded stand-in when a compiled build exists']
EXPLANATION = 'postconditions on the real BoundStatement.bind (encryption branch) and ResultMessage.recv_results_rows (decode_val / decode_row) with the policy as an abstract inverse pair; round trip bind -> wire -> decode for values and nulls; bounded probe of the real AES policy'

Q = 'cassandra.query.'
PR = 'cassandra.protocol.'



class _IntCodec(object):
    """the CQL type the policy holds for the encrypted column: 4-byte big-endian integer"""
    @staticmethod
    def serialize(v, pv):
        return cser.be_signed(v, 4)

    @staticmethod
    def from_binary(b, pv):
        if b is None:
            return None
        from pyvc.engine import cur
        from pyvc.libmodels import struct_unpack
        return struct_unpack(cur(), '>i', b, 0, True)[0]

    @staticmethod
    def cql_parameterized_type():
        return 'int'


class _Policy(object):
    """E-AES as a stub: which columns are encrypted, their CQL type, and an abstract encrypt/decrypt pair over bytes"""
    def __init__(self, vc, encrypted_names):
        self.vc, self.names, self.calls, self.table, self.types, self.owner = vc, set(encrypted_names), [], [], {}, {}

    def contains_column(self, cd):
        return cd.col in self.names

    def column_type(self, cd):
        return self.types.get(cd.col, _IntCodec)

    def _bytes(self, what, b):
        self.calls.append((what, b))
        if not isinstance(b, (bytes, SBytes)):
            py_raise(TypeError("%s() argument must be bytes, not %s" % (what, type(b).__name__)))
        return sym.lift(b)

    def encrypt(self, cd, b):
        """E-AES without sequence-valued uninterpreted functions (which the sequence solvers handle badly): every encryption yields a fresh
        ciphertext constant (>= 32 bytes: IV + at least one block, different from the plaintext) and the policy remembers what it encrypts to;
        decrypt of exactly that ciphertext gives the plaintext back, decrypt of anything else an unknown byte string"""
        pt = self._bytes('encrypt', b)
        for c, p in self.table:
            if p.t.eq(pt.t):
                return c
        c = self.vc.ctx.fresh_bytes('ciphertext', register=False)
        self.vc.ctx.assume(z3.And(z3.Length(c.t) >= 32, z3.Length(c.t) <= 1 << 20, c.t != pt.t), silent=True)
        self.table.append((c, pt))
        return c

    def decrypt(self, cd, b):
        ct = self._bytes('decrypt', b)
        self.decrypted_under = getattr(self, 'decrypted_under', []) + [(getattr(cd, 'col', None), ct)]
        for c, p in self.table:
            if c.t.eq(ct.t) or z3.simplify(c.t == ct.t).eq(z3.BoolVal(True)):
                return p
        return self.vc.ctx.fresh_bytes('unknown_plaintext', register=False)

    def cipher_of(self, plain):
        pt = sym.lift(plain)
        for c, p in self.table:
            if p.t.eq(pt.t) or z3.simplify(p.t == pt.t).eq(z3.BoolVal(True)):
                return c
        return None

    def encode_and_encrypt(self, cd, obj):
        # the real helper refuses falsy objects
        from pyvc.interp import truth
        from pyvc.engine import cur
        if not truth(cur(), obj):
            py_raise(ValueError('Object supplied to encode_and_encrypt cannot be None'))
        return self.encrypt(cd, _IntCodec.serialize(obj, None))


class _Blob(object):
    @staticmethod
    def serialize(v, pv):
        return v

    @staticmethod
    def from_binary(b, pv):
        return b

    @staticmethod
    def cql_parameterized_type():
        return 'blob'


class _Col(object):
    def __init__(self, name, typ):
        self.keyspace_name, self.table_name, self.name, self.type = 'ks', 'tb', name, typ


@harness('C39', 'bind-encrypts', functions=[Q + 'BoundStatement.bind'], native='contracts.native.c39:replay')
def bind_encrypts(vc):
    """a statement with an encrypted column `secret` (CQL int) and a plain column `plain`, every combination of value / null, every integer value incl. 0:
    ensures the value bound for `secret` is encrypt(serialize_int(v)) (never the plaintext encoding), a null stays a wire null, the plain column is untouched by the policy"""
    from cassandra.query import PreparedStatement, BoundStatement
    v, w = vc.int('secret_value'), vc.int('plain_value')
    vc.assume(sym.and_(cser.in_signed_range(v, 4), cser.in_signed_range(w, 4)))
    sv = vc.choice('secret', ['value', 'null'])
    pvs = vc.choice('plain', ['value', 'null'])
    pol = _Policy(vc, ['secret'])
    prep = vc.obj(PreparedStatement, column_metadata=[_Col('secret', _Blob), _Col('plain', _IntCodec)], query_id=b'id', routing_key_indexes=None, query_string='q', keyspace='ks',
                  protocol_version=4, result_metadata=None, result_metadata_id=None, column_encryption_policy=pol, is_idempotent=False, _routing_key_index_set=None)
    b = vc.obj(BoundStatement, prepared_statement=prep, values=None, raw_values=None, _routing_key=None)
    k, r = vc.call_catch(Q + 'BoundStatement.bind', b, [v if sv == 'value' else None, w if pvs == 'value' else None])
    vc.check('post/binds', k == 'ok')
    if k != 'ok':
        return
    vals = get_attr(vc.ctx, b, 'values')
    vc.check('post/two-values', isinstance(vals, list) and len(vals) == 2)
    if sv == 'value':
        plain = cser.be_signed(v, 4)
        ct = pol.cipher_of(plain)
        vc.check('secret/sent-as-the-encryption-of-its-int-encoding', isinstance(vals[0], SBytes) and ct is not None and vals[0].t.eq(ct.t))
        vc.check('secret/never-sent-in-the-clear', isinstance(vals[0], SBytes) and vals[0] != sym.lift(plain))
    else:
        vc.check('secret/null-stays-a-wire-null', vals[0] is None)
    if sv == 'value':
        vc.must_fail('selfcheck/secret-sent-as-its-plain-int-encoding', sym.lift(vals[0]) == sym.lift(cser.be_signed(v, 4)))
    vc.check('plain/not-touched-by-the-policy', (vals[1] is None) if pvs == 'null' else sym.lift(vals[1]) == sym.lift(cser.be_signed(w, 4)))
    vc.check('policy/only-asked-to-encrypt-the-encrypted-non-null-value', [c[0] for c in pol.calls] == (['encrypt'] if sv == 'value' else []))


@harness('C39', 'rows-decrypt', functions=[PR + 'ResultMessage.recv_results_rows'], native='contracts.native.c39:replay')
def rows_decrypt(vc):
    """a ROWS result whose metadata names the encrypted column (wire type blob) and a plain int column, two rows, every combination of encrypted cell / null cell:
    requires each non-null secret cell == encrypt(serialize_int(v))  ensures it decodes to v, a null cell decodes to None (the policy is only handed bytes), plain cells are decoded normally"""
    from cassandra import protocol as P
    from cassandra import DriverException
    v0, v1, w0 = vc.int('secret_row0'), vc.int('secret_row1'), vc.int('plain_row0')
    for x in (v0, v1, w0):
        vc.assume(cser.in_signed_range(x, 4))
    kinds = [vc.choice('row0_secret', ['value', 'null']), vc.choice('row1_secret', ['value', 'null'])]
    pol = _Policy(vc, ['secret'])
    cells = []
    for kind, v in zip(kinds, (v0, v1)):
        cells.append(pol.encrypt(None, cser.be_signed(v, 4)) if kind == 'value' else None)
    pol.calls[:] = []
    meta = cat(s_int(1), s_int(2), s_string('ks'), s_string('tb'), s_string('secret'), s_short(0x03), s_string('plain'), s_short(0x09))
    rows = cat(s_int(2), s_bytes(cells[0]), s_bytes(cser.be_signed(w0, 4)), s_bytes(cells[1]), s_int(-1))
    f = MBytesIO(cat(meta, rows), 0)
    msg = vc.obj(P.ResultMessage, kind=2)
    k, r = vc.call_catch(PR + 'ResultMessage.recv_results_rows', msg, f, 4, {}, None, pol)
    vc.check('post/decodes', k == 'ok')
    if k != 'ok':
        return
    got = get_attr(vc.ctx, msg, 'parsed_rows')
    ok = isinstance(got, list) and len(got) == 2 and all(isinstance(r_, tuple) and len(r_) == 2 for r_ in got)
    vc.check('post/two-rows-of-two-values', ok)
    if not ok:
        return
    for i, (kind, v) in enumerate(zip(kinds, (v0, v1))):
        if kind == 'value':
            vc.check('secret/row%d-decodes-to-the-original-value' % i, got[i][0] is not None and sym.and_(got[i][0] == v))
        else:
            vc.check('secret/row%d-null-decodes-to-None' % i, got[i][0] is None)
    vc.check('plain/decoded-normally', sym.and_(got[0][1] == w0) and got[1][1] is None)
    vc.check('policy/decrypt-only-handed-bytes', all(c[0] == 'decrypt' and isinstance(c[1], (bytes, SBytes)) for c in pol.calls) and len(pol.calls) == kinds.count('value'))


def real_policy(tier, seed):
    """runs under /venv/bin/python (the interpreter that has the cryptography package) against VERIF_REPO"""
    import json
    import subprocess
    import sys
    repo = os.environ.get('VERIF_REPO', '/repo')
    verif = os.path.dirname(os.path.dirname(os.path.abspath(__file__)))
    code = 'import json,sys; sys.path.insert(0, %r); sys.path.insert(0, %r); from contracts.native import c39; print(json.dumps(c39.real_policy_round_trip(%r, %d)))' % (repo, verif, tier, seed)
    p = subprocess.run(['/venv/bin/python', '-c', code], capture_output=True, text=True, cwd=repo, timeout=600, env=dict(os.environ, PYTHONPATH=repo))
    try:
        return json.loads(p.stdout.strip().splitlines()[-1])
    except Exception:
        return {'name': 'real-aes-policy-round-trip', 'error': 'no result: %s %s' % (p.stdout[-300:], p.stderr[-800:])}


real_policy.__name__ = 'real_aes_policy_round_trip'
BOUNDED = [real_policy]


@harness('C39', 'rows-two-encrypted-columns', functions=[PR + 'ResultMessage.recv_results_rows'], native='contracts.native.c39:replay')
def two_encrypted_columns(vc):
    """a ROWS result with TWO encrypted columns of different CQL types (int `secret`, blob `token`; each with its own key) and a plain column between them:
    ensures every non-null cell is decrypted under ITS OWN column description and decoded with that column's type (never the other column's), for values and nulls"""
    from cassandra import protocol as P
    v, w = vc.int('secret_value'), vc.int('plain_value')
    tok = vc.bytes('token_value')
    vc.assume(sym.and_(cser.in_signed_range(v, 4), cser.in_signed_range(w, 4), tok.length() >= 1, tok.length() <= 64))
    kinds = [vc.choice('secret', ['value', 'null']), vc.choice('token', ['value', 'null'])]
    pol = _Policy(vc, ['secret', 'token'])
    pol.types = {'secret': _IntCodec, 'token': _Blob}
    c_secret = pol.encrypt(None, cser.be_signed(v, 4)) if kinds[0] == 'value' else None
    c_token = pol.encrypt(None, tok) if kinds[1] == 'value' else None
    pol.calls[:] = []
    meta = cat(s_int(1), s_int(3), s_string('ks'), s_string('tb'), s_string('secret'), s_short(0x03), s_string('plain'), s_short(0x09), s_string('token'), s_short(0x03))
    rows = cat(s_int(1), s_bytes(c_secret), s_bytes(cser.be_signed(w, 4)), s_bytes(c_token))
    f = MBytesIO(cat(meta, rows), 0)
    msg = vc.obj(P.ResultMessage, kind=2)
    k, r = vc.call_catch(PR + 'ResultMessage.recv_results_rows', msg, f, 4, {}, None, pol)
    vc.check('post/decodes', k == 'ok')
    if k != 'ok':
        return
    got = get_attr(vc.ctx, msg, 'parsed_rows')
    ok = isinstance(got, list) and len(got) == 1 and isinstance(got[0], tuple) and len(got[0]) == 3
    vc.check('post/one-row-of-three-values', ok)
    if not ok:
        return
    vc.check('secret/decoded-as-its-own-int', (got[0][0] is None) if kinds[0] == 'null' else (got[0][0] is not None and sym.and_(got[0][0] == v)))
    vc.check('token/decoded-as-its-own-blob', (got[0][2] is None) if kinds[1] == 'null' else (isinstance(got[0][2], (bytes, SBytes)) and sym.lift(got[0][2]) == tok))
    vc.check('plain/decoded-normally', sym.and_(got[0][1] == w))
    under = getattr(pol, 'decrypted_under', [])
    want = ([('secret', c_secret)] if c_secret is not None else []) + ([('token', c_token)] if c_token is not None else [])
    vc.check('policy/each-cell-decrypted-under-its-own-column', len(under) == len(want) and all(u[0] == x[0] and u[1].t.eq(x[1].t) for u, x in zip(sorted(under, key=lambda t: t[0]), sorted(want, key=lambda t: t[0]))))
