"""C43 - schema agreement is reported only when all live nodes agree."""
import z3
from pyvc.engine import harness
from pyvc import sym
from pyvc.interp import SObj, PyExc, exc_class, make_exception
from pyvc.libmodels import LockModel, _M
from contracts import rf_common as R

LEVEL = 'proof'
TRUSTED = ['schema versions matter only up to equality: 3 distinct versions + "missing" cover every equality pattern of the local row and up to 2 peer rows (enumerated exhaustively)',
           'E-CLOCK: the control connection\'s clock (_time) is non-decreasing; sleep/poll durations are arbitrary',
           'bounded dimension: up to 2 peers per snapshot and up to 3 polls per wait are unrolled',
           'C14 typestate for the completion of the schema-changing request']
EXPLANATION = 'postconditions on the real ControlConnection._get_schema_mismatches / wait_for_schema_agreement / _refresh_schema and refresh_schema_and_set_result'

CC = 'cassandra.cluster.ControlConnection.'
KF = 'KF-C43-agreed-flag-false-when-metadata-disabled'


class Result(object):
    def __init__(self, names, rows):
        self.column_names, self.parsed_rows = names, rows


@harness('C43', '_get_schema_mismatches', functions=[CC + '_get_schema_mismatches'], native='contracts.native.c43:replay')
def mismatches(vc):
    """ensures the result is None (agreement) exactly when the versions of the control node (if it reports one) and of every peer row
    whose host is known and not marked down form exactly one distinct version; unknown hosts, down hosts and rows without a version
    do not count"""
    from cassandra.cluster import ControlConnection
    vers = ['A', 'B', 'C', None]
    local_v = vc.choice('local_version', vers)
    npeers = vc.choice('peers', [0, 1, 2])
    peers = []
    for i in range(npeers):
        peers.append(dict(version=vc.choice('peer%d_version' % i, vers), known=vc.choice('peer%d_known' % i, [True, False]),
                          is_up=vc.choice('peer%d_is_up' % i, [True, False, None])))

    class HostStub(object):
        def __init__(self, up):
            self.is_up = up

    class Meta(object):
        def get_host(self, endpoint):
            p = peers[endpoint]
            return HostStub(p['is_up']) if p['known'] else None

    class EPF(object):
        def create(self, row):
            return row['idx']

    class Cl(object):
        endpoint_factory = EPF()
        metadata = Meta()
    cc = vc.obj(ControlConnection, _cluster=Cl())
    peers_result = Result(['schema_version', 'idx'], [(p['version'], i) for i, p in enumerate(peers)])
    local_result = Result(['schema_version'], [(local_v,)] if vc.choice('local_row_present', [True, False]) else [])
    r = vc.call(CC + '_get_schema_mismatches', cc, peers_result, local_result, 'local-endpoint')
    counted = set()
    if local_result.parsed_rows and local_v:
        counted.add(local_v)
    for p in peers:
        if p['version'] and p['known'] and p['is_up'] is not False:
            counted.add(p['version'])
    vc.check('post/agreement-iff-exactly-one-version-among-live-known-nodes', (r is None) == (len(counted) == 1))
    if r is not None:
        vc.check('post/mismatch-report-lists-the-versions', set(r.keys()) == counted)
    if npeers == 2:
        vc.must_fail('selfcheck/always-agree', r is None)


@harness('C43', 'wait_for_schema_agreement', functions=[CC + 'wait_for_schema_agreement'], native='contracts.native.c43:replay')
def wait(vc):
    """for every sequence of up to 3 polls (agree / disagree / poll times out) and arbitrary clock readings: ensures True is returned
    exactly when some poll started within the wait budget saw agreement; polling continues while the elapsed time is below the
    budget; False only after the budget is used up; a non-positive budget means 'do not wait' (True)"""
    from cassandra.cluster import ControlConnection
    from cassandra import OperationTimedOut
    ctx = vc.ctx
    total = vc.real('max_schema_agreement_wait')
    polls = [vc.choice('poll%d' % i, ['agree', 'disagree', 'timeout']) for i in range(3)]
    times = [vc.real('t%d' % i) for i in range(5)]
    for a, b in zip(times, times[1:]):
        vc.assume(b >= a)
    state = {'clock': 0, 'poll': 0, 'started_at': []}

    class Clock(object):
        def time(self):
            t = times[min(state['clock'], len(times) - 1)]
            state['clock'] += 1
            return t

        def sleep(self, d):
            pass

    class Conn(object):
        endpoint = 'ep'

        def wait_for_responses(self, *msgs, **kw):
            i = state['poll']
            state['poll'] += 1
            if i >= 3:
                from pyvc.engine import PathAbort
                raise PathAbort('more than 3 polls: outside the unrolled bound')
            state['started_at'].append(state['clock'])
            if polls[i] == 'timeout':
                raise PyExc(make_exception(ctx, OperationTimedOut, [], {}))
            return ('peers%d' % i, 'local%d' % i)

    class Cl(object):
        max_schema_agreement_wait = total
    cc = vc.obj(ControlConnection, _cluster=Cl(), _schema_agreement_lock=LockModel('schema_agreement_lock'), _is_shutdown=False,
                _connection=Conn(), _time=Clock(), _timeout=2.0, _uses_peers_v2=False)
    vc.stub(CC + '_get_peers_query', lambda self_, *a, **k: 'SELECT peers')
    vc.stub(CC + '_get_schema_mismatches', lambda self_, peers_r, local_r, ep: None if polls[int(peers_r[5:])] == 'agree' else {'A': [], 'B': []})
    r = vc.call(CC + 'wait_for_schema_agreement', cc)
    n = state['poll']
    if ctx.branch((total <= 0).t):
        vc.check('nowait/true-without-polling', r is True and n == 0)
        return
    saw = any(polls[i] == 'agree' for i in range(n))
    vc.check('post/true-iff-a-poll-saw-agreement', (r is True) == saw)
    if r is True:
        vc.check('post/stops-at-the-first-agreeing-poll', polls[n - 1] == 'agree' and not any(polls[i] == 'agree' for i in range(n - 1)))
    else:
        vc.check('post/false-not-None-when-budget-used-up', r is False)
        # the last reading of the clock before giving up shows the budget used up
        last = times[min(state['clock'] - 1, len(times) - 1)] if state['clock'] > 0 else times[0]
        vc.check('post/gives-up-only-after-the-budget', last - times[0] >= total)


@harness('C43', 'refresh_schema_and_set_result', functions=['cassandra.cluster.refresh_schema_and_set_result', CC + '_refresh_schema'],
         native='contracts.native.c43:replay')
def set_result(vc):
    """ensures the schema-changing request is completed exactly once and its is_schema_agreed records whether agreement was reached.
    KNOWN FINDING: with schema metadata disabled (or during shutdown) the flag is False although agreement was reached."""
    from cassandra.cluster import ControlConnection
    h1 = R.Host('h1')
    world = R.World(vc, [h1])
    fut = R.make_future(vc, world, R.Session(world, 4), [])
    agreed = vc.choice('agreement_reached', [True, False])
    meta_enabled = vc.choice('schema_metadata_enabled', [True, False])
    refreshed = []

    class Meta(object):
        def refresh(self, *a, **k):
            refreshed.append(1)

    class Cl(object):
        is_shutdown = False
        metadata = Meta()
    cc = vc.obj(ControlConnection, _cluster=Cl(), _schema_meta_enabled=meta_enabled, _timeout=2.0)
    vc.stub(CC + 'wait_for_schema_agreement', lambda self_, *a, **k: agreed)
    vc.call('cassandra.cluster.refresh_schema_and_set_result', cc, fut, world.pools[h1].conn)
    vc.check('post/completed-exactly-once-with-a-result', fut.ghost['completions'] == [('result', None)])
    flag = fut.attrs['is_schema_agreed']
    if meta_enabled or not agreed:
        vc.check('post/flag-records-agreement', flag is agreed)
        vc.check('post/metadata-refreshed-iff-agreed', (len(refreshed) == 1) == agreed)
    else:
        vc.check('KF:%s/flag-records-agreement' % KF, flag is agreed)


@harness('C43', '_set_result[schema-change]', functions=[R.RF + '_set_result'], native='contracts.native.c43:replay')
def schema_change_response(vc):
    """ensures on a SCHEMA_CHANGE result the request is NOT completed yet, is marked 'agreement not reached so far', and exactly one
    continuation refresh_schema_and_set_result(control connection, this future, connection, **event) is submitted"""
    from cassandra.protocol import ResultMessage, RESULT_KIND_SCHEMA_CHANGE
    h1 = R.Host('h1')
    world = R.World(vc, [h1])
    session = R.Session(world, 4)
    fut = R.make_future(vc, world, session, [])
    pool, conn = world.pools[h1], world.pools[h1].conn
    resp = vc.obj(ResultMessage, kind=RESULT_KIND_SCHEMA_CHANGE, schema_change_event={'target_type': 'KEYSPACE', 'keyspace': 'k'})
    vc.call(R.RF + '_set_result', fut, h1, conn, pool, resp)
    subs = world.submitted()
    vc.check('post/not-completed-yet', fut.ghost['completions'] == [])
    vc.check('post/marked-not-agreed-until-the-wait-finishes', fut.attrs['is_schema_agreed'] is False)
    vc.check('post/one-continuation', len(subs) == 1 and getattr(subs[0][1], '__name__', '') == 'refresh_schema_and_set_result'
             and subs[0][2][1] is fut and subs[0][2][2] is conn and subs[0][3] == {'target_type': 'KEYSPACE', 'keyspace': 'k'})


@harness('C43', 'refresh_schema_and_set_result[error]', functions=['cassandra.cluster.refresh_schema_and_set_result'], native='contracts.native.c43:replay_error_path')
def set_result_error(vc):
    """ensures when waiting for agreement fails with an exception the request is still completed exactly once, its flag is left as it
    was (not agreed) and a later refresh is scheduled"""
    from cassandra.cluster import ControlConnection
    h1 = R.Host('h1')
    world = R.World(vc, [h1])
    fut = R.make_future(vc, world, R.Session(world, 4), [])
    fut.attrs['is_schema_agreed'] = False
    cc = vc.obj(ControlConnection)

    def boom(self_, *a, **k):
        raise PyExc(SObj(Exception, {'args': ('connection lost',)}))
    vc.stub(CC + '_refresh_schema', boom)
    vc.call('cassandra.cluster.refresh_schema_and_set_result', cc, fut, world.pools[h1].conn)
    vc.check('post/completed-exactly-once', fut.ghost['completions'] == [('result', None)])
    vc.check('post/flag-stays-not-agreed', fut.attrs['is_schema_agreed'] is False)
    vc.check('post/refresh-rescheduled', len(world.submitted()) == 1)


# "every known peer not marked down": agreement is asked of the hosts whose is_up is not False, so the verdict is only as good as that mark.  A DOWN signal that the
# cluster discounts - some session still has open connections to the host, which therefore keeps serving requests with whatever schema it has - must leave the mark
# alone; only a signal that is acted on marks the host down.  Contract on the real Cluster.on_down (its reconnection side is C25's).
from contracts import c25_host_state as _C25


@harness('C43', 'discounted-down-signal-leaves-the-host-live', functions=['cassandra.cluster.Cluster.on_down'], native='contracts.native.c43:replay_discounted')
def discounted_down(vc):
    """ensures with down events discounted: while any session has an open connection to the host, a DOWN signal changes nothing (host still marked up, nobody
    notified, no reconnection series); when no session has one (no pool, or a pool with open_count 0) the host is marked down"""
    from cassandra.cluster import Cluster
    counts = vc.choice('open_connections_per_session', [(0, 0), (0, 2), (1, 0), (None, None), (None, 1)])
    cl, host, sess, log = _C25._world(vc, sessions=('ok', 'ok'), is_up=True)
    cl.attrs['_discount_down_events'] = True
    for s, n in zip(sess, counts):
        s.get_pool_state = (lambda n=n: {} if n is None else {host: {'open_count': n}})
    vc.call(Cluster.__dict__['on_down'].__wrapped__, cl, host, False)
    if any(n for n in counts if n):
        vc.check('connected/host-still-marked-up', host.attrs['is_up'] is True)
        vc.check('connected/nobody-told-nothing-started', not [e for e in log if e[0].endswith('on_down') or e[0] == 'schedule'])
    else:
        vc.check('not-connected/host-marked-down', host.attrs['is_up'] is False)
