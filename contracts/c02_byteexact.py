"""C02 - serialized bytes are exactly Cassandra's; out-of-range values raise."""
from contracts import codec_common as K

LEVEL = 'proof'
TRUSTED = ['E-DATETIME: a datetime is an integer count of microseconds since 1970-01-01 UTC within years 1..9999; calendar.timegm(dt.utctimetuple()) is its floor seconds, dt.microsecond the remainder; timedelta(milliseconds=k) is exactly 1000k microseconds and datetime + timedelta adds or raises OverflowError (contracts/codec_common.py _stub_datetime; probed by the bounded timestamp stand-ins on the real library); date * 1e3 is real arithmetic (A-REAL)',
           'E-STRUCT: struct.Struct(fmt).pack/unpack are big-endian two\'s complement on the type\'s range and raise struct.error outside it',
           'E-FLOAT: IEEE pack/unpack are inverse (binary32 rounds once)', 'A-TYPES: argument kinds as declared per harness',
           'spec functions in spec/cser.py are the oracle (transcribed from Cassandra\'s serializers)']
EXPLANATION = 'postcondition serialize(v) == spec bytes, discharged per path by z3 over mathematical integers and Seq(Int)'

for _c, _w, _s in K.FIXED_INTS:
    K.mk_fixed_int('C02', _c, _w, _s)
    K.mk_decode_any('C02', _c, _w, _s)
K.mk_boolean('C02')
K.mk_simpledate('C02')
K.mk_time('C02')
K.mk_timestamp('C02')
K.mk_zigzag('C02')
K.mk_vints_pack('C02', 1)
K.mk_vints_pack('C02', 2)
K.mk_uvint('C02')
from contracts import varint_common as V
V.mk_varint_pack('C02')
TRUSTED += V.LEMMAS
LEAN_LEMMAS = V.LEAN_LEMMAS

# collections, tuples and UDTs: Cassandra's element layout ([int32 length][bytes], -1 for null) byte for byte, and "any encoding Cassandra produces decodes to the
# value Cassandra means by it" - in particular a zero-length element of a type whose empty encoding is a value (text, blob) is that value, not null
K.mk_listlike('C02', 'ListType', False)
K.mk_tuple('C02', False)
K.mk_tuple('C02', False, empty_ok=True)
K.mk_tuple('C02', True)
K.mk_tuple('C02', True, empty_ok=True)

from contracts import bounded_codec as B
BOUNDED = [B.out_of_range_vints, B.decimal_exact, B.struct_probe, B.timestamp_encode_exact]
EXPLANATION += '; bounded stand-ins (labelled, not proof): out-of-range vints must raise, DecimalType byte-exact, struct/hex conformance probes'
