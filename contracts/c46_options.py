"""C46 - per-statement options override execution-profile / session defaults."""
import time
import z3
from pyvc.engine import harness
from pyvc import sym
from pyvc.sym import SInt, SBool
from pyvc.interp import SObj, PyExc, exc_class
from pyvc.libmodels import _M

LEVEL = 'proof'
TRUSTED = ['A-TYPES: consistency levels / fetch sizes are ints or None, policies are opaque objects',
           'the ResponseFuture constructor is replaced by a recorder of its arguments (its behaviour is C14-C17)',
           'encoding of the message fields onto the wire is C03\'s contract; re-discharged here for the option fields on v2 / v4 / v5 (other versions and options: C03)']
EXPLANATION = 'symbolic option lattice (every statement/profile/session option set or unset at once) through the real Session._create_response_future and the real message constructors'

SQ = 'cassandra.cluster.Session._create_response_future'
PVS = (1, 2, 3, 4, 5, 6, 0x41, 0x42)


_VARY = set()


def _on(group):
    return 'all' in _VARY or group in _VARY


def _opt_int(vc, name, group='cl', serial=False):
    if not _on(group):
        return None
    if vc.ctx.branch(vc.bool(name + '_unset').t):
        return None
    v = vc.int(name)
    if serial:
        vc.assume(sym.or_(v == 8, v == 9))
    return v


_TARGET = None      # set by C17's forwarding harness: the explicitly targeted host handed to _create_response_future


class _Obj(object):
    def __init__(self, name):
        self.name = name

    def __repr__(self):
        return '<%s>' % self.name


def _opt_obj(vc, name, group='objects'):
    if not _on(group):
        return None
    if vc.ctx.branch(vc.bool(name + '_unset').t):
        return None
    from cassandra.policies import RetryPolicy
    r = RetryPolicy()
    r.name = name
    return r


def _choice(vc, name, options, group):
    return vc.choice(name, options) if _on(group) else options[0]


def first_set(a, b):
    return a if a is not None else b


def create_future(vc, vary='all', kind=None):
    """Run the real _create_response_future over a symbolic option lattice (the option groups named in `vary` are set/unset
    symbolically, the others are left unset); returns (ResponseFuture kwargs, context) or None."""
    global _VARY, _TARGET
    _VARY = set([vary] if isinstance(vary, str) else vary)
    from cassandra import cluster as C
    from cassandra.query import SimpleStatement, BoundStatement, BatchStatement, PreparedStatement, FETCH_SIZE_UNSET
    from cassandra.cluster import ExecutionProfile, Session, _ConfigMode, _NOT_SET, EXEC_PROFILE_DEFAULT
    ctx = vc.ctx
    pv = _choice(vc, 'protocol_version', [4, 1, 2, 3, 5, 6, 0x41, 0x42], 'pv')
    legacy = vc.choice('legacy_mode', [False, True])
    kind = kind or vc.choice('statement_kind', ['simple', 'bound', 'batch'])
    captured = {}

    def rf(session, message, query, timeout, **kw):
        captured.update(kw)
        captured.update(session=session, message=message, query=query, timeout=timeout)
        return 'FUTURE'
    vc.stub(C.ResponseFuture, rf)
    # statement-level options
    s_cl, s_scl = _opt_int(vc, 'stmt_cl'), _opt_int(vc, 'stmt_serial_cl', serial=True)
    s_retry = _opt_obj(vc, 'stmt_retry_policy')
    # the statement's page size: left unset (the session default applies), explicitly None (paging switched off for this statement - a setting, not "unset"), or a number
    s_fetch = FETCH_SIZE_UNSET if (not _on('fetch') or ctx.branch(vc.bool('stmt_fetch_unset').t)) else (None if ctx.branch(vc.bool('stmt_fetch_is_none').t) else vc.int('stmt_fetch_size'))
    idem = _choice(vc, 'is_idempotent', [True, False], 'idempotence')
    s_ks = 'stmt_ks' if _choice(vc, 'stmt_has_keyspace', [True, False], 'keyspace') else None
    common = dict(consistency_level=s_cl, serial_consistency_level=s_scl, retry_policy=s_retry, fetch_size=s_fetch,
                  is_idempotent=idem, custom_payload=None, keyspace=s_ks)
    if kind == 'simple':
        query = vc.obj(SimpleStatement, query_string='SELECT 1', **common)
    elif kind == 'bound':
        ps = vc.obj(PreparedStatement, query_id=b'qid', result_metadata=[], result_metadata_id=None, is_idempotent=True)
        query = vc.obj(BoundStatement, prepared_statement=ps, values=[b'v'], **common)
    else:
        if pv < 2:
            return None
        query = vc.obj(BatchStatement, batch_type=_Obj('LOGGED'), _statements_and_parameters=[], **common)
    # profile-level / session-level options
    p_cl, p_scl = vc.int('profile_cl'), _opt_int(vc, 'profile_serial_cl', serial=True)
    p_retry, p_rowf, p_lbp = _Obj('profile_retry'), _Obj('profile_row_factory'), _Obj('profile_lbp')
    p_timeout = vc.real('profile_timeout')
    plan = _Obj('speculative_plan')

    class SpecPolicy(object):
        def new_plan(self, keyspace, statement):
            captured['spec_args'] = (keyspace, statement)
            return plan
    p_spec = SpecPolicy() if _choice(vc, 'profile_has_spec_policy', [True, False], 'idempotence') else None
    profile = vc.obj(ExecutionProfile, consistency_level=p_cl, serial_consistency_level=p_scl, retry_policy=p_retry, row_factory=p_rowf,
                     load_balancing_policy=p_lbp, request_timeout=p_timeout, speculative_execution_policy=p_spec, continuous_paging_options=None)
    d_cl, d_scl = vc.int('session_default_cl'), _opt_int(vc, 'session_default_serial_cl', serial=True)
    d_retry, d_rowf, d_lbp = _Obj('session_retry'), _Obj('session_row_factory'), _Obj('session_lbp')
    d_timeout = vc.real('session_default_timeout')
    d_fetch = vc.int('session_default_fetch_size')
    ts = vc.int('generated_timestamp')

    class Cl(object):
        _config_mode = _ConfigMode.LEGACY if legacy else _ConfigMode.PROFILES
        default_retry_policy = d_retry
        load_balancing_policy = d_lbp
        allow_beta_protocol_version = False

        def timestamp_generator(self):
            return ts
    use_ts = _choice(vc, 'use_client_timestamp', [True, False], 'timestamp')
    sess = vc.obj(Session, cluster=Cl(), default_timeout=d_timeout, default_consistency_level=d_cl,
                  default_serial_consistency_level=d_scl, row_factory=d_rowf if legacy else p_rowf, _protocol_version=pv,
                  use_client_timestamp=use_ts, default_fetch_size=d_fetch, encoder=None, _metrics=None, keyspace='session_ks')
    explicit_timeout = None if _choice(vc, 'timeout_given', [False, True], 'objects') is False else vc.real('explicit_timeout')
    vc.stub(time.time, lambda: vc.ctx.fresh_real('now', register=False))
    kindr, res = vc.call_catch(SQ, sess, query, None, False, None,
                               _NOT_SET if explicit_timeout is None else explicit_timeout,
                               execution_profile=EXEC_PROFILE_DEFAULT if legacy else profile, host=_TARGET)
    info = dict(pv=pv, legacy=legacy, kind=kind, query=query, is_idempotent=idem, policy_plan=plan, has_spec=(p_spec is not None and not legacy),
                cl=first_set(s_cl, d_cl if legacy else p_cl), serial_cl=first_set(s_scl, d_scl if legacy else p_scl),
                retry=first_set(s_retry, d_retry if legacy else p_retry), row_factory=d_rowf if legacy else p_rowf,
                lbp=d_lbp if legacy else p_lbp, timeout=explicit_timeout if explicit_timeout is not None else (d_timeout if legacy else p_timeout),
                fetch=(None if pv == 1 else (d_fetch if s_fetch is FETCH_SIZE_UNSET else s_fetch)),
                timestamp=(ts if (pv >= 3 and use_ts) else None), stmt_ks=(s_ks if pv in (5, 6, 0x42) else None),
                result=(kindr, res), captured=captured)
    if kindr != 'ok':
        return ({}, info)
    return (captured, info)


def _same(a, b):
    if a is None or b is None:
        return a is b
    if isinstance(a, _Obj) or isinstance(b, _Obj):
        return a is b
    return a is b or (sym.is_sym(a) and sym.is_sym(b) and a == b)


def _mk_precedence(groups):
    name = 'option-precedence[%s]' % '+'.join(groups)

    @harness('C46', name, functions=[SQ, 'cassandra.cluster.Session._maybe_get_execution_profile'], native='contracts.native.c46:replay')
    def precedence(vc):
        r = create_future(vc, vary=groups)
        if r is None:
            return
        kw, I = r
        vc.check('post/does-not-raise', I['result'][0] == 'ok')
        if I['result'][0] != 'ok':
            return
        msg = kw['message']
        vc.check('post/consistency-level', _same(msg.attrs['consistency_level'], I['cl']))
        vc.check('post/serial-consistency-level', _same(msg.attrs['serial_consistency_level'], I['serial_cl']))
        vc.check('post/retry-policy', kw['retry_policy'] is I['retry'])
        vc.check('post/timeout', _same(kw['timeout'], I['timeout']))
        vc.check('post/row-factory', kw['row_factory'] is I['row_factory'])
        vc.check('post/load-balancer', kw['load_balancer'] is I['lbp'])
        vc.check('post/timestamp', _same(msg.attrs['timestamp'], I['timestamp']))
        if I['kind'] != 'batch':
            vc.check('post/fetch-size', _same(msg.attrs['fetch_size'], I['fetch']))
        if I['kind'] in ('simple', 'batch'):
            vc.check('post/keyspace-only-when-protocol-carries-it', _same(msg.attrs['keyspace'], I['stmt_ks']))
        vc.check('post/statement-passed', kw['query'] is I['query'])
        want_plan = I['policy_plan'] if (I['is_idempotent'] and I['has_spec']) else None
        vc.check('post/speculative-plan-only-for-idempotent', kw['speculative_execution_plan'] is want_plan)
        if 'cl' in groups and I['kind'] == 'simple' and not I['legacy']:
            vc.must_fail('selfcheck/statement-level-never-wins', _same(msg.attrs['consistency_level'], I['captured']['message'].attrs['consistency_level'])
                         and sym.SBool(z3.BoolVal(False)) if False else sym.SBool(sym.as_int_term(msg.attrs['consistency_level']) == z3.Int('profile_cl')))
    precedence.__doc__ = ('option groups %s set/unset symbolically x legacy/profile mode x statement kind: the message and the future get '
                          'first_not_none(statement, profile | session default) for every option; others as documented' % (groups,))
    return precedence


_mk_precedence(['cl'])
_mk_precedence(['objects'])
_mk_precedence(['fetch', 'pv'])
_mk_precedence(['timestamp', 'pv'])
_mk_precedence(['keyspace', 'pv'])
_mk_precedence(['idempotence'])


@harness('C46', 'legacy-rejects-profile', functions=[SQ], native='contracts.native.c46:replay')
def legacy_rejects(vc):
    """ensures legacy configuration mode rejects an explicitly given execution profile"""
    from cassandra import cluster as C
    from cassandra.query import SimpleStatement, FETCH_SIZE_UNSET
    from cassandra.cluster import Session, _ConfigMode, _NOT_SET

    class Cl(object):
        _config_mode = _ConfigMode.LEGACY
    sess = vc.obj(Session, cluster=Cl())
    q = vc.obj(SimpleStatement, query_string='x', consistency_level=None, serial_consistency_level=None, retry_policy=None,
               fetch_size=FETCH_SIZE_UNSET, is_idempotent=False, custom_payload=None, keyspace=None)
    kind, e = vc.call_catch(SQ, sess, q, None, False, None, _NOT_SET, execution_profile='some-profile')
    vc.check('raises/ValueError', kind == 'exc' and issubclass(exc_class(e), ValueError))


@harness('C46', 'bound-statement-inherits', functions=['cassandra.query.BoundStatement.__init__'], native='contracts.native.c46:replay')
def bound_inherits(vc):
    """ensures a BoundStatement takes retry policy, consistency, fetch size, serial consistency, keyspace and idempotence from its
    PreparedStatement unless the caller passes its own"""
    from cassandra.query import BoundStatement, PreparedStatement, FETCH_SIZE_UNSET
    global _VARY
    _VARY = {'all'}
    p_cl, p_scl = _opt_int(vc, 'prepared_cl'), _opt_int(vc, 'prepared_serial_cl', serial=True)
    p_fetch = FETCH_SIZE_UNSET if vc.ctx.branch(vc.bool('prepared_fetch_unset').t) else vc.int('prepared_fetch_size')
    p_retry = _opt_obj(vc, 'prepared_retry_policy')
    idem = vc.choice('prepared_is_idempotent', [True, False])
    ps = vc.obj(PreparedStatement, consistency_level=p_cl, fetch_size=p_fetch, retry_policy=p_retry,
                custom_payload=None, keyspace='ks', is_idempotent=idem, column_metadata=[], routing_key_indexes=None, serial_consistency_level=p_scl,
                result_metadata=None, column_encryption_policy=None)
    own_cl = _opt_int(vc, 'own_cl')
    own_retry = _opt_obj(vc, 'own_retry_policy')
    bs = vc.obj(BoundStatement)
    vc.call('cassandra.query.BoundStatement.__init__', bs, ps, retry_policy=own_retry, consistency_level=own_cl)
    vc.check('post/consistency', _same(bs.attrs.get('consistency_level'), first_set(own_cl, p_cl)))
    vc.check('post/retry-policy', bs.attrs.get('retry_policy') is first_set(own_retry, p_retry))
    from pyvc.interp import get_attr
    vc.check('post/serial-consistency', _same(get_attr(vc.ctx, bs, 'serial_consistency_level'), p_scl))
    vc.check('post/fetch-size', _same(bs.attrs.get('fetch_size'), p_fetch))
    vc.check('post/idempotence', bs.attrs.get('is_idempotent') is idem)
    vc.check('post/prepared-statement', bs.attrs.get('prepared_statement') is ps)


@harness('C46', 'ExecutionProfile.__init__', functions=['cassandra.cluster.ExecutionProfile.__init__'], native='contracts.native.c46:replay')
def profile_init(vc):
    """the profile a request falls back to holds what its author wrote: ensures every option given to ExecutionProfile(...) - including falsy ones
    (consistency ANY == 0, timeout None or 0.0) - is stored unchanged, an option left out gets the documented default (LOCAL_ONE, 10.0 s, named tuples, a
    RetryPolicy, no speculative execution, the default load balancer) and whether consistency / load balancing were explicit is remembered; a non-serial serial
    consistency is rejected"""
    from cassandra import ConsistencyLevel
    from cassandra import cluster as C
    from cassandra.cluster import ExecutionProfile
    from cassandra.policies import RetryPolicy, NoSpeculativeExecutionPolicy
    from cassandra.query import named_tuple_factory
    default_lbp = _Obj('default-lbp')
    vc.stub(C.default_lbp_factory, lambda: default_lbp)
    given = {}
    kw = {}
    for name, values in (('load_balancing_policy', [_Obj('lbp')]), ('retry_policy', [_Obj('retry')]), ('row_factory', [_Obj('row_factory')]),
                         ('speculative_execution_policy', [_Obj('spec')]), ('continuous_paging_options', [_Obj('cp')]),
                         ('request_timeout', [None, 0.0, 2.5])):
        pick = vc.choice(name, ['<left out>'] + list(range(len(values))))
        if pick != '<left out>':
            kw[name] = given[name] = values[pick]
    if vc.choice('consistency_given', [False, True]):
        cl = vc.int('consistency_level')
        vc.assume(sym.and_(cl >= 0, cl <= 10))
        kw['consistency_level'] = given['consistency_level'] = cl
    scl_kind = vc.choice('serial_consistency', ['<left out>', 'SERIAL', 'LOCAL_SERIAL', 'QUORUM'])
    if scl_kind != '<left out>':
        kw['serial_consistency_level'] = getattr(ConsistencyLevel, scl_kind)
    p = vc.obj(ExecutionProfile)
    k, r = vc.call_catch('cassandra.cluster.ExecutionProfile.__init__', p, **kw)
    if scl_kind == 'QUORUM':
        vc.check('serial/non-serial-level-rejected', k == 'exc' and issubclass(exc_class(r), ValueError))
        return
    vc.check('post/constructed', k == 'ok')
    if k != 'ok':
        return
    a = p.attrs
    for name in ('load_balancing_policy', 'retry_policy', 'row_factory', 'speculative_execution_policy', 'continuous_paging_options', 'request_timeout'):
        if name in given:
            vc.check('given/%s-stored-unchanged' % name, a.get(name) is given[name] or (not isinstance(given[name], _Obj) and a.get(name) == given[name] and type(a.get(name)) is type(given[name])))
    if 'consistency_level' in given:
        vc.check('given/consistency-stored-unchanged-even-when-zero', sym.and_(a.get('consistency_level') == given['consistency_level']) and a.get('_consistency_level_explicit') is True)
    else:
        vc.check('default/consistency-LOCAL_ONE', a.get('consistency_level') == ConsistencyLevel.LOCAL_ONE and a.get('_consistency_level_explicit') is False)
    vc.check('post/serial-consistency', a.get('serial_consistency_level') == (None if scl_kind == '<left out>' else getattr(ConsistencyLevel, scl_kind)))
    if 'load_balancing_policy' not in given:
        vc.check('default/load-balancer', a.get('load_balancing_policy') is default_lbp and a.get('_load_balancing_policy_explicit') is False)
    else:
        vc.check('given/load-balancer-marked-explicit', a.get('_load_balancing_policy_explicit') is True)
    if 'retry_policy' not in given:
        vc.check('default/retry-policy', exc_class(a.get('retry_policy')) is RetryPolicy or type(a.get('retry_policy')) is RetryPolicy)
    if 'speculative_execution_policy' not in given:
        vc.check('default/no-speculative-execution', exc_class(a.get('speculative_execution_policy')) is NoSpeculativeExecutionPolicy or type(a.get('speculative_execution_policy')) is NoSpeculativeExecutionPolicy)
    if 'row_factory' not in given:
        vc.check('default/row-factory', a.get('row_factory') is named_tuple_factory)
    if 'request_timeout' not in given:
        vc.check('default/timeout-10s', a.get('request_timeout') == 10.0)
    if 'continuous_paging_options' not in given:
        vc.check('default/no-continuous-paging', a.get('continuous_paging_options') is None)


# "... and the encoded request carries exactly those values": the message attributes checked above reach the wire through the send_body methods whose layout is
# C03's contract.  It is re-discharged here for the option fields this property is about (consistency, serial consistency, page size, client timestamp) on a
# protocol without (v2), with (v4) and with wide (v5) flags.
from contracts import c03_requests as _C03
for _pv in (2, 4, 5):
    _C03._mk_query_like('QUERY', _pv, prop='C46', opt_fn=_C03.statement_option_fields, label='encoded-')
    _C03._mk_query_like('EXECUTE', _pv, prop='C46', opt_fn=_C03.statement_option_fields, label='encoded-')
    _C03._mk_batch(_pv, prop='C46', label='encoded-', entries=(1,))


@harness('C46', 'execution_profile_clone_update', functions=['cassandra.cluster.Session.execution_profile_clone_update'], native='contracts.native.c46:replay')
def clone_update(vc):
    """a profile derived for one request (session.execution_profile_clone_update(base, option=value, ...)): ensures the clone holds exactly the given values for the
    options named - None included: that is how a derived profile switches a serial consistency or a timeout OFF - every other option as the base has it, and the base is untouched"""
    from cassandra.cluster import Session, ExecutionProfile
    base_vals = dict(load_balancing_policy=_Obj('lbp'), retry_policy=_Obj('retry'), consistency_level=6, serial_consistency_level=8, request_timeout=2.5,
                     row_factory=_Obj('rowf'), speculative_execution_policy=_Obj('spec'), continuous_paging_options=None)
    base = vc.obj(ExecutionProfile, **base_vals)
    sess = vc.obj(Session)
    vc.stub('cassandra.cluster.Session._maybe_get_execution_profile', lambda self_, ep: ep)
    upd = {}
    for name, values in (('serial_consistency_level', [None, 9]), ('request_timeout', [None, 0.0, 7.0]), ('consistency_level', [0, 4]), ('retry_policy', [_Obj('retry2')])):
        pick = vc.choice(name, ['<left alone>'] + list(range(len(values))))
        if pick != '<left alone>':
            upd[name] = values[pick]
    clone = vc.call('cassandra.cluster.Session.execution_profile_clone_update', sess, base, **upd)
    ca = clone.attrs if hasattr(clone, 'attrs') else vars(clone)
    same = lambda x, y: x is y or (not isinstance(x, _Obj) and not isinstance(y, _Obj) and x == y and type(x) is type(y))
    vc.check('clone/is-a-new-profile', clone is not base)
    vc.check('clone/named-options-take-the-given-values-None-included', all(same(ca.get(k), v) for k, v in upd.items()))
    vc.check('clone/other-options-as-the-base', all(same(ca.get(k), v) for k, v in base_vals.items() if k not in upd))
    vc.check('base/untouched', all(same(base.attrs.get(k), v) for k, v in base_vals.items()))
