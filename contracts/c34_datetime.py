"""C34 - date, time and time-UUID helpers convert consistently."""
import os
import z3
from pyvc.engine import harness
from pyvc import sym
from pyvc.sym import SInt, SReal
from pyvc.interp import SObj, PyExc, exc_class, get_attr
from pyvc.libmodels import _M

LEVEL = 'other'
TRUSTED = ['E-DATETIME: calendar.timegm(timetuple of instant x) is x\'s whole seconds since 1970-01-01 UTC (an arbitrary integer here); datetime.time(...) stores its arguments; '
           'the calendar arithmetic of datetime/timedelta/strptime/string formatting is covered by the bounded stand-in only',
           'A-REAL: the float products time*1e6, microseconds*10 and the quotient /1e7 in uuid_from_time / unix_time_from_uuid1 are exact real arithmetic in the deductive part; how far binary64 '
           'departs from that is measured by the bounded stand-in (and is the subject of the recorded finding for far-future instants)',
           'E-UUID: uuid.UUID(fields=..., version=1) packs the six fields, forces variant bits 10 and version nibble 1 (CPython uuid.py); E-RANDOM: getrandbits(k) is in [0, 2^k)',
           'Cassandra TimeUUIDType order (TimeUUIDType.compareCustom): by 60-bit timestamp, then the 8 low bytes compared as SIGNED bytes lexicographically']
EXPLANATION = 'integer postconditions on the real Time / Date constructors and accessors, uuid_from_time / min_uuid_from_time / max_uuid_from_time / unix_time_from_uuid1 over a symbolic instant, node and clock sequence; bounded calendar/string round trips'

U = 'cassandra.util.'
TIER = os.environ.get('VERIF_TIER', 'quick')
DAY_NS = 86400 * 10 ** 9
K = 0x01b21dd213814000


class _T(object):
    """a datetime.time-like value with symbolic components"""
    def __init__(self, h, m, s, us):
        self.hour, self.minute, self.second, self.microsecond = h, m, s, us


@harness('C34', 'Time', functions=[U + 'Time.' + n for n in ('__init__', '_from_timestamp', '_from_time', 'hour', 'minute', 'second', 'nanosecond', 'time', '__eq__', '__lt__')],
         native='contracts.native.c34:replay')
def time_type(vc):
    """ensures Time(ns) is accepted iff 0 <= ns < 86 400 000 000 000 (ValueError otherwise) and keeps ns; hour*HOUR + minute*MINUTE + second*SECOND + nanosecond == ns with
    0<=hour<24, 0<=minute<60, 0<=second<60, 0<=nanosecond<10^9; Time(time(h,m,s,us)) has exactly that time of day and .time() gives back (h,m,s,us) [nanoseconds truncated to
    microseconds]; == and < compare the nanosecond values"""
    from cassandra.util import Time
    import datetime
    ns = vc.int('nanoseconds')
    k, t = vc.call_catch(Time, ns)
    valid = vc.ctx.branch(sym.and_(ns >= 0, ns < DAY_NS).t)
    if not valid:
        vc.check('int/outside-one-day-rejected-with-ValueError', k == 'exc' and issubclass(exc_class(t), ValueError))
    else:
        vc.check('int/accepted', k == 'ok')
        if k == 'ok':
            vc.check('int/keeps-the-nanoseconds', get_attr(vc.ctx, t, 'nanosecond_time') == ns)
            h, m, s, n = [get_attr(vc.ctx, t, a) for a in ('hour', 'minute', 'second', 'nanosecond')]
            vc.check('components/recompose-to-the-nanoseconds', h * (3600 * 10 ** 9) + m * (60 * 10 ** 9) + s * 10 ** 9 + n == ns)
            vc.check('components/in-range', sym.and_(h >= 0, h < 24, m >= 0, m < 60, s >= 0, s < 60, n >= 0, n < 10 ** 9))
            seen = {}
            vc.stub(datetime.time, lambda *a, **kw: seen.update(kw) or 'TIME-OBJECT')
            r = vc.call(U + 'Time.time', t)
            vc.check('time()/built-in-time-with-the-same-components', r == 'TIME-OBJECT' and set(seen) == {'hour', 'minute', 'second', 'microsecond'} and
                     sym.and_(seen['hour'] == h, seen['minute'] == m, seen['second'] == s, seen['microsecond'] * 1000 <= n, n < seen['microsecond'] * 1000 + 1000))
            vc.must_fail('selfcheck/hour-is-always-zero', h == 0)
    # from a time of day
    hh, mm, ss, us = vc.int('hour'), vc.int('minute'), vc.int('second'), vc.int('microsecond')
    vc.assume(sym.and_(hh >= 0, hh < 24, mm >= 0, mm < 60, ss >= 0, ss < 60, us >= 0, us < 10 ** 6))
    t2 = vc.obj(Time, nanosecond_time=0)
    vc.call(U + 'Time._from_time', t2, _T(hh, mm, ss, us))
    n2 = get_attr(vc.ctx, t2, 'nanosecond_time')
    vc.check('from-time/exact-nanoseconds-of-the-time-of-day', n2 == ((hh * 60 + mm) * 60 + ss) * 10 ** 9 + us * 1000)
    vc.check('from-time/within-one-day', sym.and_(n2 >= 0, n2 < DAY_NS))
    # one component per obligation (a single floor division by a large constant each): the conjunction took the solvers several seconds and went
    # undecided on a loaded machine
    vc.check('from-time/components-read-back/hour', get_attr(vc.ctx, t2, 'hour') == hh)
    vc.check('from-time/components-read-back/minute', get_attr(vc.ctx, t2, 'minute') == mm)
    # lemma chain for the seconds (checked, then used): the whole seconds of the day are (hh*60+mm)*60+ss, whose remainder mod 60 is ss
    whole = (hh * 60 + mm) * 60 + ss
    vc.check('from-time/lemma/whole-seconds-of-the-day', n2 // 10 ** 9 == whole)
    vc.assume(n2 // 10 ** 9 == whole)
    vc.check('from-time/components-read-back/second', get_attr(vc.ctx, t2, 'second') == ss)
    vc.check('from-time/components-read-back/nanosecond', get_attr(vc.ctx, t2, 'nanosecond') == us * 1000)
    # comparisons
    a, b = vc.int('ns_a'), vc.int('ns_b')
    ta, tb = vc.obj(Time, nanosecond_time=a), vc.obj(Time, nanosecond_time=b)
    vc.check('eq/by-nanoseconds', sym.lift(vc.call(U + 'Time.__eq__', ta, tb)) == (a == b))
    vc.check('lt/by-nanoseconds', sym.lift(vc.call(U + 'Time.__lt__', ta, tb)) == (a < b))


@harness('C34', 'Date', functions=[U + 'Date.' + n for n in ('__init__', 'seconds', '_from_timetuple', '__eq__', '__lt__')], native='contracts.native.c34:replay')
def date_type(vc):
    """ensures Date(d).days_from_epoch == d for every integer d (negative too) and seconds == 86400 d; a date/datetime whose instant is s seconds into day d (timegm = 86400 d + s,
    0 <= s < 86400, d of either sign) gives days_from_epoch == d; == and < compare day counts"""
    from cassandra.util import Date
    import calendar
    d = vc.int('days')
    dt = vc.call(Date, d)
    vc.check('int/keeps-the-day-count', get_attr(vc.ctx, dt, 'days_from_epoch') == d)
    vc.check('seconds/86400-per-day', get_attr(vc.ctx, dt, 'seconds') == d * 86400)
    s = vc.int('second_of_day')
    vc.assume(sym.and_(s >= 0, s < 86400))
    vc.stub(calendar.timegm, lambda tt: d * 86400 + s)
    d2 = vc.obj(Date, days_from_epoch=0)
    vc.call(U + 'Date._from_timetuple', d2, 'TIMETUPLE')
    vc.check('from-date/day-count-floors-toward-minus-infinity', get_attr(vc.ctx, d2, 'days_from_epoch') == d)
    a, b = vc.int('days_a'), vc.int('days_b')
    da, db = vc.obj(Date, days_from_epoch=a), vc.obj(Date, days_from_epoch=b)
    vc.check('eq/by-day-count', sym.lift(vc.call(U + 'Date.__eq__', da, db)) == (a == b))
    vc.check('lt/by-day-count', sym.lift(vc.call(U + 'Date.__lt__', da, db)) == (a < b))
    vc.check('eq/against-an-int', sym.lift(vc.call(U + 'Date.__eq__', da, b)) == (a == b))


def _signed_bytes_key(vc, lsb):
    """the 8 low bytes of a uuid (as an integer < 2^64) as signed bytes, most significant first"""
    out = []
    for k in range(7, -1, -1):
        byte = (lsb // (1 << (8 * k))) % 256
        out.append(sym.ite(byte >= 128, byte - 256, byte))
    return out


def _lex_le(xs, ys):
    """xs <= ys lexicographically"""
    acc = True
    for x, y in reversed(list(zip(xs, ys))):
        acc = sym.or_(x < y, sym.and_(x == y, acc))
    return acc


@harness('C34', 'time-uuid', functions=[U + n for n in ('uuid_from_time', 'min_uuid_from_time', 'max_uuid_from_time', 'unix_time_from_uuid1')], native='contracts.native.c34:replay')
def time_uuid(vc):
    """for every instant (whole microseconds t_us, 0 <= 10 t_us + K < 2^60), node < 2^48 and clock sequence < 2^14 (given or random):
    ensures uuid_from_time(t) is a version-1, RFC-4122-variant uuid whose 60-bit timestamp is exactly 10 t_us + 0x01b21dd213814000, with the given node and clock sequence;
    unix_time_from_uuid1 of it is t_us / 10^6 (the instant, to the microsecond); a clock sequence above 14 bits is rejected; and in Cassandra's TimeUUID order
    min_uuid_from_time(t) <= every uuid of that instant <= max_uuid_from_time(t)"""
    import random
    form = vc.choice('time_argument', ['timestamp-seconds', 'datetime'])
    t_us = vc.int('instant_microseconds')
    vc.assume(sym.and_(t_us * 10 + K >= 0, t_us * 10 + K < (1 << 60)))
    if form == 'timestamp-seconds':
        time_arg = SReal(z3.ToReal(t_us.t) / 1000000)
    else:
        import calendar
        secs = vc.int('whole_seconds')
        micro = vc.int('microsecond')
        vc.assume(sym.and_(micro >= 0, micro < 10 ** 6, secs * 10 ** 6 + micro == t_us))

        class _TimeOfDay(object):
            microsecond = micro

        class _DT(object):
            def utctimetuple(self):
                return 'TIMETUPLE'

            def time(self):
                return _TimeOfDay
        vc.stub(calendar.timegm, lambda tt: secs)
        time_arg = _DT()
    given = vc.choice('node_and_clock_seq', ['given', 'random'])
    node, cs = vc.int('node'), vc.int('clock_seq')
    if given == 'given':
        vc.assume(sym.and_(node >= 0, node < (1 << 48), cs >= 0))
        k, u = vc.call_catch(U + 'uuid_from_time', time_arg, node, cs)
        if not vc.ctx.branch((cs <= 0x3fff).t):
            vc.check('clock-seq/above-14-bits-rejected', k == 'exc' and issubclass(exc_class(u), ValueError))
            return
    else:
        drawn = []

        def bits(n):
            v = vc.ctx.fresh_int('random_%d_bits' % n)
            vc.ctx.assume(sym.and_(v >= 0, v < (1 << n)).t, silent=True)
            drawn.append((n, v))
            return v
        vc.stub(random.getrandbits, bits)
        k, u = vc.call_catch(U + 'uuid_from_time', time_arg)
        if k == 'ok':
            cs = [v for n, v in drawn if n == 14][0] if [1 for n, v in drawn if n == 14] else cs
            node = [v for n, v in drawn if n == 48][0] if [1 for n, v in drawn if n == 48] else node
            vc.check('random/one-14-bit-and-one-48-bit-draw', sorted(n for n, v in drawn) == [14, 48])
    vc.check('post/returns-a-uuid', k == 'ok')
    if k != 'ok':
        return
    A = lambda name: get_attr(vc.ctx, u, name)
    vc.check('post/timestamp-is-exactly-the-instant-in-100ns-since-1582', A('time') == t_us * 10 + K)
    vc.check('post/version-1-and-rfc4122-variant', A('version') == 1 and sym.and_(A('clock_seq_hi_variant') >= 128, A('clock_seq_hi_variant') < 192, A('time_hi_version') // 4096 == 1))
    vc.check('post/node-and-clock-sequence-as-requested', sym.and_(A('node') == node, A('clock_seq') == cs))
    back = vc.call(U + 'unix_time_from_uuid1', u)
    vc.check('round-trip/decodes-back-to-the-instant-to-the-microsecond', sym.lift(back) * 1000000 == t_us if not isinstance(back, (int, float)) else False)
    vc.must_fail('selfcheck/timestamp-ignores-the-uuid-epoch-offset', A('time') == t_us * 10)
    if form == 'timestamp-seconds' and given == 'given':
        lo = vc.call(U + 'min_uuid_from_time', time_arg)
        hi = vc.call(U + 'max_uuid_from_time', time_arg)
        L = lambda x, name: get_attr(vc.ctx, x, name)
        vc.check('bounds/same-timestamp', sym.and_(L(lo, 'time') == A('time'), L(hi, 'time') == A('time')))
        key = lambda x: _signed_bytes_key(vc, L(x, 'int') % (1 << 64))
        vc.check('bounds/min-is-not-above-any-uuid-of-the-instant', _lex_le(key(lo), key(u)))
        vc.check('bounds/max-is-not-below-any-uuid-of-the-instant', _lex_le(key(u), key(hi)))


def calendar_and_strings(tier, seed):
    from contracts.native import c34
    return c34.calendar_and_strings(tier, seed)


BOUNDED = [calendar_and_strings]
