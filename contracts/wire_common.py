"""Native-protocol notations ([short] [int] [long] [string] [bytes] [value] ...) as spec functions over symbolic or concrete operands,
transcribed from native_protocol_v{1..5}.spec section 3 (shared by C03 requests and C04 responses)."""
from pyvc import sym
from pyvc.sym import SBytes, SStr
from spec import cser


def cat(*parts):
    out = None
    for p in parts:
        p = sym.lift(p) if not isinstance(p, (bytes, SBytes)) else p
        out = p if out is None else (sym.lift(out) + p)
    return out if out is not None else b''


_MODE = {'fixed': False}


def length_mode(vc):
    """Every harness that uses B()/S() is explored in two modes.  'any-length': byte strings and texts are symbolic sequences of ANY length the
    notation allows - the proof.  'fixed-length': the same contents with a fixed small length (3 symbolic bytes / a text of 2 UTF-8 bytes): bounded in
    length, but every read then has concrete offsets, so a body that the code under test mis-parses (a mutant) is still evaluated quickly and the
    violation comes with a concrete model instead of a solver time-out."""
    _MODE['fixed'] = False          # per path: the harness is re-executed from the start on every path
    m = vc.choice('length_mode', ['fixed-length', 'any-length'])
    _MODE['fixed'] = (m == 'fixed-length')
    return m


def B(vc, name, maxlen=2 ** 31 - 1, minlen=0):
    """a symbolic byte string of any length the notation can carry ([bytes]/[long string]: int32 length; [string]/[short bytes]: uint16)"""
    if _MODE['fixed']:
        import z3
        n = min(max(minlen, 3), maxlen)
        if n == 0:
            return b''
        xs = [vc.int('%s[%d]' % (name, i)) for i in range(n)]
        vc.assume(sym.and_(*[sym.and_(x >= 0, x <= 255) for x in xs]))
        units = [z3.Unit(x.t) for x in xs]
        return SBytes(units[0] if n == 1 else z3.Concat(*units))
    b = vc.bytes(name)
    vc.assume(sym.and_(b.length() >= minlen, b.length() <= maxlen))
    return b


def S(vc, name, maxbytes=65535):
    """a symbolic text string together with its UTF-8 bytes (E-CODEC: utf-8 decode(encode(s)) == s); returns (text, utf8_bytes)"""
    from pyvc.libmodels import codec_encode
    s = vc.str(name)
    b = codec_encode(vc.ctx, s, 'utf8')
    if _MODE['fixed']:
        vc.assume(b.length() == min(2, maxbytes))
    else:
        vc.assume(b.length() <= maxbytes)
    return s, b


def blen(b):
    return sym.lift(b).length() if isinstance(b, SBytes) else len(b)


def s_byte(x):
    return cser.be_unsigned(x, 1)


def s_short(x):
    return cser.be_unsigned(x, 2)


def s_int(x):
    return cser.be_signed(x, 4)


def s_uint(x):
    return cser.be_unsigned(x, 4)


def s_long(x):
    return cser.be_signed(x, 8)


def s_bytes(b):
    """[bytes] / [long string]: [int] n + n bytes (None: n = -1)"""
    if b is None:
        return s_int(-1)
    return cat(s_int(blen(b)), b)


def s_short_bytes(b):
    """[short bytes] / [string] given its bytes: [short] n + n bytes"""
    return cat(s_short(blen(b)), b)


def s_string(s):
    return s_short_bytes(s.encode('utf8') if isinstance(s, str) else s)


def s_string_list(items):
    return cat(s_short(len(items)), *[s_string(x) for x in items])


def same(vc, name, got, want):
    g, w = sym.lift(got) if not isinstance(got, SBytes) else got, sym.lift(want) if not isinstance(want, SBytes) else want
    vc.check(name, g == w)
