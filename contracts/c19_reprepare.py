"""C19 - unknown prepared statements are transparently re-prepared."""
import z3
from pyvc.engine import harness
from pyvc import sym
from pyvc.sym import SInt, SBool, SBytes
from pyvc.interp import SObj, PyExc, exc_class
from pyvc.libmodels import PartialModel, _M
from contracts import rf_common as R

LEVEL = 'proof'
TRUSTED = ['A-EXEC: Session.submit runs the task once, later (the continuation is verified as its own function)',
           'A-CB, A-LOG', 'callee contracts of pool.borrow_connection / Connection.send_msg / return_connection (stubs in contracts/rf_common.py)',
           'history clause: composition of the three per-function contracts over the response sequence (meta-argument)']
EXPLANATION = 'typestate contracts with a ghost log of sent messages on the real _set_result (UNPREPARED branch), _reprepare and _execute_after_prepare'

RF = R.RF
PVS = (1, 2, 3, 4, 5, 6, 0x41, 0x42)
KS_FLAG = (5, 6, 0x42)      # versions whose PREPARE carries a keyspace (v5+, DSE v2)


def _prepared(vc, query_id, keyspace):
    from cassandra.query import PreparedStatement
    return vc.obj(PreparedStatement, query_id=query_id, query_string=vc.str('query_string'), keyspace=keyspace,
                  result_metadata=[], result_metadata_id=None)


def _keyspace(vc, name):
    if vc.ctx.branch(vc.bool(name + '_is_none').t):
        return None
    ks = vc.str(name)
    return ks


@harness('C19', '_set_result[UNPREPARED]', functions=[RF + '_set_result'], native='contracts.native.c19:replay')
def unprepared(vc):
    """on PreparedQueryNotFound for a statement this future carries: ensures exactly one continuation is submitted:
    _reprepare(PrepareMessage(query == the statement's text, keyspace == the statement's keyspace iff the protocol carries it),
    same host, same connection, pool); no message is sent directly; keyspace mismatch on protocols without the keyspace flag =>
    completed with ValueError, nothing submitted, nothing sent"""
    from cassandra.protocol import PreparedQueryNotFound, PrepareMessage
    ctx = vc.ctx
    pv = vc.choice('protocol_version', list(PVS))
    h1 = R.Host('h1')
    world = R.World(vc, [h1])
    world.conn_keyspace = _keyspace(vc, 'session_keyspace')
    qid = vc.bytes('query_id')
    ps = _prepared(vc, qid, _keyspace(vc, 'statement_keyspace'))
    known = vc.bool('cluster_knows_statement')
    from pyvc.libmodels import SymKey
    prepared_map = {SymKey(qid): ps} if ctx.branch(known.t) else {}
    session = R.Session(world, pv, prepared=prepared_map)
    fut = R.make_future(vc, world, session, [], prepared_statement=ps)
    pool = world.pools[h1]
    conn = pool.conn
    conn.keyspace = world.conn_keyspace
    fut.attrs['_connection'] = conn
    resp = vc.obj(PreparedQueryNotFound, info=qid, code=0x2500, message='unprepared')
    vc.call(RF + '_set_result', fut, h1, conn, pool, resp)
    subs = world.submitted()
    ks_s, ks_c = ps.attrs['keyspace'], world.conn_keyspace
    carries = pv in KS_FLAG
    mismatch = (not carries) and ks_s is not None and vc.ctx.branch((sym.lift(ks_s).length() > 0).t) and \
        (ks_c is None or vc.ctx.branch(sym.not_(sym.lift(ks_c) == ks_s).t))
    vc.check('post/nothing-sent-directly', world.sends() == [])
    vc.check('post/connection-returned-once', [e for e in world.log if e[0] == 'return'] == [('return', h1, False)])
    if mismatch:
        vc.check('mismatch/completed-with-ValueError', len(fut.ghost['completions']) == 1 and fut.ghost['completions'][0][0] == 'exception'
                 and issubclass(exc_class(fut.ghost['completions'][0][1]), ValueError))
        vc.check('mismatch/nothing-submitted', subs == [])
        return
    vc.check('post/not-completed', fut.ghost['completions'] == [])
    vc.check('post/one-continuation', len(subs) == 1)
    if len(subs) != 1:
        return
    _, fn, args, kwargs = subs[0]
    vc.check('post/continuation-is-_reprepare', getattr(getattr(fn, 'func', None), '__name__', '') == '_reprepare' and fn.self_obj is fut)
    vc.check('post/continuation-args', len(args) == 4 and args[1] is h1 and args[2] is conn and args[3] is pool)
    pm = args[0]
    vc.check('post/is-PrepareMessage', isinstance(pm, SObj) and pm.cls is PrepareMessage)
    vc.check('post/same-query-text', pm.attrs['query'] == ps.attrs['query_string'])
    if carries:
        vc.check('post/keyspace-carried', R_eq(pm.attrs['keyspace'], ks_s))
    else:
        vc.check('post/no-keyspace-on-old-protocols', pm.attrs['keyspace'] is None)
    vc.must_fail('selfcheck/no-continuation', len(subs) == 0)


def R_eq(a, b):
    if a is None or b is None:
        return a is b
    return a == b


@harness('C19', '_reprepare', functions=[RF + '_reprepare', RF + '_query', RF + 'send_request'], native='contracts.native.c19:replay')
def reprepare(vc):
    """ensures the PREPARE goes to the SAME host with a callback that submits _execute_after_prepare(host, connection, pool);
    only if it cannot be sent there (pool missing/shut down/busy/error) the original request moves on to the next host of the plan;
    a request id of 0 counts as sent"""
    from cassandra.protocol import PrepareMessage
    ctx = vc.ctx
    h1, h2 = R.Host('h1'), R.Host('h2')
    state = vc.choice('h1_pool', ['ok', 'missing', 'shutdown', 'busy', 'error'])
    world = R.World(vc, [h1, h2], pool_state={h1: state if state in ('missing', 'shutdown') else 'ok'},
                    borrow={h1: state if state in ('busy', 'error') else 'ok'})
    first_id = vc.choice('first_request_id', [0, 7])
    world.new_request_id = lambda host: first_id if host is h1 else 9
    session = R.Session(world, 4)
    fut = R.make_future(vc, world, session, [h2])
    pm = vc.obj(PrepareMessage, query=vc.str('q'), keyspace=None)
    pool1 = world.pools.get(h1)
    vc.call(RF + '_reprepare', fut, pm, h1, getattr(pool1, 'conn', None), pool1)
    sends = world.sends()
    if state == 'ok':
        vc.check('post/exactly-one-message-sent', len(sends) == 1)
        if len(sends) == 1:
            _, host, msg, cb, rid = sends[0]
            vc.check('post/prepare-to-same-host', host is h1 and msg is pm)
            vc.check('post/callback-submits-_execute_after_prepare',
                     isinstance(cb, PartialModel) and getattr(cb.func, '__name__', '') == 'submit' and
                     getattr(getattr(cb.args[0], 'func', None), '__name__', '') == '_execute_after_prepare' and cb.args[1] is h1)
        vc.check('post/not-completed', fut.ghost['completions'] == [])
    else:
        vc.check('fallback/original-request-to-next-host', len(sends) == 1 and sends[0][1] is h2 and sends[0][2] is fut.attrs['message'])
        vc.check('fallback/reason-recorded', h1 in fut.attrs['_errors'])


@harness('C19', '_execute_after_prepare', functions=[RF + '_execute_after_prepare', RF + '_query'], native='contracts.native.c19:replay')
def after_prepare(vc):
    """ensures: PREPARED with the same id => the original message is re-sent to the same host (nothing else); a different id =>
    completed with a DriverException and NOTHING further is sent; server error => completed with it, nothing sent; connection
    error => recorded, request moves to the next host; already failed future => nothing"""
    from cassandra.protocol import ResultMessage, ErrorMessage, RESULT_KIND_PREPARED, RESULT_KIND_VOID
    from cassandra.connection import ConnectionException
    from cassandra import DriverException
    ctx = vc.ctx
    h1, h2 = R.Host('h1'), R.Host('h2')
    world = R.World(vc, [h1, h2])
    session = R.Session(world, 4)
    qid = vc.bytes('query_id')
    ps = _prepared(vc, qid, None)
    fut = R.make_future(vc, world, session, [h2], prepared_statement=ps)
    pool, conn = world.pools[h1], world.pools[h1].conn
    kind = vc.choice('response', ['prepared', 'other-result', 'server-error', 'connection-error', 'garbage', 'already-failed'])
    new_id = vc.bytes('returned_query_id')
    if kind == 'prepared':
        resp = vc.obj(ResultMessage, kind=RESULT_KIND_PREPARED, query_id=new_id, column_metadata=[], result_metadata_id=None)
    elif kind == 'other-result':
        resp = vc.obj(ResultMessage, kind=RESULT_KIND_VOID)
    elif kind == 'server-error':
        resp = vc.obj(ErrorMessage, code=0x1000, message='m', info=None)
    elif kind == 'connection-error':
        resp = SObj(ConnectionException, {'args': ('lost',)})
    elif kind == 'already-failed':
        fut.attrs['_final_exception'] = SObj(Exception, {'args': ('earlier',)})
        fut.ghost['completions'][:] = []
        resp = vc.obj(ResultMessage, kind=RESULT_KIND_PREPARED, query_id=qid, column_metadata=[], result_metadata_id=None)
    else:
        resp = vc.opaque('garbage_response')
    vc.call(RF + '_execute_after_prepare', fut, h1, conn, pool, resp)
    sends = world.sends()
    comps = fut.ghost['completions']
    vc.check('post/connection-returned-once', [e for e in world.log if e[0] == 'return'] == [('return', h1, False)])
    if kind == 'already-failed':
        vc.check('failed/nothing-happens', sends == [] and comps == [])
    elif kind == 'prepared':
        same = ctx.branch((new_id == qid).t)
        if same:
            vc.check('ok/original-resent-to-same-host-only', len(sends) == 1 and sends[0][1] is h1 and sends[0][2] is fut.attrs['message'])
            vc.check('ok/not-completed', comps == [])
        else:
            vc.check('id-mismatch/completed-with-DriverException', len(comps) == 1 and comps[0][0] == 'exception' and
                     issubclass(exc_class(comps[0][1]), DriverException))
            vc.check('id-mismatch/nothing-further-sent', sends == [])
    elif kind in ('other-result', 'server-error', 'garbage'):
        vc.check('error/completed-once-with-error', len(comps) == 1 and comps[0][0] == 'exception')
        vc.check('error/nothing-sent', sends == [])
    else:
        vc.check('conn-error/moves-to-next-host', len(sends) == 1 and sends[0][1] is h2)
        vc.check('conn-error/recorded', h1 in fut.attrs['_errors'])


@harness('C19', 'prepared-statement-remembers-how-it-was-prepared', functions=['cassandra.query.PreparedStatement.from_message', 'cassandra.query.PreparedStatement.__init__'],
         native='contracts.native.c19:replay_remembers')
def remembers(vc):
    """what a later re-PREPARE needs is what the statement remembers: ensures PreparedStatement.from_message hands the query id, the query string, the keyspace it was
    prepared against, the protocol version, the result metadata and its id on to the statement unchanged - for a statement with bind markers and for one without
    (its own early-return path) - so that _reprepare sends exactly the original PREPARE"""
    from cassandra.query import PreparedStatement
    from contracts.c46_options import _Obj
    tok = {k: _Obj(k) for k in ('query_id', 'query', 'prepared_keyspace', 'result_metadata', 'result_metadata_id', 'column_encryption_policy')}
    markers = vc.choice('bind_markers', ['none', 'none-as-None', 'one'])

    class Col(object):
        keyspace_name, table_name, name = 'ks', 'tb', 'a'

    class Meta(object):
        keyspaces = {}
    cols = [] if markers == 'none' else (None if markers == 'none-as-None' else [Col()])
    pv = vc.choice('protocol_version', [4, 5])
    ps = vc.call(PreparedStatement.from_message.__func__, PreparedStatement, tok['query_id'], cols, None, Meta(), tok['query'], tok['prepared_keyspace'], pv, tok['result_metadata'],
                 tok['result_metadata_id'], tok['column_encryption_policy'])
    a = ps.attrs if hasattr(ps, 'attrs') else vars(ps)
    vc.check('remembered/query-id-and-text', a.get('query_id') is tok['query_id'] and a.get('query_string') is tok['query'])
    vc.check('remembered/keyspace-it-was-prepared-against', a.get('keyspace') is tok['prepared_keyspace'])
    vc.check('remembered/protocol-version-and-result-metadata', a.get('protocol_version') == pv and a.get('result_metadata') is tok['result_metadata'] and a.get('result_metadata_id') is tok['result_metadata_id'])
    vc.check('remembered/encryption-policy', a.get('column_encryption_policy') is tok['column_encryption_policy'])
