"""C45 - shutdown releases every connection and stops accepting work."""
import z3
from pyvc.engine import harness
from pyvc import sym
from pyvc.interp import SObj, PyExc, exc_class, make_exception, call_value, BoundMethod, resolve
from pyvc.libmodels import LockModel, _M
from contracts import pool_common as P
from contracts import c12_pool_accounting as C12

LEVEL = 'proof'
TRUSTED = ['ghost OPENED = every connection returned by cluster.connection_factory; CLOSED = those whose close() ran (contracts/pool_common.py)',
           'interference: a concurrent shutdown() is injected at the blocking calls of each opener (connection_factory, the pool constructor, the metadata refresh queries) '
           'and before/after the opener; A-ATOMIC for the regions under the pool/session/control-connection locks',
           'A-EXEC/E-EXECUTOR: ThreadPoolExecutor.shutdown() waits for running tasks and runs no new ones; wait_futures(fs) returns when all fs are done',
           'global quiescence ("the set of open connections is empty") is the conjunction of the per-layer postconditions (meta-argument)',
           'the legacy (protocol v1/v2) HostConnectionPool is covered for shutdown() and _add_conn_if_under_max only']
EXPLANATION = 'ghost OPENED/CLOSED postconditions with injected shutdown on the real Cluster/Session/ControlConnection/HostConnection/HostConnectionPool/_Scheduler shutdown paths and openers'

HC = P.HC
CC = 'cassandra.cluster.ControlConnection.'
CL = 'cassandra.cluster.Cluster.'
SE = 'cassandra.cluster.Session.'

# the pool layer: same contracts as C12 (the obligations are re-discharged under this property)
harness('C45', 'HostConnection.shutdown', functions=[HC + 'shutdown'], native='contracts.native.c12:replay')(C12.shutdown)
harness('C45', 'HostConnection._replace', functions=[HC + '_replace'], native='contracts.native.c12:replay')(C12.replace)
harness('C45', 'HostConnection.borrow-after-shutdown', functions=[HC + 'borrow_connection'], native='contracts.native.c12:replay')(C12.borrow_shutdown)


class CConn(P.Conn):
    """control-connection view of a Connection (callee contracts of register_watchers / wait_for_responses)"""
    _product_type = None

    def register_watchers(self, cbs, register_timeout=None):
        self.world.log.append(('watchers', self))

    def wait_for_responses(self, *msgs, **kw):
        if self.world.query_hook:
            self.world.query_hook()
        return ((True, 'peers'), (True, 'local'))


def _control(vc, w, hosts=1):
    from cassandra.cluster import ControlConnection, _ConfigMode
    lock = LockModel('ControlConnection._lock')

    class H(object):
        def __init__(self, i):
            self.endpoint = 'ep%d' % i

    class LBP(object):
        def make_query_plan(self, *a):
            return [H(i) for i in range(hosts)]

    class Exec(object):
        def submit(self_, fn, *a, **k):
            w.log.append(('submit', fn, a, k))

    class Cl(object):
        is_shutdown = False
        protocol_version = 4
        _config_mode = _ConfigMode.PROFILES
        _default_load_balancing_policy = LBP()
        executor = Exec()

        def connection_factory(self_, endpoint, *a, **kw):
            if w.factory_hook:
                w.factory_hook()
            c = CConn(w, 'cc%d' % len(w.opened))
            w.log.append(('open', c))
            return c

        def signal_connection_failure(self_, host, exc, is_host_addition=False):
            w.log.append(('signal_connection_failure', host))
    w.query_hook = None
    cc = vc.obj(ControlConnection, _cluster=Cl(), _lock=lock, _reconnection_lock=LockModel('ControlConnection._reconnection_lock'),
                _is_shutdown=False, _connection=None, _reconnection_handler=None, _timeout=2.0, _token_meta_enabled=True,
                _uses_peers_v2=True, _protocol_version=4)
    vc.stub(CC + '_refresh_node_list_and_token_map', lambda self_, *a, **k: None)
    vc.stub(CC + '_refresh_schema', lambda self_, *a, **k: True)
    vc.stub(CC + '_get_peers_query', lambda self_, *a, **k: 'SELECT peers')
    import weakref
    vc.stub(weakref.ref, lambda o, cb=None: (lambda: o))
    vc.stub(weakref.proxy, lambda o, cb=None: o)
    return cc, lock


@harness('C45', 'ControlConnection.shutdown', functions=[CC + 'shutdown'], native='contracts.native.c45:replay')
def control_shutdown(vc):
    """ensures shutdown() marks the control connection shut down, closes its connection once, cancels a pending reconnection handler,
    and is idempotent; afterwards reconnect() and connect() start nothing"""
    w = P.World(vc)
    cc, lock = _control(vc, w)
    has_conn = vc.choice('has_connection', [True, False])
    conn = CConn(w, 'cc-current') if has_conn else None
    cc.attrs['_connection'] = conn
    cancelled = []

    class Handler(object):
        def cancel(self):
            cancelled.append(1)
    if vc.choice('reconnecting', [False, True]):
        cc.attrs['_reconnection_handler'] = Handler()
    had_handler = cc.attrs['_reconnection_handler'] is not None
    vc.call(CC + 'shutdown', cc)
    vc.check('post/flag', cc.attrs['_is_shutdown'] is True)
    vc.check('post/connection-closed-once-and-forgotten', all(len(c.close_calls) == 1 for c in w.opened) and cc.attrs['_connection'] is None)
    vc.check('post/pending-reconnection-cancelled', len(cancelled) == (1 if had_handler else 0))
    vc.check('post/lock-released', lock.depth == 0)
    vc.call(CC + 'shutdown', cc)
    vc.check('idempotent/no-second-close', all(len(c.close_calls) == 1 for c in w.opened))
    n_open = len(w.opened)
    vc.call(CC + 'reconnect', cc)
    vc.call(CC + 'connect', cc)
    vc.check('after/no-new-connection-or-task', len(w.opened) == n_open and [e for e in w.log if e[0] == 'submit'] == [])


@harness('C45', 'ControlConnection._reconnect', functions=[CC + '_reconnect', CC + '_reconnect_internal', CC + '_try_connect', CC + '_set_new_connection'],
         native='contracts.native.c45:replay')
def control_reconnect(vc):
    """ensures, with shutdown() injected before the attempt, while the connection is being opened, or while the fresh connection
    is running its first metadata queries: once both have finished, every connection the attempt opened is closed and none is
    installed; without shutdown: exactly one connection opened and installed, the previous one closed"""
    w = P.World(vc)
    cc, lock = _control(vc, w)
    old = CConn(w, 'cc-old') if vc.choice('had_connection', [True, False]) else None
    cc.attrs['_connection'] = old
    when = vc.choice('shutdown', ['never', 'while-opening', 'while-refreshing-metadata'])
    sd = lambda: call_value(vc.ctx, BoundMethod(resolve(CC + 'shutdown'), cc), [], {})
    if when == 'while-opening':
        w.factory_hook = sd
    elif when == 'while-refreshing-metadata':
        w.query_hook = sd
    kind, r = vc.call_catch(CC + '_reconnect', cc)
    new = [c for c in w.opened if c is not old]
    if when == 'never':
        vc.check('ok/one-connection-opened-and-installed', kind == 'ok' and len(new) == 1 and cc.attrs['_connection'] is new[0] and not new[0].is_closed)
        vc.check('ok/previous-connection-closed', old is None or len(old.close_calls) == 1)
        vc.check('ok/watchers-registered', [e for e in w.log if e[0] == 'watchers'] == [('watchers', new[0])] if new else False)
    else:
        vc.check('shutdown/every-opened-connection-closed', all(c.is_closed for c in w.opened))
        vc.check('shutdown/nothing-installed', cc.attrs['_connection'] is None)
        vc.check('shutdown/no-retry-scheduled', cc.attrs['_reconnection_handler'] is None)
    vc.check('post/locks-released', lock.depth == 0)


class PoolStub(object):
    """a HostConnection/HostConnectionPool as the session sees it: opened by its constructor, closed by shutdown() (verified above)"""

    def __init__(self, w, name, keyspace=None):
        self.w, self.name, self._keyspace, self.is_shutdown, self.shutdowns = w, name, keyspace, False, 0
        w.opened.append(self)

    def shutdown(self):
        self.shutdowns += 1
        self.is_shutdown = True

    @property
    def is_closed(self):
        return self.is_shutdown


class Fut(object):
    def __init__(self, name, log):
        self.name, self.log, self.cancelled = name, log, 0

    def cancel(self):
        self.cancelled += 1
        self.log.append(('cancel', self.name))


def _session(vc, w, pools=None, futures=()):
    from cassandra.cluster import Session
    from cassandra.policies import HostDistance
    lock = LockModel('Session._lock')

    class PM(object):
        def distance(self, host):
            return HostDistance.LOCAL

    class Exec(object):
        def submit(self_, fn, *a, **k):
            w.log.append(('submit', fn, a, k))
            return Fut('task', w.log)

    class Cl(object):
        executor = Exec()
        connect_timeout = 5

        def signal_connection_failure(self_, *a, **k):
            w.log.append(('signal_connection_failure',) + a)

        def on_down(self_, *a, **k):
            w.log.append(('on_down',) + a)
    s = vc.obj(Session, _lock=lock, is_shutdown=False, _initial_connect_futures=set(futures), _monitor_reporter=None,
               _pools=dict(pools or {}), keyspace=None, _protocol_version=4, _profile_manager=PM(), cluster=Cl())
    return s, lock


@harness('C45', '_ReconnectionHandler.run', functions=['cassandra.pool._ReconnectionHandler.run', 'cassandra.pool._ReconnectionHandler.cancel'], native='contracts.native.c45:replay')
def handler_run_cancelled(vc):
    """a scheduled reconnection attempt (host or control connection) with cancel() - what ControlConnection.shutdown / Cluster.on_down / shutdown do to a pending
    handler - injected before the attempt, while the attempt is connecting, or never: ensures a cancelled handler starts no attempt; a handler cancelled while
    connecting closes the connection it opened exactly once, hands it to nobody (no on_reconnection, no callback) and, when the attempt failed instead, whatever it
    re-schedules is the same cancelled handler (whose run() opens nothing)"""
    from cassandra.pool import _ReconnectionHandler
    w = P.World(vc)
    log = {'sched': [], 'reconn': [], 'cb': 0, 'attempts': 0}
    when = vc.choice('cancel', ['before', 'while-connecting', 'never'])
    fails = vc.choice('attempt', ['connects', 'fails'])

    class Sched(object):
        def schedule(self, delay, fn, *a, **k):
            log['sched'].append(fn)
    h = vc.obj(_ReconnectionHandler, scheduler=Sched(), schedule=iter([1.0, 2.0]), _cancelled=False, callback_args=(), callback_kwargs={})
    h.attrs['callback'] = _M(lambda *a, **k: log.__setitem__('cb', log['cb'] + 1))
    if when == 'before':
        vc.call('cassandra.pool._ReconnectionHandler.cancel', h)

    def try_reconnect(self_):
        log['attempts'] += 1
        c = None if fails == 'fails' else P.Conn(w, 'attempt')
        if when == 'while-connecting':
            vc.call('cassandra.pool._ReconnectionHandler.cancel', h)
        if c is None:
            raise PyExc(SObj(OSError, {'args': ('refused',)}))
        return c
    vc.stub('cassandra.pool._ReconnectionHandler.try_reconnect', try_reconnect)
    vc.stub('cassandra.pool._ReconnectionHandler.on_exception', lambda self_, exc, d: True)
    vc.stub('cassandra.pool._ReconnectionHandler.on_reconnection', lambda self_, c: log['reconn'].append(c))
    vc.call('cassandra.pool._ReconnectionHandler.run', h)
    if when == 'before':
        vc.check('cancelled/no-attempt-started', log['attempts'] == 0 and not w.opened and not log['sched'])
        return
    vc.check('attempt/exactly-one', log['attempts'] == 1)
    if when == 'while-connecting':
        vc.check('cancelled-while-connecting/connection-closed-once', all(len(c.close_calls) == 1 for c in w.opened))
        vc.check('cancelled-while-connecting/handed-to-nobody', not log['reconn'] and log['cb'] == 0)
        # what a failed attempt re-schedules is this handler's own run: on a cancelled handler it opens nothing
        before = len(w.opened)
        for fn in log['sched']:
            vc.check('cancelled-while-connecting/rescheduled-run-is-this-handler', isinstance(fn, BoundMethod) and fn.self_obj is h)
            call_value(vc.ctx, fn, [], {})
        vc.check('cancelled-while-connecting/later-runs-open-nothing', len(w.opened) == before and log['attempts'] == 1)
    elif fails == 'connects':
        vc.check('not-cancelled/connection-handed-over-once', log['reconn'] == list(w.opened) and log['cb'] == 1)


@harness('C45', 'Session.shutdown', functions=[SE + 'shutdown', SE + 'submit'], native='contracts.native.c45:replay')
def session_shutdown(vc):
    """ensures Session.shutdown() marks the session shut down, cancels every initial connect attempt that has not started, shuts down every pool exactly once
    (a pool still connecting closes itself: Session.add_or_renew_pool below), is idempotent; afterwards
    submit() starts nothing"""
    import concurrent.futures
    w = P.World(vc)
    npools = vc.choice('pools', [0, 1, 2])
    nfut = vc.choice('initial_connect_futures', [0, 1, 2])
    pools = {('h%d' % i): PoolStub(w, 'p%d' % i) for i in range(npools)}
    futs = [Fut('f%d' % i, w.log) for i in range(nfut)]
    s, lock = _session(vc, w, pools, futs)
    waits = []

    def wait(fs, timeout=None, return_when=concurrent.futures.ALL_COMPLETED):
        waits.append(set(fs))
        return (set(fs), set())
    vc.stub(concurrent.futures.wait, wait)
    vc.call(SE + 'shutdown', s)
    vc.check('post/flag', s.attrs['is_shutdown'] is True)
    vc.check('post/every-initial-connect-attempt-cancelled', all(f.cancelled == 1 for f in futs))
    vc.check('post/every-pool-shut-down-exactly-once', all(p.shutdowns == 1 for p in w.opened))
    vc.check('post/lock-released', lock.depth == 0)
    vc.call(SE + 'shutdown', s)
    vc.check('idempotent', all(p.shutdowns == 1 for p in w.opened) and len(waits) == 1)
    r = vc.call(SE + 'submit', s, _M(lambda: None, 'task'))
    vc.check('after/submit-starts-nothing', r is None and [e for e in w.log if e[0] == 'submit'] == [])


@harness('C45', 'Session.add_or_renew_pool', functions=[SE + 'add_or_renew_pool'], native='contracts.native.c45:replay')
def session_add_pool(vc):
    """ensures, with Session.shutdown() injected before the task, while the new pool is connecting, or never: once both have finished
    no open pool is left on a shut-down session (the new pool is either swept by shutdown() or shut down by the task itself);
    without shutdown the pool is installed and the previous pool for that host shut down"""
    import concurrent.futures
    w = P.World(vc)
    prev = PoolStub(w, 'previous') if vc.choice('had_pool', [False, True]) else None
    s, lock = _session(vc, w, {'h': prev} if prev else {})
    vc.stub(concurrent.futures.wait, lambda fs, *a, **k: (set(fs), set()))
    when = vc.choice('shutdown', ['never', 'while-connecting', 'before-the-task-runs'])
    sd = lambda: call_value(vc.ctx, BoundMethod(resolve(SE + 'shutdown'), s), [], {})

    def ctor(host, distance, session):
        if when == 'while-connecting':
            sd()
        return PoolStub(w, 'new')
    vc.stub('cassandra.pool.HostConnection', ctor)
    vc.call(SE + 'add_or_renew_pool', s, 'h', False)
    subs = [e for e in w.log if e[0] == 'submit']
    vc.check('post/one-task-submitted', len(subs) == 1)
    if len(subs) != 1:
        return
    if when == 'before-the-task-runs':
        sd()
    r = call_value(vc.ctx, subs[0][1], [], {})
    new = [p for p in w.opened if p.name == 'new']
    if when == 'never':
        vc.check('ok/installed', r is True and len(new) == 1 and s.attrs['_pools'].get('h') is new[0] and not new[0].is_shutdown)
        vc.check('ok/previous-pool-shut-down', prev is None or prev.shutdowns == 1)
    else:
        vc.check('shutdown/no-open-pool-left-behind', all(p.is_shutdown for p in w.opened))
    vc.check('post/lock-released', lock.depth == 0)


@harness('C45', 'Cluster.shutdown', functions=[CL + 'shutdown', CL + 'connect', CL + 'on_up', CL + 'on_down', CL + 'on_add', CL + 'on_remove'],
         native='contracts.native.c45:replay')
def cluster_shutdown(vc):
    """ensures Cluster.shutdown() sets the flag and shuts down the heartbeat, the scheduler, the control connection, every session and
    finally the executor, each exactly once, also when called twice; afterwards connect() raises instead of opening anything, and the
    node-event entry points (on_up/on_down/on_add/on_remove) return without starting any work"""
    from cassandra.cluster import Cluster
    from cassandra import DriverException
    log = []

    class Part(object):
        def __init__(self, name):
            self.name = name

        def shutdown(self, *a, **k):
            log.append(('shutdown', self.name))

        def stop(self):
            log.append(('shutdown', self.name))

        def submit(self, *a, **k):
            log.append(('submit', self.name))
    nsess = vc.choice('sessions', [0, 1, 2])
    hb = Part('heartbeat') if vc.choice('idle_heartbeat', [True, False]) else None
    sessions = [Part('session%d' % i) for i in range(nsess)]
    lock = LockModel('Cluster._lock')
    cl = vc.obj(Cluster, _lock=lock, is_shutdown=False, _idle_heartbeat=hb, scheduler=Part('scheduler'), control_connection=Part('control'),
                sessions=set(sessions), executor=Part('executor'))
    vc.stub('cassandra.cluster._discard_cluster_shutdown', lambda c: log.append(('discard',)))
    vc.call(CL + 'shutdown', cl)
    want = sorted(['scheduler', 'control', 'executor'] + [s.name for s in sessions] + (['heartbeat'] if hb else []))
    vc.check('post/flag', cl.attrs['is_shutdown'] is True)
    vc.check('post/every-part-shut-down-exactly-once', sorted(e[1] for e in log if e[0] == 'shutdown') == want)
    names = [e[1] for e in log if e[0] == 'shutdown']
    vc.check('post/executor-last', names[-1:] == ['executor'])
    vc.call(CL + 'shutdown', cl)
    vc.check('idempotent', sorted(e[1] for e in log if e[0] == 'shutdown') == want)
    kind, r = vc.call_catch(CL + 'connect', cl)
    vc.check('after/connect-refused', kind == 'exc' and issubclass(exc_class(r), DriverException))

    class Untouchable(object):
        def __getattr__(self, name):
            log.append(('host-touched', name))
            raise AttributeError(name)
    n0 = len(log)
    for m, args in (('on_up', ()), ('on_down', (False,)), ('on_add', ()), ('on_remove', ())):
        vc.call(CL + m, cl, Untouchable(), *args)
    vc.check('after/node-events-start-nothing', len(log) == n0)
    vc.check('post/lock-released', lock.depth == 0)


@harness('C45', '_Scheduler', functions=['cassandra.cluster._Scheduler.shutdown', 'cassandra.cluster._Scheduler._insert_task',
                                          'cassandra.cluster._Scheduler.schedule', 'cassandra.cluster._Scheduler.schedule_unique'],
         native='contracts.native.c45:replay')
def scheduler(vc):
    """ensures after _Scheduler.shutdown() no task (reconnection attempts, refreshes) is queued any more by schedule / schedule_unique"""
    from cassandra.cluster import _Scheduler
    import itertools
    puts = []

    class Q(object):
        def put_nowait(self, item):
            puts.append(item)
    s = vc.obj(_Scheduler, _queue=Q(), _scheduled_tasks=set(), _count=itertools.count(), _executor=None, is_shutdown=False)
    vc.stub('threading.Thread.join', lambda self_, *a: None)
    vc.stub('time.time', lambda: vc.real('now'))
    task = _M(lambda: None, 'reconnect')
    vc.call('cassandra.cluster._Scheduler.schedule', s, 1.0, task)
    vc.check('before/task-queued', len(puts) == 1 and puts[0][2][0] is task)
    vc.call('cassandra.cluster._Scheduler.shutdown', s)
    vc.check('post/flag-and-wakeup', s.attrs['is_shutdown'] is True and len(puts) == 2 and puts[1][2] is None)
    vc.call('cassandra.cluster._Scheduler.schedule', s, 1.0, task)
    vc.call('cassandra.cluster._Scheduler.schedule_unique', s, 1.0, _M(lambda: None, 'other'))
    vc.check('after/nothing-queued', len(puts) == 2)


@harness('C45', 'requests-after-shutdown', functions=['cassandra.cluster.ResponseFuture.send_request', 'cassandra.cluster.ResponseFuture._query'],
         native='contracts.native.c45:replay')
def requests_refused(vc):
    """ensures a request issued on a shut-down session (every pool shut down or removed) is completed with NoHostAvailable naming
    every host - refused, not left pending - and sends nothing"""
    from contracts import rf_common as R
    from contracts.c17_plan_order import _world
    from cassandra.cluster import NoHostAvailable
    n = vc.choice('hosts', [0, 1, 2])
    hosts = [R.Host('h%d' % i) for i in range(n)]
    states = [vc.choice('pool%d' % i, ['shutdown', 'missing']) for i in range(n)]
    world = _world(vc, hosts, states)
    fut = R.make_future(vc, world, R.Session(world, 4), hosts)
    r = vc.call(R.RF + 'send_request', fut)
    comps = fut.ghost['completions']
    vc.check('post/completed-with-NoHostAvailable', r is False and len(comps) == 1 and comps[0][0] == 'exception' and
             issubclass(exc_class(comps[0][1]), NoHostAvailable))
    vc.check('post/nothing-sent-nothing-borrowed', world.sends() == [] and [e for e in world.log if e[0] == 'borrow'] == [])
    vc.check('post/waiters-released', fut.attrs['_event'].flag is True)


HP = 'cassandra.pool.HostConnectionPool.'


def _legacy_pool(vc, w, conns, trash=()):
    from cassandra.pool import HostConnectionPool
    lock = LockModel('pool._lock')
    w.host_goes_down = False
    sess = P.Session(w)
    sess.cluster.get_max_connections_per_host = lambda d: 8
    pool = vc.obj(HostConnectionPool, host=P.HostObj(), host_distance=0, _session=sess, _lock=lock, _conn_available_condition=P.Cond(),
                  _connections=list(conns), _trash=set(trash), open_count=len(conns), is_shutdown=False, _keyspace=None,
                  _next_trash_allowed_at=0, _scheduled_for_creation=0)
    return pool, lock


@harness('C45', 'HostConnectionPool.shutdown', functions=[HP + 'shutdown'], native='contracts.native.c45:replay')
def legacy_shutdown(vc):
    """ensures the legacy (protocol v1/v2) pool's shutdown() closes every pooled and every trashed connection once, and is idempotent"""
    w = P.World(vc)
    conns = [P.Conn(w, 'c%d' % i) for i in range(vc.choice('connections', [0, 1, 2]))]
    trash = [P.Conn(w, 't%d' % i) for i in range(vc.choice('trashed', [0, 1]))]
    pool, lock = _legacy_pool(vc, w, conns, trash)
    vc.call(HP + 'shutdown', pool)
    vc.check('post/flag', pool.attrs['is_shutdown'] is True)
    vc.check('post/every-connection-closed-once', all(len(c.close_calls) == 1 for c in w.opened))
    vc.check('post/open-count-zero', pool.attrs['open_count'] == 0)
    vc.call(HP + 'shutdown', pool)
    vc.check('idempotent', all(len(c.close_calls) == 1 for c in w.opened))


@harness('C45', 'HostConnectionPool._add_conn_if_under_max', functions=[HP + '_add_conn_if_under_max'], native='contracts.native.c45:replay')
def legacy_add(vc):
    """ensures, with shutdown() injected while the legacy pool opens an additional connection or while that connection selects the keyspace (the two
    blocking calls), or before, or never: once both have finished no connection the pool opened is left open on a shut-down pool"""
    w = P.World(vc)
    c0 = P.Conn(w, 'c0')
    pool, lock = _legacy_pool(vc, w, [c0])
    when = vc.choice('shutdown', ['never', 'while-opening', 'while-selecting-the-keyspace', 'before'])
    sd = lambda: call_value(vc.ctx, BoundMethod(resolve(HP + 'shutdown'), pool), [], {})
    if when == 'before':
        sd()
    elif when == 'while-opening':
        w.factory_hook = sd
    elif when == 'while-selecting-the-keyspace':
        # the second blocking call: the USE round trip on the new connection (the session has a keyspace selected)
        pool.attrs['_session'].keyspace = 'ks'

        class Selecting(P.Conn):
            def set_keyspace_blocking(self_, ks):
                sd()
                self_.keyspace = ks
        w.conn_class = Selecting
    vc.stub('time.time', lambda: 0.0)
    r = vc.call(HP + '_add_conn_if_under_max', pool)
    new = [c for c in w.opened if c is not c0]
    if when == 'never':
        vc.check('ok/one-connection-added', r is True and len(new) == 1 and pool.attrs['_connections'] == [c0, new[0]] and pool.attrs['open_count'] == 2)
    elif when == 'before':
        vc.check('shutdown/opens-nothing', new == [])
    else:
        vc.check('shutdown-during-open/new-connection-not-leaked', all(c.is_closed for c in w.opened))
    vc.check('post/lock-released', lock.depth == 0)
