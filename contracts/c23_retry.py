"""C23 - built-in retry policies decide within their documented bounds.

One harness per (policy class, method): the real method body is executed
symbolically for ALL integer arguments satisfying `requires` (unbounded ints),
and every clause of contracts/native/c23.post is an obligation on every path.
"""
from pyvc.engine import harness
from contracts.native import c23 as N

LEVEL = 'proof'
TRUSTED = ['A-TYPES: consistency/required/received/alive/retry_num/write_type are ints, data_retrieved a bool '
           '(as decoded by protocol.ReadTimeoutErrorMessage etc.)',
           'precondition "what a coordinator can report": write timeouts have received < required, unavailable has alive < required']
EXPLANATION = 'weakest-precondition style symbolic execution of the real retry-policy methods; integers are mathematical'

METHODS = ['on_read_timeout', 'on_write_timeout', 'on_unavailable', 'on_request_error']


def _mk(policy, method):
    @harness('C23', '%s.%s' % (policy, method), functions=['cassandra.policies.%s.%s' % (policy, method)],
             native='contracts.native.c23:replay')
    def h(vc, policy=policy, method=method):
        from cassandra import policies
        cls = getattr(policies, policy)
        a = {'consistency': vc.int('consistency'), 'required': vc.int('required'), 'received': vc.int('received'),
             'alive': vc.int('alive'), 'retry_num': vc.int('retry_num'), 'write_type': vc.int('write_type'),
             'data_retrieved': vc.bool('data_retrieved')}
        vc.assume(N.requires(method, a))
        vc.cover('requires-inhabited')
        self = vc.obj(cls)
        query = vc.opaque('query', 'Statement')
        error = vc.opaque('error', 'Exception')
        res = vc.call('cassandra.policies.%s.%s' % (policy, method), self, *N.call_args(method, a, query, error)[0:])
        vc.check('returns-pair', isinstance(res, tuple) and len(res) == 2)
        decision, cl = res
        for name, cond in N.post(policy, method, a, decision, cl):
            vc.check('post/' + name, cond)
        if policy == 'RetryPolicy' and method == 'on_read_timeout':
            vc.must_fail('selfcheck/always-rethrow', N.eq(decision, N.RETHROW))
    h.__doc__ = 'ensures contracts.native.c23.post(%s, %s) for all ints satisfying requires()' % (policy, method)
    return h


for _p in N.POLICIES:
    for _m in METHODS:
        _mk(_p, _m)
