"""C47 - a connection is usable only after a successful handshake."""
import os
import z3
from collections import OrderedDict
from pyvc.engine import harness
from pyvc import sym
from pyvc.interp import SObj, PyExc, exc_class, make_exception, call_value
from pyvc.libmodels import LockModel, _M

LEVEL = 'proof'
TRUSTED = ['callee contracts: Connection.send_msg hands the callback the next reply of the server (or a ConnectionShutdown); close() marks the connection closed; '
           'the authenticator is an opaque SASL object (initial_response / evaluate_challenge / on_authentication_success return arbitrary tokens)',
           'E-EVENT: connected_event is a flag',
           'bounded dimension: reply sequences of up to 6 replies are unrolled; after the handshake reaches READY/failed nothing further is dispatched, and the only cycle '
           '(AUTH_CHALLENGE -> AUTH_RESPONSE) returns to the same handler state, so longer sequences repeat a verified step',
           'the set of locally available compressors is a parameter ({lz4,snappy}, {lz4}, {snappy}, {}): the module global is replaced for the run']
EXPLANATION = 'typestate postconditions (ghost phase OPTIONS/STARTUP/AUTH/READY/FAILED) over the real Connection._send_options_message/_handle_options_response/_send_startup_message/_handle_startup_response/_handle_auth_response/_enable_compression/_enable_checksumming/defunct/factory'

C = 'cassandra.connection.Connection.'
REPLIES = ['SUPPORTED', 'READY', 'AUTHENTICATE', 'AUTH_CHALLENGE', 'AUTH_SUCCESS', 'ERROR', 'DISCONNECT', 'UNEXPECTED']
TIER = os.environ.get('VERIF_TIER', 'quick')


class Ev(object):
    def __init__(self):
        self.flag = False

    def set(self):
        self.flag = True

    def is_set(self):
        return self.flag

    def wait(self, timeout=None):
        return self.flag


class IOBuf(object):
    checksumming = False

    def set_checksumming_buffer(self):
        self.checksumming = True


class Sasl(object):
    server_authenticator_class = None

    def __init__(self, log):
        self.log = log

    def initial_response(self):
        return b'initial'

    def evaluate_challenge(self, ch):
        self.log.append(('challenge-evaluated', ch))
        return b'response'

    def on_authentication_success(self, token):
        self.log.append(('auth-success', token))


LZ4 = (_M(lambda b: b, 'lz4_compress'), _M(lambda b: b, 'lz4_decompress'))
SNAPPY = (_M(lambda b: b, 'snappy_compress'), _M(lambda b: b, 'snappy_decompress'))
LOCALS = {'lz4+snappy': [('lz4', LZ4), ('snappy', SNAPPY)], 'lz4': [('lz4', LZ4)], 'snappy': [('snappy', SNAPPY)], 'none': []}


def _conn(vc, log, pv, compression, auth, cql_version=None):
    from cassandra.connection import Connection
    sent = []
    authenticator = None if auth == 'none' else ({'username': 'u', 'password': 'p'} if auth == 'credentials' else Sasl(log))
    c = vc.obj(Connection, is_defunct=False, is_closed=False, lock=LockModel('connection.lock'), cql_version=cql_version, compression=compression,
               protocol_version=pv, authenticator=authenticator, no_compact=False, endpoint='ep', host='host', connected_event=Ev(), last_error=None,
               compressor=None, decompressor=None, _compressor=None, _compression_type=None, _io_buffer=IOBuf(), _is_checksumming_enabled=False,
               _segment_codec=None, _requests={}, _continuous_paging_sessions={}, _product_type=None, is_unsupported_proto_version=False)

    def send_msg(self_, msg, rid, cb=None, **kw):
        if self_.attrs['is_defunct'] or self_.attrs['is_closed']:
            from cassandra.connection import ConnectionShutdown
            raise PyExc(make_exception(vc.ctx, ConnectionShutdown, ['closed'], {}))
        sent.append(dict(msg=msg, cb=cb, compressor=self_.attrs['compressor'], checksumming=self_.attrs['_is_checksumming_enabled'],
                         kind=msg.cls.__name__))
    vc.stub(C + 'send_msg', send_msg)
    vc.stub(C + 'get_request_id', lambda self_: 1)

    def close(self_):
        self_.attrs['is_closed'] = True
        log.append(('close',))
    vc.stub(C + 'close', close)
    return c, sent


def _reply(vc, kind):
    from cassandra import protocol as p
    from cassandra.connection import ConnectionShutdown
    if kind == 'READY':
        return vc.obj(p.ReadyMessage)
    if kind == 'AUTHENTICATE':
        return vc.obj(p.AuthenticateMessage, authenticator='org.apache.cassandra.auth.PasswordAuthenticator')
    if kind == 'AUTH_CHALLENGE':
        return vc.obj(p.AuthChallengeMessage, challenge=b'ch')
    if kind == 'AUTH_SUCCESS':
        return vc.obj(p.AuthSuccessMessage, token=b'tok')
    if kind == 'ERROR':
        return vc.obj(p.ErrorMessage, code=0x0100, message='bad credentials', info=None)
    if kind == 'DISCONNECT':
        return SObj(ConnectionShutdown, {'args': ('connection closed',)})
    return vc.obj(p.ResultMessage, kind=1)


def _supported(vc, remote):
    from cassandra import protocol as p
    return vc.obj(p.SupportedMessage, cql_versions=['3.4.5'], options={'COMPRESSION': list(remote)})


def _with_locals(local):
    import cassandra.connection as cmod
    real = cmod.locally_supported_compressions
    cmod.locally_supported_compressions = OrderedDict(LOCALS[local])
    return real


@harness('C47', 'handshake-state-machine', functions=[C + '_send_options_message', C + '_handle_options_response', C + '_send_startup_message',
                                                      C + '_handle_startup_response', C + '_handle_auth_response', C + 'defunct'],
         native='contracts.native.c47:replay')
def state_machine(vc):
    """for every sequence of up to 6 server replies x authenticator kind (none / v1 credentials / SASL) x protocol v4/v5: ensures the
    connection is reported ready only after READY (answering STARTUP or CREDENTIALS) or AUTH_SUCCESS (answering AUTH_RESPONSE);
    authentication failures (auth required but not configured, ERROR after credentials / during SASL) surface as AuthenticationFailed;
    every other failure as a connection error; a failed handshake closes the connection; each reply is answered by at most one
    request of the right kind"""
    import cassandra.connection as cmod
    from cassandra import AuthenticationFailed
    from cassandra.connection import ConnectionException, ProtocolError
    log = []
    auth = vc.choice('authenticator', ['none', 'credentials', 'sasl'])
    pv = vc.choice('protocol_version', [4, 5])
    c, sent = _conn(vc, log, pv, False, auth)
    real = _with_locals('lz4+snappy')
    try:
        vc.call(C + '_send_options_message', c)
        phase = 'OPTIONS'       # ghost: what the server is answering
        history = []
        want_ready, want_fail = False, None
        for step in range(6):
            if c.attrs['connected_event'].flag or len(sent) <= step:
                break
            kind = vc.choice('reply%d' % step, REPLIES)
            history.append(kind)
            reply = _supported(vc, []) if kind == 'SUPPORTED' else _reply(vc, kind)
            n_before = len(sent)
            call_value(vc.ctx, sent[step]['cb'], [reply], {})
            new = [s['kind'] for s in sent[n_before:]]
            # --- the protocol's state machine, written from the native-protocol spec / the property statement
            if phase == 'OPTIONS':
                nxt = ('STARTUP', ['StartupMessage'], None) if kind == 'SUPPORTED' else ('FAILED', [], 'connection')
            elif phase in ('STARTUP', 'CREDENTIALS'):
                if kind == 'READY':
                    nxt = ('READY', [], None)
                elif kind == 'AUTHENTICATE' and auth == 'none':
                    nxt = ('FAILED', [], 'auth')
                elif kind == 'AUTHENTICATE' and auth == 'credentials':
                    nxt = ('CREDENTIALS', ['CredentialsMessage'], None)
                elif kind == 'AUTHENTICATE':
                    nxt = ('AUTH', ['AuthResponseMessage'], None)
                elif kind == 'ERROR' and phase == 'CREDENTIALS':
                    nxt = ('FAILED', [], 'auth')
                else:
                    nxt = ('FAILED', [], 'connection')
            else:   # AUTH
                if kind == 'AUTH_SUCCESS':
                    nxt = ('READY', [], None)
                elif kind == 'AUTH_CHALLENGE':
                    nxt = ('AUTH', ['AuthResponseMessage'], None)
                elif kind == 'ERROR':
                    nxt = ('FAILED', [], 'auth')
                else:
                    nxt = ('FAILED', [], 'connection')
            phase, want_new, fail = nxt
            vc.check('step/answers-with-exactly-the-expected-request', new == want_new)
            ready = c.attrs['connected_event'].flag and c.attrs['last_error'] is None and not c.attrs['is_defunct']
            vc.check('step/reported-ready-iff-server-sent-READY-or-AUTH_SUCCESS', ready == (phase == 'READY'))
            if phase == 'FAILED':
                err = c.attrs['last_error']
                vc.check('failed/defunct-closed-and-waiters-released', c.attrs['is_defunct'] is True and c.attrs['is_closed'] is True
                         and c.attrs['connected_event'].flag is True and err is not None)
                if err is not None:
                    if fail == 'auth':
                        vc.check('failed/authentication-failure-is-AuthenticationFailed', issubclass(exc_class(err), AuthenticationFailed))
                    else:
                        vc.check('failed/other-failure-is-a-connection-error', issubclass(exc_class(err), (ConnectionException, ProtocolError)))
                break
            if phase == 'READY':
                if auth == 'sasl' and history[-1] == 'AUTH_SUCCESS':
                    vc.check('ready/authenticator-told-about-success', ('auth-success', b'tok') in log)
                break
        if history == ['SUPPORTED', 'AUTHENTICATE', 'AUTH_CHALLENGE', 'READY']:
            vc.must_fail('selfcheck/ready-after-challenge-then-READY', c.attrs['last_error'] is None)
    finally:
        cmod.locally_supported_compressions = real


@harness('C47', 'compression-and-framing', functions=[C + '_handle_options_response', C + '_send_startup_message', C + '_handle_startup_response',
                                                      C + '_handle_auth_response', C + '_enable_compression', C + '_enable_checksumming'],
         native='contracts.native.c47:replay')
def compression(vc):
    """for every compression setting (off / automatic / 'lz4' / 'snappy') x locally available compressors x compressors the server offers
    x protocol v4/v5/v6/DSE x (no auth / SASL): ensures STARTUP names an algorithm only if both sides support it (the user's choice
    when one was made), never snappy when frames are checksummed; OPTIONS, STARTUP are sent uncompressed and unchecksummed; after the
    server accepted STARTUP the compressor in use is exactly the one STARTUP named (none if it named none); checksummed framing is on
    exactly for protocol v5/v6, with the lz4 segment codec iff a compressor is in use"""
    import cassandra.connection as cmod
    from cassandra.connection import ProtocolError, ConnectionException
    from cassandra import ProtocolVersion
    log = []
    setting = vc.choice('compression', [True, False, 'lz4', 'snappy'])
    local = vc.choice('locally_available', ['lz4+snappy', 'lz4', 'snappy', 'none'])
    remote = vc.choice('server_offers', [('lz4', 'snappy'), ('snappy',), ('lz4',), ()])
    pv = vc.choice('protocol_version', [4, 5, 6, ProtocolVersion.DSE_V2])
    auth = vc.choice('authenticator', ['none', 'sasl'])
    local_names = [k for k, _ in LOCALS[local]]
    c, sent = _conn(vc, log, pv, setting, auth)
    real = _with_locals(local)
    try:
        vc.call(C + '_send_options_message', c)
        call_value(vc.ctx, sent[0]['cb'], [_supported(vc, remote)], {})
        checksummed = pv in (5, 6)
        if c.attrs['is_defunct']:
            err = c.attrs['last_error']
            vc.check('refused/only-when-the-users-choice-is-unavailable', isinstance(setting, str) and (setting not in remote or setting not in local_names))
            vc.check('refused/as-a-connection-error', issubclass(exc_class(err), (ProtocolError, ConnectionException)))
            return
        vc.check('startup/sent-once-uncompressed-unchecksummed', len(sent) == 2 and sent[1]['kind'] == 'StartupMessage' and
                 all(s['compressor'] is None and s['checksumming'] is False for s in sent))
        if len(sent) != 2:
            return
        named = sent[1]['msg'].attrs['options'].get('COMPRESSION')
        if named is not None:
            vc.check('startup/algorithm-supported-by-both-sides', named in local_names and named in remote)
            vc.check('startup/users-choice-respected', not isinstance(setting, str) or named == setting)
            vc.check('startup/never-snappy-with-checksummed-framing', not (named == 'snappy' and checksummed))
            vc.check('startup/only-when-compression-enabled', setting is not False)
        elif setting is True:
            common = [k for k in local_names if k in remote]
            vc.check('startup/automatic-picks-a-common-algorithm-when-one-is-usable', common == [] or (checksummed and common == ['snappy'])
                     or (checksummed and 'lz4' not in common))
        if auth == 'none':
            call_value(vc.ctx, sent[1]['cb'], [_reply(vc, 'READY')], {})
        else:
            call_value(vc.ctx, sent[1]['cb'], [_reply(vc, 'AUTHENTICATE')], {})
            vc.check('auth/response-sent', len(sent) == 3)
            if len(sent) == 3:
                call_value(vc.ctx, sent[2]['cb'], [_reply(vc, 'AUTH_SUCCESS')], {})
        ready = c.attrs['connected_event'].flag and c.attrs['last_error'] is None
        vc.check('ready', ready)
        want = dict(LOCALS[local]).get(named, (None, None)) if named else (None, None)
        vc.check('ready/compressor-is-exactly-the-negotiated-one', c.attrs['compressor'] is want[0])
        vc.check('ready/decompressor-matches', named is None or c.attrs['decompressor'] is want[1])
        vc.check('ready/checksummed-framing-exactly-for-v5+', c.attrs['_is_checksumming_enabled'] is checksummed and c.attrs['_io_buffer'].checksumming is checksummed)
        if checksummed:
            vc.check('ready/segment-codec-matches-compression', c.attrs['_segment_codec'] is (cmod.segment_codec_lz4 if named else cmod.segment_codec_no_compression))
        if setting is True and local == 'lz4+snappy' and remote == ('snappy',) and pv == 5:
            vc.must_fail('selfcheck/compression-always-negotiated', named is not None)
    finally:
        cmod.locally_supported_compressions = real


@harness('C47', 'factory', functions=[C + 'factory'], native='contracts.native.c47:replay')
def factory(vc):
    """ensures Connection.factory returns the connection only when it is ready (handshake finished without error); a failed handshake
    raises its error (ProtocolVersionUnsupported for a version refusal); when nothing happened within the timeout the connection is
    closed and OperationTimedOut raised"""
    from cassandra.connection import Connection, ProtocolVersionUnsupported, ConnectionException
    from cassandra import OperationTimedOut, AuthenticationFailed
    state = vc.choice('handshake', ['ready', 'failed-auth', 'failed-unsupported-version', 'closed-by-the-peer-mid-handshake', 'still-running'])
    log = []
    ev = Ev()
    ev.flag = state != 'still-running'
    err = None
    if state == 'failed-auth':
        err = SObj(AuthenticationFailed, {'args': ('bad',)})
    elif state == 'failed-unsupported-version':
        err = SObj(ConnectionException, {'args': ('unsupported',)})
    defunct = err is not None
    if state == 'closed-by-the-peer-mid-handshake':
        # the reactors' close() on a connection that never became ready: closed, NOT defunct, the reason recorded in last_error, waiters released
        from cassandra.connection import ConnectionShutdown
        err = SObj(ConnectionShutdown, {'args': ('Connection to ep was closed',)})
    conn = vc.obj(Connection, connected_event=ev, last_error=err, is_unsupported_proto_version=(state == 'failed-unsupported-version'),
                  protocol_version=5, is_closed=(err is not None), is_defunct=defunct)
    vc.stub(C + 'close', lambda self_: log.append('close'))
    vc.stub('time.time', lambda: vc.real('now'))
    made = []

    def cls(endpoint, *a, **k):
        made.append(k)
        return conn
    kind, r = vc.call_catch(Connection.__dict__['factory'].__func__, _M(cls, 'ConnectionClass'), 'ep', vc.real('timeout'))
    if state == 'ready':
        vc.check('ready/returned', kind == 'ok' and r is conn and log == [])
    elif state in ('failed-auth', 'closed-by-the-peer-mid-handshake'):
        vc.check('failed/raises-the-handshake-error', kind == 'exc' and r is err)
    elif state == 'failed-unsupported-version':
        vc.check('failed/raises-ProtocolVersionUnsupported', kind == 'exc' and issubclass(exc_class(r), ProtocolVersionUnsupported))
    else:
        vc.check('timeout/closed-and-OperationTimedOut', kind == 'exc' and issubclass(exc_class(r), OperationTimedOut) and log == ['close'])
    vc.check('post/connect-timeout-passed-on', len(made) == 1 and 'connect_timeout' in made[0])
