"""C45 native replay: real ControlConnection / Session / pools with shutdown() injected at the blocking calls."""
import threading
import types


class Conn(object):
    _product_type = None

    def __init__(self, opened, name, hook=None):
        self.name, self.is_closed, self.is_defunct, self.hook = name, False, False, hook
        self.lock = threading.RLock()
        self.in_flight, self.orphaned_request_ids, self.orphaned_threshold_reached = 0, set(), False
        opened.append(self)

    def close(self):
        self.is_closed = True

    def register_watchers(self, *a, **k):
        pass

    def set_keyspace_blocking(self, ks):
        pass

    def wait_for_responses(self, *a, **k):
        if self.hook:
            self.hook()
        R = types.SimpleNamespace(column_names=[], parsed_rows=[])
        return ((True, R), (True, R))


def replay(model, obligation):
    from contracts.native import rf
    cl = rf.load_cluster()
    fails = []
    if '/_Scheduler/' in obligation:
        # the real scheduler thread, a real executor: after shutdown() nothing that is scheduled runs or stays queued
        import time
        from concurrent.futures import ThreadPoolExecutor
        ex = ThreadPoolExecutor(1)
        ran = []
        s = cl._Scheduler(ex)
        s.schedule(0, ran.append, 'before')
        t0 = time.time()
        while not ran and time.time() - t0 < 5:
            time.sleep(0.01)
        s.shutdown()
        s.schedule(0, ran.append, 'after-schedule')
        s.schedule_unique(0, ran.append, 'after-schedule_unique')
        time.sleep(0.3)
        queued = s._queue.qsize()
        ex.shutdown(wait=True)
        if ran != ['before'] or queued:
            fails.append('tasks run: %r (expected only the one scheduled before shutdown); %d entries still queued after shutdown' % (ran, queued))
        return {'reproduced': bool(fails), 'detail': '; '.join(fails) or 'nothing scheduled after shutdown ran or stayed queued'}
    if '/HostConnectionPool.' in obligation:
        # the real legacy (v1/v2) pool: shutdown() alone, and shutdown() arriving inside each blocking call of _add_conn_if_under_max
        from cassandra.pool import HostConnectionPool
        from contracts.native.c12 import Conn as PConn

        def legacy(conns, trash, factory, keyspace=None):
            lp = HostConnectionPool.__new__(HostConnectionPool)
            sess = types.SimpleNamespace(keyspace=keyspace, cluster=types.SimpleNamespace(connection_factory=factory, get_max_connections_per_host=lambda d: 8,
                                                                                          signal_connection_failure=lambda *a, **k: False))
            lp._session, lp.host, lp.host_distance, lp._lock, lp.is_shutdown = sess, types.SimpleNamespace(endpoint='ep'), 0, threading.RLock(), False
            lp._connections, lp._trash, lp.open_count, lp._keyspace = list(conns), set(trash), len(conns), None
            lp._next_trash_allowed_at, lp._scheduled_for_creation = 0, 0
            lp._conn_available_condition = threading.Condition()
            return lp
        for nc, nt in ((0, 0), (1, 0), (2, 1)):
            conns, trash = [PConn('c%d' % i) for i in range(nc)], [PConn('t%d' % i) for i in range(nt)]
            lp = legacy(conns, trash, None)
            lp.shutdown()
            lp.shutdown()
            if not lp.is_shutdown or any(len(c.closed_with) != 1 for c in conns + trash) or lp.open_count != 0:
                fails.append('shutdown() of a legacy pool with %d connections and %d trashed: closes per connection %r, open_count %d'
                             % (nc, nt, [len(c.closed_with) for c in conns + trash], lp.open_count))
        for when in ('while-opening', 'while-selecting-the-keyspace'):
            opened = []

            class NewConn(PConn):
                def set_keyspace_blocking(self, ks):
                    if when == 'while-selecting-the-keyspace':
                        lp.shutdown()
                    self.keyspace = ks

            def factory(ep, **kw):
                if when == 'while-opening':
                    lp.shutdown()
                opened.append(NewConn('new'))
                return opened[-1]
            c0 = PConn('c0')
            lp = legacy([c0], [], factory, keyspace='ks')
            lp._add_conn_if_under_max()
            left = [c.name for c in [c0] + opened if not c.is_closed]
            if left:
                fails.append('shutdown() %s in _add_conn_if_under_max: connections left open on the shut-down pool: %r' % (when, left))
        return {'reproduced': bool(fails), 'detail': '; '.join(fails[:2]) or 'the legacy pool closes everything it opened'}
    if '/requests-after-shutdown/' in obligation:
        from cassandra.cluster import NoHostAvailable
        for states in ((), ('shutdown',), (None,), ('shutdown', None), ('shutdown', 'shutdown')):
            log = []
            hosts = [rf.Host('h%d' % i) for i in range(len(states))]
            pools = {h: rf.Pool(log, h, st) for h, st in zip(hosts, states) if st}
            f = rf.future(cl, rf.Session(log, pools), hosts)
            errs = []
            f.add_errback(errs.append)
            r = f.send_request()
            sends = [e for e in log if e[0] in ('send', 'borrow')]
            if r is not False or len(errs) != 1 or not isinstance(errs[0], NoHostAvailable) or len(errs[0].errors) != len(hosts) or sends or not f._event.is_set():
                fails.append('request on a session whose pools are %r: send_request returned %r, errbacks %r, borrowed/sent %r, waiters released %s'
                             % (states, r, errs, sends, f._event.is_set()))
        return {'reproduced': bool(fails), 'detail': '; '.join(fails[:2]) or 'refused with NoHostAvailable naming every host'}
    if 'ControlConnection' in obligation:
        opened = []
        cc = cl.ControlConnection.__new__(cl.ControlConnection)
        cc._lock, cc._reconnection_lock = threading.RLock(), threading.RLock()
        cc._is_shutdown, cc._connection, cc._reconnection_handler, cc._timeout = False, None, None, 2.0
        cc._token_meta_enabled, cc._uses_peers_v2, cc._protocol_version = True, True, 4
        host = types.SimpleNamespace(endpoint='ep')
        cc._cluster = types.SimpleNamespace(
            is_shutdown=False, _config_mode=cl._ConfigMode.PROFILES,
            _default_load_balancing_policy=types.SimpleNamespace(make_query_plan=lambda *a: [host]),
            connection_factory=lambda ep, **k: Conn(opened, 'cc', hook=cc.shutdown),
            signal_connection_failure=lambda *a, **k: None)
        cc._refresh_node_list_and_token_map = lambda *a, **k: None
        cc._refresh_schema = lambda *a, **k: True
        try:
            cc._reconnect()
        except Exception:
            pass
        if any(not c.is_closed for c in opened) or cc._connection is not None:
            fails.append('shutdown() during the first metadata queries of a control reconnect: connection left open=%s, installed=%s'
                         % ([c.name for c in opened if not c.is_closed], cc._connection is not None))
    if '_ReconnectionHandler' in obligation:
        from cassandra.pool import _ReconnectionHandler
        opened, handed = [], []

        class H(_ReconnectionHandler):
            def try_reconnect(self):
                c = Conn(opened, 'attempt')
                self.cancel()       # the owner shuts down while this attempt is connecting
                return c

            def on_reconnection(self, c):
                handed.append(c)
        sched = types.SimpleNamespace(schedule=lambda *a, **k: None)
        h = H(sched, iter([1.0]), lambda *a, **k: handed.append('callback'))
        h.run()
        if handed or any(not c.is_closed for c in opened):
            fails.append('handler cancelled while its attempt was connecting: connection closed=%s, handed over=%r' % ([c.is_closed for c in opened], handed))
    if 'Session.add_or_renew_pool' in obligation:
        import cassandra.cluster as cmod
        from cassandra.policies import HostDistance
        opened = []
        s = cl.Session.__new__(cl.Session)
        s._lock, s.is_shutdown, s._initial_connect_futures, s._monitor_reporter = threading.RLock(), False, set(), None
        s._pools, s.keyspace, s._protocol_version = {}, None, 4
        s._profile_manager = types.SimpleNamespace(distance=lambda h: HostDistance.LOCAL)
        tasks = []
        s.cluster = types.SimpleNamespace(executor=types.SimpleNamespace(submit=lambda fn, *a, **k: tasks.append(fn)))

        class Pool(object):
            def __init__(self, host, distance, session):
                self._keyspace, self.is_shutdown = None, False
                opened.append(self)
                session.shutdown()          # shutdown() runs while this pool is connecting

            def shutdown(self):
                self.is_shutdown = True
        real = cmod.HostConnection
        cmod.HostConnection = Pool
        try:
            s.add_or_renew_pool('h', False)
            for t in tasks:
                t()
        finally:
            cmod.HostConnection = real
        if any(not p.is_shutdown for p in opened):
            fails.append('Session.shutdown() while a new pool is connecting: the pool is installed open into the shut-down session (%d open)'
                         % len([p for p in opened if not p.is_shutdown]))
    if 'HostConnection.' in obligation or 'HostConnection._replace' in obligation:
        from contracts.native import c12
        return c12.replay(model, obligation)
    return {'reproduced': bool(fails), 'detail': '; '.join(fails[:3]) or 'no disagreement'}
