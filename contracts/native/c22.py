"""C22 native replay."""
from contracts.native.c21 import H


def replay(model, obligation):
    from cassandra.policies import TokenAwarePolicy, HostDistance
    U = [H('a1', 'dc1'), H('b2', 'dc1'), H('c3', 'dc1'), H('d4', 'dc2')]
    fails = []
    cases = []
    for up in (True, False, None):
        for d in (HostDistance.LOCAL, HostDistance.REMOTE):
            cases.append(([U[1], U[2]], [U[0], U[1], U[2], U[3]], {U[1]: up}, {U[1]: d}))
    for replicas, child_plan, ups, dists in cases:
        for h in U:
            h.is_up = ups.get(h, True)
        dist = {h: dists.get(h, HostDistance.LOCAL if h.datacenter == 'dc1' else HostDistance.REMOTE) for h in U}

        class Child(object):
            def make_query_plan(self, ks=None, q=None):
                return list(child_plan)

            def distance(self, h):
                return dist[h]

        class Meta(object):
            def get_replicas(self, ks, key):
                return list(replicas)

        class Q(object):
            keyspace, routing_key = 'ks', b'k'
        p = TokenAwarePolicy(Child())
        p._cluster_metadata = Meta()
        got = list(p.make_query_plan('ks', Q()))
        first = [r for r in replicas if r.is_up and dist[r] == HostDistance.LOCAL]
        want = first + [h for h in child_plan if h not in first]
        if got != want:
            fails.append('replicas %s (b2: is_up=%s, distance=%s), child plan %s: plan %s, expected %s' % (replicas, U[1].is_up, dist[U[1]], child_plan, got, want))
    return {'reproduced': bool(fails), 'detail': '; '.join(fails[:2]) or 'no disagreement'}
