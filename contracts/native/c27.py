"""C27 native side: an independent CQL lexer for quoted names / string literals / bare words; the real quoting functions over every string of a small alphabet."""
import itertools
import os
import sys
sys.path.insert(0, os.path.dirname(os.path.dirname(os.path.dirname(os.path.abspath(__file__)))))

RESERVED = set(w.lower() for w in (
    "SELECT FROM WHERE AND ENTRIES FULL INSERT UPDATE WITH LIMIT USING USE SET BEGIN UNLOGGED BATCH APPLY TRUNCATE DELETE IN CREATE KEYSPACE SCHEMA COLUMNFAMILY TABLE "
    "MATERIALIZED VIEW INDEX ON TO DROP PRIMARY INTO ALTER RENAME ADD ORDER BY ASC DESC ALLOW IF IS GRANT OF REVOKE MODIFY AUTHORIZE DESCRIBE EXECUTE NORECURSIVE TOKEN "
    "NULL NOT NAN INFINITY OR REPLACE DEFAULT UNSET MBEAN MBEANS").split())


def lex_one(text):
    """The single token `text` consists of, as ('ident', name) / ('string', value), or None when it is not exactly one such token
    (Cassandra's Lexer.g: IDENT, QUOTED_NAME, STRING_LITERAL; whitespace is a token separator, so any is disqualifying here)."""
    if not text:
        return None
    q = text[0]
    if q in '"\'':
        i, out = 1, []
        while i < len(text):
            if text[i] == q:
                if i + 1 < len(text) and text[i + 1] == q:
                    out.append(q)
                    i += 2
                    continue
                break
            out.append(text[i])
            i += 1
        else:
            return None                 # unterminated
        if i != len(text) - 1:
            return None                 # something follows the closing quote
        val = ''.join(out)
        if q == '"' and not val:
            return None                 # QUOTED_NAME needs at least one character
        return ('ident' if q == '"' else 'string', val)
    if not (text[0].isascii() and text[0].isalpha()) or not all(c.isascii() and (c.isalnum() or c == '_') for c in text):
        return None
    if text.lower() in RESERVED:
        return ('keyword', text.lower())
    return ('ident', text.lower())


def quoting_round_trip(tier, seed):
    from cassandra.metadata import protect_name, protect_value, escape_name, is_valid_name, maybe_escape_name
    from cassandra.encoder import cql_quote
    fails, n = [], 0
    maxlen = 6 if tier == 'quick' else 8
    for alphabet in ('"a \n', "'a \n", 'aA1_\n"'):
        for ln in range(0, (maxlen if len(alphabet) == 4 else maxlen - 1) + 1):
            for tup in itertools.product(alphabet, repeat=ln):
                s = ''.join(tup)
                n += 1
                if s:
                    for f in (protect_name, escape_name, maybe_escape_name):
                        got = lex_one(f(s))
                        if got != ('ident', s):
                            fails.append('%s(%r) = %r lexes as %r' % (f.__name__, s, f(s), got))
                for f in (protect_value, cql_quote):
                    got = lex_one(f(s))
                    if got != ('string', s):
                        fails.append('%s(%r) = %r lexes as %r' % (f.__name__, s, f(s), got))
                if len(fails) > 3:
                    break
    for w in sorted(RESERVED) + ['Select', 'LIMIT', 'user', 'key', 'x' * 50, 'é', 'naïve', 'a.b', 'a-b', '1a', '_a', 'a b', '', 'ks\n']:
        n += 1
        if not w:
            continue
        got = lex_one(protect_name(w))
        if got != ('ident', w):
            fails.append('protect_name(%r) = %r lexes as %r' % (w, protect_name(w), got))
    return {'name': 'quoting-round-trip-through-an-independent-lexer', 'kind': 'bounded', 'cases': n, 'evaluations': n, 'distinct_nontrivial': n,
            'rule': 'lex(protect_name(s)) == identifier s; lex(protect_value(s)) == lex(cql_quote(s)) == string s (lemma L1 of the contract)',
            'bound': 'every string over {quote, a, space, newline} up to length %d for both quote characters, every string over {a, A, 1, _, newline, "} up to length %d, all reserved words and 14 special names' % (maxlen, maxlen - 1),
            'violations': fails[:3]}


def replay(model, obligation):
    from cassandra.metadata import protect_name, protect_value, is_valid_name
    from cassandra.encoder import cql_quote
    fails = []
    for key, fs in (('name', (protect_name,)), ('text', (protect_value, cql_quote)), ('keyspace', (protect_name,))):
        s = model.get(key)
        if isinstance(s, str) and s:
            for f in fs:
                want = ('ident', s) if f is protect_name else ('string', s)
                if lex_one(f(s)) != want:
                    fails.append('%s(%r) = %r lexes as %r' % (f.__name__, s, f(s), lex_one(f(s))))
    if 'keyspace-switch' in obligation:
        import inspect
        from cassandra.connection import Connection
        for fn in (Connection.set_keyspace_blocking, Connection.set_keyspace_async):
            sent = []

            class C(Connection):
                keyspace = None

                def __init__(self):
                    self.lock = __import__('threading').RLock()
                    self.in_flight, self.max_request_id = 0, 10

                def wait_for_response(self, q, **kw):
                    sent.append(q.query)
                    raise RuntimeError('stop')

                def get_request_id(self):
                    return 1

                def send_msg(self, q, *a, **kw):
                    sent.append(q.query)
            c = C()
            ks = model.get('keyspace') if isinstance(model.get('keyspace'), str) and model.get('keyspace') else 'a"b'
            try:
                fn(c, ks) if fn is Connection.set_keyspace_blocking else fn(c, ks, lambda *a: None)
            except Exception:
                pass
            if not sent or not sent[0].startswith('USE ') or lex_one(sent[0][4:]) != ('ident', ks):
                fails.append('%s(%r) sends %r' % (fn.__name__, ks, sent[:1]))
    if not fails:
        fails = list(quoting_round_trip('quick', 0)['violations'])
    return {'reproduced': bool(fails), 'detail': '; '.join(fails[:2]) or 'no disagreement'}
