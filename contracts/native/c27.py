"""C27 native side: an independent CQL lexer for quoted names / string literals / bare words; the real quoting functions over every string of a small alphabet."""
import itertools
import os
import sys
sys.path.insert(0, os.path.dirname(os.path.dirname(os.path.dirname(os.path.abspath(__file__)))))

RESERVED = set(w.lower() for w in (
    "SELECT FROM WHERE AND ENTRIES FULL INSERT UPDATE WITH LIMIT USING USE SET BEGIN UNLOGGED BATCH APPLY TRUNCATE DELETE IN CREATE KEYSPACE SCHEMA COLUMNFAMILY TABLE "
    "MATERIALIZED VIEW INDEX ON TO DROP PRIMARY INTO ALTER RENAME ADD ORDER BY ASC DESC ALLOW IF IS GRANT OF REVOKE MODIFY AUTHORIZE DESCRIBE EXECUTE NORECURSIVE TOKEN "
    "NULL NOT NAN INFINITY OR REPLACE DEFAULT UNSET MBEAN MBEANS").split())


def lex_one(text):
    """The single token `text` consists of, as ('ident', name) / ('string', value), or None when it is not exactly one such token
    (Cassandra's Lexer.g: IDENT, QUOTED_NAME, STRING_LITERAL; whitespace is a token separator, so any is disqualifying here)."""
    if not text:
        return None
    q = text[0]
    if q in '"\'':
        i, out = 1, []
        while i < len(text):
            if text[i] == q:
                if i + 1 < len(text) and text[i + 1] == q:
                    out.append(q)
                    i += 2
                    continue
                break
            out.append(text[i])
            i += 1
        else:
            return None                 # unterminated
        if i != len(text) - 1:
            return None                 # something follows the closing quote
        val = ''.join(out)
        if q == '"' and not val:
            return None                 # QUOTED_NAME needs at least one character
        return ('ident' if q == '"' else 'string', val)
    if not (text[0].isascii() and text[0].isalpha()) or not all(c.isascii() and (c.isalnum() or c == '_') for c in text):
        return None
    if text.lower() in RESERVED:
        return ('keyword', text.lower())
    return ('ident', text.lower())


def quoting_round_trip(tier, seed):
    from cassandra.metadata import protect_name, protect_value, escape_name, is_valid_name, maybe_escape_name
    from cassandra.encoder import cql_quote
    fails, n = [], 0
    maxlen = 6 if tier == 'quick' else 8
    for alphabet in ('"a \n', "'a \n", 'aA1_\n"'):
        for ln in range(0, (maxlen if len(alphabet) == 4 else maxlen - 1) + 1):
            for tup in itertools.product(alphabet, repeat=ln):
                s = ''.join(tup)
                n += 1
                if s:
                    for f in (protect_name, escape_name, maybe_escape_name):
                        got = lex_one(f(s))
                        if got != ('ident', s):
                            fails.append('%s(%r) = %r lexes as %r' % (f.__name__, s, f(s), got))
                for f in (protect_value, cql_quote):
                    got = lex_one(f(s))
                    if got != ('string', s):
                        fails.append('%s(%r) = %r lexes as %r' % (f.__name__, s, f(s), got))
                if len(fails) > 3:
                    break
    for w in sorted(RESERVED) + ['Select', 'LIMIT', 'user', 'key', 'x' * 50, 'é', 'naïve', 'a.b', 'a-b', '1a', '_a', 'a b', '', 'ks\n']:
        n += 1
        if not w:
            continue
        got = lex_one(protect_name(w))
        if got != ('ident', w):
            fails.append('protect_name(%r) = %r lexes as %r' % (w, protect_name(w), got))
    return {'name': 'quoting-round-trip-through-an-independent-lexer', 'kind': 'bounded', 'cases': n, 'evaluations': n, 'distinct_nontrivial': n,
            'rule': 'lex(protect_name(s)) == identifier s; lex(protect_value(s)) == lex(cql_quote(s)) == string s (lemma L1 of the contract)',
            'bound': 'every string over {quote, a, space, newline} up to length %d for both quote characters, every string over {a, A, 1, _, newline, "} up to length %d, all reserved words and 14 special names' % (maxlen, maxlen - 1),
            'violations': fails[:3]}


def replay(model, obligation):
    from cassandra.metadata import protect_name, protect_value, is_valid_name
    from cassandra.encoder import cql_quote
    fails = []
    for key, fs in (('name', (protect_name,)), ('text', (protect_value, cql_quote)), ('keyspace', (protect_name,))):
        s = model.get(key)
        if isinstance(s, str) and s:
            for f in fs:
                want = ('ident', s) if f is protect_name else ('string', s)
                if lex_one(f(s)) != want:
                    fails.append('%s(%r) = %r lexes as %r' % (f.__name__, s, f(s), lex_one(f(s))))
    if 'index-target' in obligation:
        import re
        import types
        from cassandra.metadata import SchemaParserV22
        names = [n for n in (model.get('column_name'),) if isinstance(n, str) and n] + ['MixedCase', 'select', 'two words', 'q"uote', 'plain_1', '\u00e9t\u00e9']
        for nm in names:
            for kind, typ, opts in (('COMPOSITES', ('text', ()), None), ('COMPOSITES', ('map', ()), '{"index_keys": ""}'), ('COMPOSITES', ('frozen', ('list',)), None), ('CUSTOM', ('text', ()), '{"class_name": "x"}')):
                ct = types.SimpleNamespace(typename=typ[0], subtypes=[types.SimpleNamespace(typename=t) for t in typ[1]])
                col = types.SimpleNamespace(name=nm, _cass_type=ct, table=types.SimpleNamespace(keyspace_name='ks', name='tb'))
                im = SchemaParserV22._build_index_metadata(col, {'index_name': 'i', 'index_type': kind, 'index_options': opts})
                t = im.index_options['target']
                inner = re.sub(r'^(keys|full)\((.*)\)$', r'\2', t, flags=re.S)
                if lex_one(inner) != ('ident', nm):
                    fails.append('index target for column %r (%s on %s): %r reads back as %r' % (nm, kind, typ[0], t, lex_one(inner)))
    if 'keyspace-switch' in obligation:
        import inspect
        from cassandra.connection import Connection
        for fn in (Connection.set_keyspace_blocking, Connection.set_keyspace_async):
            sent = []

            class C(Connection):
                keyspace = None

                def __init__(self):
                    self.lock = __import__('threading').RLock()
                    self.in_flight, self.max_request_id = 0, 10

                def wait_for_response(self, q, **kw):
                    sent.append(q.query)
                    raise RuntimeError('stop')

                def get_request_id(self):
                    return 1

                def send_msg(self, q, *a, **kw):
                    sent.append(q.query)
            c = C()
            ks = model.get('keyspace') if isinstance(model.get('keyspace'), str) and model.get('keyspace') else 'a"b'
            try:
                fn(c, ks) if fn is Connection.set_keyspace_blocking else fn(c, ks, lambda *a: None)
            except Exception:
                pass
            if not sent or not sent[0].startswith('USE ') or lex_one(sent[0][4:]) != ('ident', ks):
                fails.append('%s(%r) sends %r' % (fn.__name__, ks, sent[:1]))
    if not fails:
        fails = list(quoting_round_trip('quick', 0)['violations'])
    return {'reproduced': bool(fails), 'detail': '; '.join(fails[:2]) or 'no disagreement'}


def lex_all(text):
    """every identifier / string token of a CQL statement, read the way Cassandra's lexer reads them (bare words lower-cased; quoted names and string literals
    with their doubled quotes undone; $$ ... $$ blocks as one string token); other characters are skipped"""
    out, i, n = [], 0, len(text)
    while i < n:
        c = text[i]
        if c in '"\'':
            j, buf = i + 1, []
            while j < n:
                if text[j] == c:
                    if j + 1 < n and text[j + 1] == c:
                        buf.append(c)
                        j += 2
                        continue
                    break
                buf.append(text[j])
                j += 1
            out.append(('ident' if c == '"' else 'string', ''.join(buf)))
            i = j + 1
        elif text.startswith('$$', i):
            j = text.find('$$', i + 2)
            j = n if j < 0 else j
            out.append(('string', text[i + 2:j]))
            i = j + 2
        elif c.isascii() and (c.isalpha() or c == '_'):
            j = i
            while j < n and text[j].isascii() and (text[j].isalnum() or text[j] == '_'):
                j += 1
            out.append(('ident', text[i:j].lower()))
            i = j
        else:
            i += 1
    return out


AWKWARD = ['MixedCase', 'select', 'two words', 'q"uote', "it's", 'été', 'UPPER', '1digit', 'has-dash', 'table']


def ddl_names_read_back(tier, seed):
    """every name the driver puts into the DDL it generates (export_as_string / as_cql_query of keyspaces, tables, columns, indexes, user types, functions,
    aggregates, triggers) reads back as that name: the statement, tokenised by the independent lexer, contains the name as an identifier token"""
    import random
    import types
    from cassandra import metadata as md
    from cassandra import cqltypes
    rng = random.Random(seed)
    fails, n = [], 0
    rounds = 40 if tier == 'quick' else 400

    def check(what, text, names, strings=()):
        nonlocal n
        n += 1
        toks = lex_all(text)
        idents = [v for k, v in toks if k == 'ident']
        strs = [v for k, v in toks if k == 'string']
        for nm in names:
            if nm not in idents:
                fails.append('%s: the name %r does not read back from %r' % (what, nm, text[:160]))
                return
        for sv in strings:
            if sv not in strs:
                fails.append('%s: the text %r does not read back from %r' % (what, sv, text[:160]))
                return
    for _ in range(rounds):
        pick = lambda: rng.choice(AWKWARD) + rng.choice(['', '_x', ' y'])
        ks, tb, c1, c2, c3, idx, ut, f1, fn, ag, tr = [pick() for _i in range(11)]
        if len({c1, c2, c3}) < 3 or len({tb, ut}) < 2:
            continue
        km = md.KeyspaceMetadata(ks, True, 'SimpleStrategy', {'replication_factor': '1'})
        check('CREATE KEYSPACE', km.as_cql_query(), [ks])
        tm = md.TableMetadata(ks, tb)
        cols = [md.ColumnMetadata(tm, c1, 'int'), md.ColumnMetadata(tm, c2, 'text'), md.ColumnMetadata(tm, c3, 'frozen<list<int>>')]
        tm.partition_key, tm.clustering_key = [cols[0]], [cols[1]]
        for c in cols:
            tm.columns[c.name] = c
        tm.options = {}
        try:
            check('CREATE TABLE', tm.as_cql_query(), [ks, tb, c1, c2, c3])
        except Exception as e:
            fails.append('CREATE TABLE for %r raised %r' % ((ks, tb, c1, c2, c3), e))
        for target_col, kind, opts in ((c2, 'COMPOSITES', None), (c3, 'COMPOSITES', None), (c2, 'CUSTOM', '{"class_name": "org.example.Index"}')):
            ct = types.SimpleNamespace(typename='frozen' if target_col is c3 else 'text', subtypes=[types.SimpleNamespace(typename='list')])
            col = types.SimpleNamespace(name=target_col, _cass_type=ct, table=tm)
            im = md.SchemaParserV22._build_index_metadata(col, {'index_name': idx, 'index_type': kind, 'index_options': opts})
            check('CREATE INDEX (2.x schema)', im.as_cql_query(), [ks, tb, idx, target_col])
        im3 = md.IndexMetadata(ks, tb, idx, 'COMPOSITES', {'target': md.protect_name(c2)})
        check('CREATE INDEX', im3.as_cql_query(), [ks, tb, idx, c2])
        um = md.UserType(ks, ut, [c1, c2], ['int', 'text'])
        check('CREATE TYPE', um.as_cql_query(), [ks, ut, c1, c2])
        body = "return 'x';"
        fm = md.Function(ks, fn, ['int'], [f1], 'int', 'java', body, True, False, False, [])
        check('CREATE FUNCTION', fm.as_cql_query(), [ks, fn, f1], [body])
        am = md.Aggregate(ks, ag, ['int'], fn, 'int', None, '0', 'int', False)
        check('CREATE AGGREGATE', am.as_cql_query(), [ks, ag, fn])
        tg = md.TriggerMetadata(tm, tr, {'class': 'org.example.Trigger'})
        check('CREATE TRIGGER', tg.as_cql_query(), [ks, tb, tr], ['org.example.Trigger'])
        if len(fails) > 3:
            break
    return {'name': 'generated-ddl-names-read-back', 'kind': 'bounded', 'cases': n, 'evaluations': n, 'distinct_nontrivial': n,
            'rule': 'names drawn from %d awkward shapes (mixed case, reserved words, spaces, quotes, non-ASCII, leading digit, dashes) x 3 suffixes for keyspace, table, columns, index, user type and its fields, function and its argument, aggregate, trigger; the generated statement tokenised by the independent lexer must contain each name as an identifier' % len(AWKWARD),
            'bound': '%d statements, seed %d' % (n, seed), 'violations': fails[:3]}
