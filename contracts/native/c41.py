"""C41 spec + native replay (no z3 import).

Spec constants are the native protocol's version numbers, written from the protocol documents
(v1..v6, DSE v1 = 0x41, DSE v2 = 0x42; v6 is beta), not read from the driver.
"""
from pyvc.logic import implies, and_, or_, not_, eq, in_

SUPPORTED = (0x42, 0x41, 6, 5, 4, 3, 2, 1)
BETA = (6,)
NONBETA = tuple(v for v in SUPPORTED if v not in BETA)
MIN_SUPPORTED = 1


def post_lower(p, result):
    none_lower = and_(*[not_(v < p) for v in NONBETA])
    return [('is-next-lower-nonbeta-or-zero',
             or_(and_(eq(result, 0), none_lower),
                 and_(in_(result, NONBETA), result < p, *[implies(v < p, v <= result) for v in NONBETA])))]


def replay(model, obligation):
    import sys, types
    from cassandra import ProtocolVersion
    if 'get_lower_supported' in obligation:
        p = int(model.get('previous_version', 0))
        r = ProtocolVersion.get_lower_supported(p)
        failed = [n for n, c in post_lower(p, r) if not c]
        return {'reproduced': bool(failed), 'detail': 'get_lower_supported(%d) -> %r; failed %s' % (p, r, failed)}
    if 'explicit-version-recorded' in obligation:
        from cassandra.connection import Connection
        m = types.ModuleType('cassandra.io.libevreactor')
        m.LibevConnection = type('LibevConnection', (Connection,), {})
        sys.modules.setdefault('cassandra.io.libevreactor', m)
        from cassandra.cluster import Cluster
        from cassandra import DriverException
        fails = []
        for v in SUPPORTED:
            c = Cluster(protocol_version=v, allow_beta_protocol_version=True)
            try:
                c.protocol_downgrade('host', v)
                fails.append('Cluster(protocol_version=%d): a server that rejects v%d makes the driver go on with v%d' % (v, v, c.protocol_version))
            except DriverException:
                pass
            finally:
                c.shutdown()
        c = Cluster()
        if c._protocol_version_explicit:
            fails.append('Cluster() without a version is treated as pinned to %d' % c.protocol_version)
        c.shutdown()
        return {'reproduced': bool(fails), 'detail': '; '.join(fails[:3]) or 'every explicitly given version is kept'}
    if 'protocol_downgrade' in obligation or 'try_connect' in obligation:
        from cassandra.connection import Connection
        m = types.ModuleType('cassandra.io.libevreactor')
        m.LibevConnection = type('LibevConnection', (Connection,), {})
        sys.modules.setdefault('cassandra.io.libevreactor', m)
        from cassandra.cluster import Cluster
        from cassandra import DriverException
        c = Cluster.__new__(Cluster)
        explicit = bool(model.get('explicit', False))
        v0 = int(model.get('protocol_version', 4))
        prev = int(model.get('previous_version', v0))
        c._protocol_version_explicit = explicit
        c.protocol_version = v0
        try:
            c.protocol_downgrade('host', prev)
            raised = None
        except DriverException as e:
            raised = e
        v1 = c.protocol_version
        exp_lower = max([v for v in NONBETA if v < prev] or [0])
        ok = (raised is not None and v1 == v0) if (explicit or exp_lower < MIN_SUPPORTED) else (raised is None and v1 == exp_lower)
        return {'reproduced': not ok, 'detail': 'explicit=%s version=%d previous=%d -> raised=%r version=%d (expected lower=%d)' % (explicit, v0, prev, raised, v1, exp_lower)}
    if 'process_msg' in obligation:
        import threading
        from cassandra.connection import Connection
        from cassandra.protocol import ProtocolException
        seen = []

        class C(Connection):
            def defunct(self, exc):
                seen.append(self.is_unsupported_proto_version)
        c = C.__new__(C)
        sid = int(model.get('stream_id', 0))
        resp = ProtocolException(code=10, message=model.get('message', 'unsupported protocol version'), info=None)
        c._continuous_paging_sessions = {}
        c.lock = threading.RLock()
        c.orphaned_request_ids = set()
        c.in_flight = 1
        c._on_orphaned_stream_released = None
        c.request_ids = __import__('collections').deque()
        c.user_type_map = {}
        c.decompressor = None
        c._requests = {sid: (lambda r: None, lambda *a, **k: resp, None)}
        hdr = type('H', (), dict(stream=sid, version=4, flags=0, opcode=0))()
        c.process_msg(hdr, b'')
        bad = ('unsupported protocol version' in resp.message) and not (seen and seen[0] is True)
        return {'reproduced': bad, 'detail': 'is_unsupported_proto_version observed inside defunct(): %r' % (seen,)}
    return {'reproduced': False, 'detail': 'no native replay for this obligation'}
