"""Native replay for varint obligations (no z3 import)."""
from spec import cser


def replay(model, obligation):
    from cassandra import marshal
    x = model.get('big', model.get('x', 0))
    x = int(x) if not isinstance(x, str) else int(x)
    cands = [x] + [s * (1 << (8 * k - 1)) + d for k in range(1, 12) for s in (1, -1) for d in (-1, 0, 1)]
    for c in cands:
        b = marshal.varint_pack(c)
        exp = cser.biginteger_bytes(c)
        back = marshal.varint_unpack(b)
        if b != exp or back != c:
            return {'reproduced': True, 'detail': 'varint_pack(%d) = %s, BigInteger.toByteArray = %s, unpacked %r%s'
                    % (c, b.hex(), exp.hex(), back, '' if c == x else ' (found by concrete search around byte boundaries; model value was %d)' % x)}
    return {'reproduced': False, 'detail': 'varint_pack(%d) and byte-boundary neighbours agree with BigInteger.toByteArray' % x}
