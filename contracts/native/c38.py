"""C38 native side (bounded): real cqlengine models, real column types; the routing key attached by _execute_statement against Cassandra's partition-key encoding."""
import itertools
import os
import random
import struct
import sys
import uuid
sys.path.insert(0, os.path.dirname(os.path.dirname(os.path.dirname(os.path.abspath(__file__)))))


def composite(parts):
    """Cassandra's CompositeType / partition key encoding: the single component, or <uint16 len><bytes><0> per component"""
    return parts[0] if len(parts) == 1 else b''.join(struct.pack('>H', len(p)) + p + b'\x00' for p in parts)


def real_models(tier, seed):
    from contracts.native.c35 import _import_cqlengine
    columns, models, query, st = _import_cqlengine()
    from cassandra.cqlengine import operators as ops
    from cassandra import cqltypes
    rng = random.Random(seed)
    fails, n, seen = [], 0, set()
    kinds = [('Integer', columns.Integer, cqltypes.Int32Type, lambda: rng.choice([0, rng.randrange(-2 ** 31, 2 ** 31)])), ('BigInt', columns.BigInt, cqltypes.LongType, lambda: rng.randrange(-2 ** 63, 2 ** 63)),
             ('Text', columns.Text, cqltypes.UTF8Type, lambda: rng.choice(['', 'a', 'é', 'key-%d' % rng.randrange(1000)])), ('UUID', columns.UUID, cqltypes.UUIDType, lambda: uuid.UUID(int=rng.getrandbits(128))),
             ('SmallInt', columns.SmallInt, cqltypes.ShortType, lambda: rng.randrange(-2 ** 15, 2 ** 15)), ('Boolean', columns.Boolean, cqltypes.BooleanType, lambda: rng.random() < 0.5)]
    sent = {}

    class Cluster(object):
        protocol_version = 4

    class Conn(object):
        @staticmethod
        def get_cluster(c=None):
            return Cluster

        @staticmethod
        def execute(s, params, timeout=None, connection=None):
            sent['s'] = s
            return []
    old = query.conn
    query.conn = Conn
    counter = [0]
    try:
        shapes = [p for ln in (1, 2, 3, 4) for p in itertools.product('PC', repeat=ln) if 'P' in p]
        for shape in shapes:
            for _ in range(3 if tier == 'quick' else 30):
                picks = [rng.choice(kinds) for _ in shape]
                attrs = {'__keyspace__': 'ks', '__module__': __name__, '_get_connection': classmethod(lambda cls: None)}
                for i, (kind, pick) in enumerate(zip(shape, picks)):
                    attrs['k%d' % i] = pick[1](partition_key=True) if kind == 'P' else pick[1](primary_key=True)
                attrs['v'] = columns.Integer()
                counter[0] += 1
                M = models.ModelMetaClass('M%d' % counter[0], (models.Model,), attrs)
                pcols = [(i, picks[i]) for i, kind in enumerate(shape) if kind == 'P']
                vals = {i: p[3]() for i, p in pcols}
                want = composite([p[2].serialize(vals[i], 4) for i, p in pcols])
                order = [i for i, _ in pcols]
                rng.shuffle(order)
                where = [st.WhereClause('k%d' % i, ops.EqualsOperator(), M._columns['k%d' % i].to_database(vals[i])) for i in order]
                seen.add((''.join(shape), tuple(p[0] for p in picks), repr(sorted(vals.items()))))
                for stmt in (st.SelectStatement('ks.t', where=where), st.UpdateStatement('ks.t', assignments=[st.AssignmentClause('v', 1)], where=where), st.DeleteStatement('ks.t', where=where)):
                    n += 1
                    sent.clear()
                    try:
                        query._execute_statement(M, stmt, None, None)
                        got = sent['s'].routing_key
                    except Exception as e:
                        got = 'raised %r' % (e,)
                    if got != want:
                        fails.append('model with key columns %s (%s), filters in order %s: routing key %r, Cassandra hashes %r' %
                                     (''.join(shape), ', '.join(p[0] for p in picks), order, got, want))
                if len(pcols) > 1:
                    n += 1
                    sent.clear()
                    query._execute_statement(M, st.SelectStatement('ks.t', where=where[:-1]), None, None)
                    if sent['s'].routing_key is not None:
                        fails.append('partial partition key got a routing key %r' % (sent['s'].routing_key,))
            if len(fails) > 3:
                break
    finally:
        query.conn = old
    return {'name': 'real-models-routing-keys', 'kind': 'bounded', 'cases': n, 'evaluations': n, 'distinct_nontrivial': len(seen), 'samples': [list(map(str, x)) for x in sorted(seen)[:2]],
            'rule': 'distinct = distinct (key shape, column types, key values) models; statement.routing_key == composite(core_serialize(partition key values in declaration order)) through the real ModelMetaClass and _execute_statement',
            'bound': 'every declaration order of up to 4 key columns (P/C), %d random type assignments each from 6 key-capable column types, random values, shuffled filter order, SELECT/UPDATE/DELETE' % (3 if tier == 'quick' else 30),
            'violations': fails[:3]}


def replay(model, obligation):
    r = real_models('quick', 0)
    return {'reproduced': bool(r['violations']), 'detail': '; '.join(r['violations'][:2]) or 'no disagreement on real models'}
