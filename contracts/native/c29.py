"""C29 native side (bounded): rendered literals parsed back by an independent CQL literal parser and compared with the value the prepared-statement path would send."""
import datetime
import decimal
import ipaddress
import math
import os
import random
import re
import struct
import sys
import uuid
sys.path.insert(0, os.path.dirname(os.path.dirname(os.path.dirname(os.path.abspath(__file__)))))


class LexError(Exception):
    pass


def parse_term(text, i=0):
    """one CQL term starting at text[i]; returns (value, next index).  Values: ('str', s) ('hex', bytes) ('int', n) ('float', repr) ('uuid', u) ('null',) ('bool', b) ('list', [..]) ('set', [..])
    ('map', [(k, v)..]) ('tuple', [..])"""
    n = len(text)
    if i >= n:
        raise LexError('term expected at end')
    c = text[i]
    if c == "'":
        out, j = [], i + 1
        while True:
            if j >= n:
                raise LexError('unterminated string')
            if text[j] == "'":
                if j + 1 < n and text[j + 1] == "'":
                    out.append("'")
                    j += 2
                    continue
                return ('str', ''.join(out)), j + 1
            out.append(text[j])
            j += 1
    if c == '[' or c == '(':
        close = ']' if c == '[' else ')'
        items, j = [], i + 1
        if text[j] == close:
            return ('list' if c == '[' else 'tuple', items), j + 1
        while True:
            v, j = parse_term(text, j)
            items.append(v)
            if text.startswith(', ', j):
                j += 2
            elif text[j] == close:
                return ('list' if c == '[' else 'tuple', items), j + 1
            else:
                raise LexError('bad collection at %d' % j)
    if c == '{':
        j = i + 1
        if text[j] == '}':
            return ('set', []), j + 1
        first, j = parse_term(text, j)
        if text.startswith(': ', j):
            pairs = []
            v, j = parse_term(text, j + 2)
            pairs.append((first, v))
            while text.startswith(', ', j):
                k, j = parse_term(text, j + 2)
                if not text.startswith(': ', j):
                    raise LexError('map entry without value')
                v, j = parse_term(text, j + 2)
                pairs.append((k, v))
            if text[j] != '}':
                raise LexError('bad map')
            return ('map', pairs), j + 1
        items = [first]
        while text.startswith(', ', j):
            v, j = parse_term(text, j + 2)
            items.append(v)
        if text[j] != '}':
            raise LexError('bad set')
        return ('set', items), j + 1
    m = re.compile(r'[0-9a-fA-F]{8}-[0-9a-fA-F]{4}-[0-9a-fA-F]{4}-[0-9a-fA-F]{4}-[0-9a-fA-F]{12}').match(text, i)
    if m:
        return ('uuid', uuid.UUID(m.group(0))), m.end()
    m = re.compile(r'0[xX][0-9a-fA-F]*').match(text, i)
    if m:
        return ('hex', bytes.fromhex(m.group(0)[2:])), m.end()
    m = re.compile(r'-?(NaN|Infinity)').match(text, i)
    if m:
        return ('float', m.group(0)), m.end()
    m = re.compile(r'-?[0-9]+(\.[0-9]*)?([eE][+-]?[0-9]+)?').match(text, i)
    if m:
        return (('int', int(m.group(0))) if not (m.group(1) or m.group(2)) else ('float', m.group(0))), m.end()
    m = re.compile(r'NULL|null|true|false|True|False').match(text, i)
    if m:
        w = m.group(0)
        return (('null',) if w.lower() == 'null' else ('bool', w.lower() == 'true')), m.end()
    raise LexError('no term at %d: %r' % (i, text[i:i + 20]))


def parse_one(text):
    v, j = parse_term(text, 0)
    if j != len(text):
        raise LexError('%d characters after the term: %r' % (len(text) - j, text[j:j + 20]))
    return v


def same_value(py, lit):
    """the parsed literal denotes the value the prepared path would send for the Python value"""
    from cassandra.util import Date, Time, sortedset, OrderedMap
    from cassandra.cqltypes import DateType
    if py is None:
        return lit == ('null',)
    if isinstance(py, bool):
        return lit == ('bool', py)
    if isinstance(py, str):
        return lit == ('str', str(py))
    if isinstance(py, (bytes, bytearray, memoryview)):
        return lit == ('hex', bytes(py))
    if isinstance(py, int):
        return lit == ('int', int(py))
    if isinstance(py, float):
        if lit[0] == 'int':
            return float(lit[1]) == py
        if lit[0] != 'float':
            return False
        t = lit[1]
        f = float(t.replace('Infinity', 'inf').replace('NaN', 'nan'))
        return (math.isnan(f) and math.isnan(py)) or (f == py and math.copysign(1, f) == math.copysign(1, py))
    if isinstance(py, decimal.Decimal):
        if lit[0] not in ('float', 'int'):
            return False
        t = str(lit[1])
        if py.is_nan() or py.is_infinite():
            return t.replace('-', '') in ('NaN', 'Infinity')
        d = decimal.Decimal(t)
        return d == py and d.as_tuple() == py.as_tuple() or d == py
    if isinstance(py, uuid.UUID):
        return lit == ('uuid', py)
    if isinstance(py, datetime.datetime):
        return lit == ('int', struct.unpack('>q', DateType.serialize(py, 4))[0])
    if isinstance(py, datetime.date):
        return lit == ('str', '%04d-%02d-%02d' % (py.year, py.month, py.day))
    if isinstance(py, Date):
        return lit == ('int', py.days_from_epoch + 2 ** 31)
    if isinstance(py, (datetime.time, Time)):
        ns = py.nanosecond_time if isinstance(py, Time) else ((py.hour * 60 + py.minute) * 60 + py.second) * 10 ** 9 + py.microsecond * 1000
        if lit[0] != 'str':
            return False
        try:
            return Time(lit[1]).nanosecond_time == ns
        except Exception:
            return False
    if isinstance(py, (ipaddress.IPv4Address, ipaddress.IPv6Address)):
        return lit[0] == 'str' and ipaddress.ip_address(lit[1]) == py
    if isinstance(py, (list, tuple)):
        return lit[0] in ('list', 'tuple') and len(lit[1]) == len(py) and all(same_value(a, b) for a, b in zip(py, lit[1]))
    if isinstance(py, (set, frozenset, sortedset)):
        items = list(py)
        if lit[0] == 'set' and len(lit[1]) == len(items):
            return all(same_value(a, b) for a, b in zip(items, lit[1]))
        return False
    if isinstance(py, (dict, OrderedMap)):
        items = list(py.items())
        if not items:
            return lit in (('set', []), ('map', []))
        return lit[0] == 'map' and len(lit[1]) == len(items) and all(same_value(k, lk) and same_value(v, lv) for (k, v), (lk, lv) in zip(items, lit[1]))
    return False


def gen_scalar(rng):
    from cassandra.util import Date, Time
    texts = ['', "'", "''", "a'b", "x' OR '1'='1", 'é中\U0001f600', 'line\nbreak', '%s %(a)s 100%', '--', ';', '\\', '"q"', "\x00"]
    k = rng.randrange(16)
    if k == 0:
        return rng.choice(texts) + rng.choice(texts)
    if k == 1:
        return bytes(rng.randrange(256) for _ in range(rng.randrange(0, 6)))
    if k == 2:
        return rng.choice([0, -1, 2 ** 63, -2 ** 70, rng.randrange(-10 ** 12, 10 ** 12)])
    if k == 3:
        return rng.choice([0.0, -0.0, 1e22, 1e-7, 5e-324, float('nan'), float('inf'), float('-inf'), rng.uniform(-1e6, 1e6), 0.1 + 0.2])
    if k == 4:
        # built from text, never by arithmetic: decimal arithmetic rounds to the context precision (28 digits) and would hide a literal that does the same
        return decimal.Decimal(rng.choice(['', '-']) + rng.choice(['0', '1.50', '1E+20', '12345678901234567890.123456789', '0.000000000000000000000001', '1.00000000000000000001',
                                                                     '1234567890123456789012345678901234.5', '0.' + '1234567890' * 4, '9' * 39, '1.' + '0' * 30 + '1', '1E-40', '7E+300']))
    if k == 5:
        return uuid.UUID(int=rng.getrandbits(128))
    if k == 6:
        us = rng.randrange(-62135596800 * 10 ** 6 + 3 * 86400 * 10 ** 6, 253402300799 * 10 ** 6 - 3 * 86400 * 10 ** 6)
        d = datetime.datetime(1970, 1, 1) + datetime.timedelta(microseconds=us)
        return rng.choice([d, d.replace(microsecond=d.microsecond // 1000 * 1000 + 999), d.replace(tzinfo=datetime.timezone(datetime.timedelta(hours=rng.randrange(-11, 12))))])
    if k == 7:
        return datetime.date.fromordinal(rng.randrange(1, 3652059))
    if k == 8:
        return Date(rng.randrange(-2 ** 31, 2 ** 31))
    if k == 9:
        return rng.choice([datetime.time(rng.randrange(24), rng.randrange(60), rng.randrange(60), rng.randrange(10 ** 6)), Time(rng.randrange(86400 * 10 ** 9))])
    if k == 10:
        return rng.choice([ipaddress.ip_address('10.1.2.3'), ipaddress.ip_address('::1'), ipaddress.ip_address(rng.getrandbits(128)), ipaddress.ip_address(rng.getrandbits(32))])
    if k == 11:
        return None
    if k == 12:
        return rng.choice([True, False])
    if k == 13:
        return type('SubStr', (str,), {})(rng.choice(texts))
    if k == 14:
        return type('SubInt', (int,), {})(rng.randrange(-5, 5))
    return bytearray(b'\x01\x02')


def gen_value(rng, depth):
    if depth == 0 or rng.random() < 0.5:
        return gen_scalar(rng)
    k = rng.randrange(5)
    items = [gen_value(rng, depth - 1) for _ in range(rng.randrange(0, 4))]
    if k == 0:
        return items
    if k == 1:
        return tuple(items)
    if k == 2:
        from cassandra.util import sortedset
        hashables = [x for x in items if isinstance(x, (str, int, bytes, uuid.UUID)) and not isinstance(x, bool)]
        return set(hashables) if rng.random() < 0.5 else sortedset([x for x in hashables if isinstance(x, int)])
    if k == 3:
        return {kk: gen_value(rng, depth - 1) for kk in [x for x in items if isinstance(x, (str, int, bytes, uuid.UUID)) and not isinstance(x, bool)]}
    return type('SubList', (list,), {})(items)


def literals_parse_back(tier, seed):
    from cassandra.encoder import Encoder
    from cassandra.query import bind_params
    rng = random.Random(seed)
    enc = Encoder()
    fails, n, seen = [], 0, set()
    N = 4000 if tier == 'quick' else 100000
    for _ in range(N):
        v = gen_value(rng, 3)
        n += 1
        try:
            text = enc.cql_encode_all_types(v)
            seen.add(text)
            lit = parse_one(text)
        except LexError as e:
            fails.append('%r rendered as %r does not lex as one term: %s' % (v, text, e))
            continue
        except Exception as e:
            fails.append('%r: encoder raised %r' % (v, e))
            continue
        if not same_value(v, lit):
            fails.append('%r rendered as %r reads back as %r' % (v, text, lit))
        if len(fails) > 3:
            break
    # substitution into a statement: positional and named; the statement's structure must stay SELECT ... WHERE a = <term> AND b = <term>
    for _ in range(N // 10):
        a, b = gen_scalar(rng), gen_value(rng, 1)
        n += 1
        for q, params in (('SELECT * FROM t WHERE a = %s AND b = %s', (a, b)), ('SELECT * FROM t WHERE a = %(x)s AND b = %(y)s', {'x': a, 'y': b})):
            try:
                text = bind_params(q, params, enc)
                head = 'SELECT * FROM t WHERE a = '
                if not text.startswith(head):
                    raise LexError('prefix changed')
                ta, j = parse_term(text, len(head))
                if not text.startswith(' AND b = ', j):
                    raise LexError('the first parameter swallowed or split the statement: %r' % text[j:j + 20])
                tb, j2 = parse_term(text, j + len(' AND b = '))
                if j2 != len(text) or not same_value(a, ta) or not same_value(b, tb):
                    raise LexError('values read back as %r, %r' % (ta, tb))
            except LexError as e:
                fails.append('bind_params(%r, %r) = %r: %s' % (q, params, text, e))
            except Exception as e:
                fails.append('bind_params(%r, %r) raised %r' % (q, params, e))
    return {'name': 'literals-parse-back', 'kind': 'bounded', 'cases': n, 'evaluations': n, 'distinct_nontrivial': len([x for x in seen if x not in ('NULL', 'True', 'False') and len(x) > 2]), 'samples': sorted(seen, key=len)[-2:] + sorted(seen)[:2],
            'rule': 'distinct = distinct rendered literals, non-trivial = longer than 2 characters and not NULL/True/False; parse(cql_encode_all_types(v)) is exactly one term denoting the value cqltypes would serialize for v; bind_params keeps the statement structure',
            'bound': '%d generated values nested to depth 3 over 16 scalar kinds (incl. hostile strings, far-future / pre-1970 / aware datetimes, exact decimals, subclasses), %d two-parameter substitutions' % (N, N // 10),
            'violations': fails[:3]}


def replay(model, obligation):
    from cassandra.encoder import Encoder
    fails = []
    s = model.get('text')
    if isinstance(s, str):
        t = Encoder().cql_encode_all_types(s)
        try:
            if parse_one(t) != ('str', s):
                fails.append('%r rendered as %r reads back as %r' % (s, t, parse_one(t)))
        except LexError as e:
            fails.append('%r rendered as %r: %s' % (s, t, e))
    if not fails:
        fails = list(literals_parse_back('quick', 0)['violations'])
    return {'reproduced': bool(fails), 'detail': '; '.join(fails[:2]) or 'no disagreement'}
