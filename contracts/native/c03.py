"""C03 native side: every request kind x option combination x version through the real encode_message, read back by the independent spec parser."""
import itertools
import os
import random
import sys
sys.path.insert(0, os.path.dirname(os.path.dirname(os.path.dirname(os.path.abspath(__file__)))))

VERSIONS = (1, 2, 3, 4, 5, 6, 0x41, 0x42)


def _norm(v, UNSET):
    return None if v is None else ('UNSET' if v is UNSET else bytes(v))


def enumerate_requests(tier, seed):
    from cassandra import protocol as P, UnsupportedOperation
    from cassandra.query import UNSET_VALUE, BatchType
    from spec import native_protocol as NP
    rng = random.Random(seed)
    fails, n = [], 0
    enc = P._ProtocolHandler.encode_message

    class CP(object):
        max_pages, max_pages_per_second, max_queue_size = 3, 7, 11

    def check(msg, pv, want, must_reject=False, compressor=None, tracing=False, payload=None, stream=5):
        nonlocal n
        n += 1
        msg.tracing = tracing
        if payload is not None:
            msg.custom_payload = payload
        try:
            frame = enc(msg, stream, pv, compressor, False)
        except UnsupportedOperation as e:
            if not must_reject:
                fails.append('%s v%#x %s: rejected although the version can carry it (%s)' % (type(msg).__name__, pv, want, e))
            return
        except Exception as e:
            fails.append('%s v%#x %s: raised %r' % (type(msg).__name__, pv, want, e))
            return
        if must_reject:
            fails.append('%s v%#x: an option the version cannot carry was encoded, not rejected: %s' % (type(msg).__name__, pv, want))
            return
        try:
            got = NP.parse_request(frame, decompress=(lambda b: b[::-1]) if compressor else None)
        except NP.SpecError as e:
            fails.append('%s v%#x %s: not a well-formed frame: %s' % (type(msg).__name__, pv, want, e))
            return
        h = got.pop('header')
        if h['stream'] != stream or h['version'] != pv or got.pop('tracing') != tracing or got.get('custom_payload') != payload and not (payload is None and 'custom_payload' not in got):
            fails.append('%s v%#x: header/prefix fields differ: %s' % (type(msg).__name__, pv, h))
        got.pop('custom_payload', None)
        got.pop('flags', None)
        got.pop('skip_metadata', None)
        if got != want:
            fails.append('%s v%#x: requested %s, the spec parser reads %s' % (type(msg).__name__, pv, want, got))
    opts = ['values', 'serial', 'page', 'state', 'ts', 'ks', 'cp']
    for pv in VERSIONS:
        for present in itertools.product([False, True], repeat=len(opts)):
            o = dict(zip(opts, present))
            if o['ts'] and pv < 3:
                continue            # the session layer only passes a client timestamp from v3 (C46)
            vals = [b'\x00\x01', None, UNSET_VALUE, b''] if o['values'] else None
            kw = dict(serial_consistency_level=9 if o['serial'] else None, fetch_size=5000 if o['page'] else None, paging_state=b'\x07state' if o['state'] else None,
                      timestamp=-123456789 if o['ts'] else None, continuous_paging_options=CP() if o['cp'] else None)
            reject = (o['ks'] and not NP.has_keyspace(pv)) or (o['cp'] and not NP.continuous_paging(pv)) or (pv == 1 and (o['serial'] or o['page'] or o['state']))
            reject_q = reject or (pv == 1 and o['values'])       # a v1 QUERY cannot carry values
            want = dict(kind='QUERY', query='SELECT é', consistency=6)
            if pv >= 2:
                if o['values']:
                    want['values'] = [_norm(v, UNSET_VALUE) for v in vals]
                for k, f, v in (('serial', 'serial_consistency', 9), ('page', 'page_size', 5000), ('state', 'paging_state', b'\x07state'), ('ts', 'timestamp', -123456789),
                                ('ks', 'keyspace', 'ksé')):
                    if o[k]:
                        want[f] = v
                if o['cp']:
                    want['continuous_paging'] = dict(max_pages=3, max_pages_per_second=7, **(dict(max_queue_size=11) if pv >= 0x42 else {}))
            q = P.QueryMessage('SELECT é', 6, keyspace='ksé' if o['ks'] else None, **kw)
            q.query_params = vals
            check(q, pv, want, reject_q, tracing=o['page'], payload={'a': b'1', 'b': None} if (o['state'] and pv >= 4) else None,
                  compressor=(lambda b: b[::-1]) if o['serial'] and not reject_q else None)
            if not o['ks']:
                ev = vals if vals is not None else []
                e = P.ExecuteMessage(b'\x10id', ev, 6, result_metadata_id=b'meta', **kw)
                w2 = dict(kind='EXECUTE', query_id=b'\x10id', consistency=6, values=[_norm(v, UNSET_VALUE) for v in ev])
                if NP.has_result_metadata_id(pv):
                    w2['result_metadata_id'] = b'meta'
                if pv >= 2:
                    for k in ('serial_consistency', 'page_size', 'paging_state', 'timestamp', 'continuous_paging'):
                        if k in want:
                            w2[k] = want[k]
                check(e, pv, w2, reject)
        for ks in (None, 'ks1'):
            check(P.PrepareMessage('SELECT 1', keyspace=ks), pv, dict(kind='PREPARE', query='SELECT 1', **(dict(keyspace=ks) if ks else {})), bool(ks) and not NP.has_keyspace(pv))
        if pv >= 2:
            for serial, ts, ks in itertools.product([None, 8], [None, 99], [None, 'ks1']):
                if (ts is not None or serial) and pv < 3:
                    continue
                qs = [(False, 'INSERT 1', [b'a', None]), (True, b'\x01\x02', []), (False, 'INSERT 2', [UNSET_VALUE])]
                want = dict(kind='BATCH', batch_type=1, consistency=4,
                            queries=[('query', 'INSERT 1', [b'a', None]), ('id', b'\x01\x02', []), ('query', 'INSERT 2', ['UNSET'])])
                for k, v in (('serial_consistency', serial), ('timestamp', ts), ('keyspace', ks)):
                    if v is not None:
                        want[k] = v
                check(P.BatchMessage(BatchType.UNLOGGED, qs, 4, serial, ts, ks), pv, want, bool(ks) and not NP.has_keyspace(pv))
        check(P.StartupMessage('3.4.5', {'COMPRESSION': 'lz4', 'DRIVER_NAME': 'x'}), pv, dict(kind='STARTUP', options={'COMPRESSION': 'lz4', 'DRIVER_NAME': 'x', 'CQL_VERSION': '3.4.5'}))
        check(P.OptionsMessage(), pv, dict(kind='OPTIONS'))
        check(P.RegisterMessage(['STATUS_CHANGE', 'SCHEMA_CHANGE']), pv, dict(kind='REGISTER', events=['STATUS_CHANGE', 'SCHEMA_CHANGE']))
        if pv >= 2:
            check(P.AuthResponseMessage(b'\x00u\x00p'), pv, dict(kind='AUTH_RESPONSE', token=b'\x00u\x00p'))
        check(P.CredentialsMessage({'username': 'u'}), pv, dict(kind='CREDENTIALS', credentials={'username': 'u'}), pv > 1)
        if pv >= 0x41:
            check(P.ReviseRequestMessage(1, 77), pv, dict(kind='REVISE_REQUEST', op_type=1, op_id=77))
            check(P.ReviseRequestMessage(2, 77, 4), pv, dict(kind='REVISE_REQUEST', op_type=2, op_id=77, next_pages=4), pv < 0x42)
    return {'name': 'request-parse-back', 'kind': 'bounded', 'cases': n,
            'bound': 'every presence combination of 7 options x 8 protocol versions for QUERY/EXECUTE, keyspace/serial/timestamp combinations for PREPARE/BATCH, all session-setup messages; fixed field values',
            'violations': fails[:3]}


def _mv(model, key, default):
    v = model.get(key, default)
    if isinstance(v, dict) and 'bytes_hex' in v:
        return bytes.fromhex(v['bytes_hex'])
    return default if isinstance(v, (dict, str)) and not isinstance(default, str) else v


def replay(model, obligation):
    """Directed native replay: the message kind and protocol version named by the failed obligation, the concrete field values of the
    counter-model, every presence combination of the options; the real send_body output is read back by the independent spec parser."""
    import re
    from cassandra import protocol as P, UnsupportedOperation
    from cassandra.query import UNSET_VALUE, BatchType
    from spec import native_protocol as NP
    m = re.search(r'/(QUERY|EXECUTE|BATCH)-v(0x[0-9a-f]+)/', obligation)
    fails = []
    enc = P._ProtocolHandler.encode_message
    if m:
        kind, pv = m.group(1), int(m.group(2), 16)
        ts_v = _mv(model, 'timestamp_us', -5)
        fs_v = _mv(model, 'fetch_size', 100)
        ps_v = _mv(model, 'paging_state_bytes', b'\x01')
        cl_v = _mv(model, 'consistency', 4)
        scl_v = _mv(model, 'serial_cl', 8)
        cpv = (_mv(model, 'max_pages', 1), _mv(model, 'max_pages_per_second', 2), _mv(model, 'max_queue_size', 3))

        class CP(object):
            max_pages, max_pages_per_second, max_queue_size = cpv

        def attempt(msg, want, reject):
            try:
                frame = enc(msg, 1, pv, None, False)
            except UnsupportedOperation as e:
                if not reject:
                    fails.append('%s v%#x %s: rejected although the version can carry it (%s)' % (kind, pv, want, e))
                return
            except Exception as e:
                fails.append('%s v%#x %s: raised %r' % (kind, pv, want, e))
                return
            if reject:
                fails.append('%s v%#x: an option the version cannot carry was encoded, not rejected: %s' % (kind, pv, want))
                return
            try:
                got = NP.parse_request(frame)
            except NP.SpecError as e:
                fails.append('%s v%#x %s: not a well-formed frame: %s (frame %s)' % (kind, pv, want, e, frame.hex()))
                return
            for k in ('header', 'tracing', 'custom_payload', 'flags', 'skip_metadata'):
                got.pop(k, None)
            if got != want:
                fails.append('%s v%#x: requested %s, the spec parser reads %s' % (kind, pv, want, got))
        if kind in ('QUERY', 'EXECUTE'):
            for vals, serial, page, state, ts, ks, cp in itertools.product([None, [], [b'v', None], [UNSET_VALUE, b'w']], [False, True], [False, True], [False, True],
                                                                           [False, True], [None, 'ks\u00e9'] if kind == 'QUERY' else [None], [False, True]):
                if ts and pv < 3 or (kind == 'EXECUTE' and vals is None):
                    continue
                kw = dict(serial_consistency_level=scl_v if serial else None, fetch_size=fs_v if page else None, paging_state=ps_v if state else None,
                          timestamp=ts_v if ts else None, continuous_paging_options=CP() if cp else None)
                reject = (ks and not NP.has_keyspace(pv)) or (cp and not NP.continuous_paging(pv)) or (pv == 1 and (serial or page or state)) or \
                    (pv == 1 and kind == 'QUERY' and vals is not None)
                if kind == 'QUERY':
                    msg = P.QueryMessage('SELECT \u00e9', cl_v, keyspace=ks, **kw)
                    msg.query_params = vals
                    want = dict(kind='QUERY', query='SELECT \u00e9', consistency=cl_v)
                    if vals is not None:
                        want['values'] = [_norm(v, UNSET_VALUE) for v in vals]
                else:
                    msg = P.ExecuteMessage(b'\x10id', vals, cl_v, result_metadata_id=b'meta', **kw)
                    want = dict(kind='EXECUTE', query_id=b'\x10id', consistency=cl_v, values=[_norm(v, UNSET_VALUE) for v in vals])
                    if NP.has_result_metadata_id(pv):
                        want['result_metadata_id'] = b'meta'
                for on, f, v in ((serial, 'serial_consistency', scl_v), (page, 'page_size', fs_v), (state, 'paging_state', ps_v), (ts, 'timestamp', ts_v), (ks, 'keyspace', ks)):
                    if on:
                        want[f] = v
                if cp:
                    want['continuous_paging'] = dict(max_pages=cpv[0], max_pages_per_second=cpv[1], **(dict(max_queue_size=cpv[2]) if pv >= 0x42 else {}))
                attempt(msg, want, bool(reject))
        else:
            for nq, serial, ts, ks in itertools.product([0, 1, 2], [False, True], [False, True], [None, 'ks\u00e9', '']):
                if (serial or ts) and pv < 3:
                    continue
                qs = [(False, 'INSERT \u00e9', [b'a', None]), (True, b'\x01\x02', [UNSET_VALUE])][:nq]
                want = dict(kind='BATCH', batch_type=_mv(model, 'batch_type', 1), consistency=cl_v,
                            queries=[('query', 'INSERT \u00e9', [b'a', None]), ('id', b'\x01\x02', ['UNSET'])][:nq])
                for on, f, v in ((serial, 'serial_consistency', scl_v), (ts, 'timestamp', ts_v), (ks, 'keyspace', ks)):
                    if on:
                        want[f] = v

                class BT(object):
                    value = want['batch_type']
                n0 = len(fails)
                attempt(P.BatchMessage(BT, qs, cl_v, scl_v if serial else None, ts_v if ts else None, ks), want, bool(ks) and not NP.has_keyspace(pv))
                if ks == '' and len(fails) > n0 and 'the spec parser reads' in fails[-1]:
                    w2 = dict(want, keyspace='')
                    fails.pop()
                    attempt(P.BatchMessage(BT, qs, cl_v, scl_v if serial else None, ts_v if ts else None, ks), w2, False)
    if not fails:
        r = enumerate_requests('quick', 0)
        fails = list(r['violations'])
    return {'reproduced': bool(fails), 'detail': '; '.join(fails[:2]) or 'no disagreement'}
