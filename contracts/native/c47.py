"""C47 native replay: the real handshake handlers on a Connection with a scripted server."""
import threading
import types
from collections import OrderedDict

REPLIES = ['SUPPORTED', 'READY', 'AUTHENTICATE', 'AUTH_CHALLENGE', 'AUTH_SUCCESS', 'ERROR', 'DISCONNECT', 'UNEXPECTED']


def _mk(pv, compression, auth):
    from cassandra.connection import Connection

    class Sasl(object):
        def initial_response(self):
            return b'i'

        def evaluate_challenge(self, ch):
            return b'r'

        def on_authentication_success(self, tok):
            pass

    class C(Connection):
        def __init__(self):
            self.lock = threading.RLock()
            self.is_defunct = self.is_closed = False
            self.cql_version, self.compression, self.protocol_version = None, compression, pv
            self.authenticator = None if auth == 'none' else ({'username': 'u'} if auth == 'credentials' else Sasl())
            self.no_compact, self.endpoint = False, types.SimpleNamespace(address='h', port=9042)
            self.connected_event = threading.Event()
            self.last_error = self.compressor = self.decompressor = self._compressor = self._compression_type = None
            self._io_buffer = types.SimpleNamespace(set_checksumming_buffer=lambda: None)
            self._is_checksumming_enabled, self._segment_codec = False, None
            self._requests, self._continuous_paging_sessions = {}, {}
            self.sent = []

        def get_request_id(self):
            return 1

        def send_msg(self, msg, rid, cb=None, **k):
            self.sent.append((msg, cb, self.compressor, self._is_checksumming_enabled))

        def close(self):
            self.is_closed = True
    return C()


def _reply(kind, remote=()):
    from cassandra import protocol as p
    from cassandra.connection import ConnectionShutdown
    return {'SUPPORTED': lambda: p.SupportedMessage(['3.4.5'], {'COMPRESSION': list(remote)}), 'READY': p.ReadyMessage,
            'AUTHENTICATE': lambda: p.AuthenticateMessage('PasswordAuthenticator'), 'AUTH_CHALLENGE': lambda: p.AuthChallengeMessage(b'c'),
            'AUTH_SUCCESS': lambda: p.AuthSuccessMessage(b't'), 'ERROR': lambda: p.ErrorMessage(0x100, 'bad credentials', None),
            'DISCONNECT': lambda: ConnectionShutdown('closed'), 'UNEXPECTED': lambda: p.ResultMessage(1)}[kind]()


def replay(model, obligation):
    import cassandra.connection as cmod
    from cassandra import AuthenticationFailed
    fails = []
    real = cmod.locally_supported_compressions
    lz4, snappy = (lambda b: b, lambda b: b), (lambda b: b, lambda b: b)
    LOCALS = {'lz4+snappy': [('lz4', lz4), ('snappy', snappy)], 'lz4': [('lz4', lz4)], 'snappy': [('snappy', snappy)], 'none': []}
    try:
        if 'compression-and-framing' in obligation:
            setting = [True, False, 'lz4', 'snappy'][model.get('choice_compression', 0)]
            local = ['lz4+snappy', 'lz4', 'snappy', 'none'][model.get('choice_locally_available', 0)]
            remote = [('lz4', 'snappy'), ('snappy',), ('lz4',), ()][model.get('choice_server_offers', 0)]
            pv = [4, 5, 6, 0x42][model.get('choice_protocol_version', 0)]
            cmod.locally_supported_compressions = OrderedDict(LOCALS[local])
            c = _mk(pv, setting, 'none')
            c._send_options_message()
            c.sent[0][1](_reply('SUPPORTED', remote))
            if c.is_defunct:
                if not isinstance(c.last_error, (cmod.ConnectionException, cmod.ProtocolError)):
                    fails.append('compression=%r local=%s server=%s: handshake failed with %r, not a connection error' % (setting, local, remote, c.last_error))
            else:
                named = c.sent[1][0].options.get('COMPRESSION')
                c.sent[1][1](_reply('READY'))
                want = dict(LOCALS[local]).get(named, (None,))[0] if named else None
                if c.compressor is not want:
                    fails.append('compression=%r local=%s server=%s v%d: STARTUP named %r but outgoing frames use %r' % (setting, local, remote, pv, named, c.compressor))
                if named and (named not in remote or named not in dict(LOCALS[local])):
                    fails.append('STARTUP named %r, local=%s server=%s' % (named, local, remote))
                if named == 'snappy' and pv in (5, 6):
                    fails.append('snappy negotiated with checksummed framing (v%d)' % pv)
                if c._is_checksumming_enabled != (pv in (5, 6)):
                    fails.append('checksumming=%s on v%d' % (c._is_checksumming_enabled, pv))
                if any(s[2] is not None or s[3] for s in c.sent[:2]):
                    fails.append('OPTIONS/STARTUP sent compressed or checksummed')
        elif '/factory/' in obligation:
            import threading
            for state in ('ready', 'defunct', 'closed-by-the-peer-mid-handshake', 'silent'):
                err = cmod.ConnectionShutdown('closed by the peer during the handshake')

                class K(cmod.Connection):
                    def __init__(self, endpoint, *a, **k):
                        self.endpoint, self.connected_event = endpoint, threading.Event()
                        self.is_defunct = self.is_closed = self.is_unsupported_proto_version = False
                        self.last_error, self.protocol_version, self.closed = None, 4, 0
                        if state == 'ready':
                            self.connected_event.set()
                        elif state == 'defunct':
                            self.is_defunct, self.last_error = True, err
                            self.connected_event.set()
                        elif state.startswith('closed'):
                            # Connection.close() on a clean EOF: closed, not defunct, the reason recorded, waiters released
                            self.is_closed, self.last_error = True, err
                            self.connected_event.set()

                    def close(self):
                        self.closed += 1
                try:
                    got = ('ok', K.factory('ep', 0.05))
                except Exception as e:
                    got = ('exc', e)
                if state == 'ready':
                    ok = got[0] == 'ok' and isinstance(got[1], K)
                elif state == 'silent':
                    ok = got[0] == 'exc' and isinstance(got[1], cmod.OperationTimedOut if hasattr(cmod, 'OperationTimedOut') else Exception)
                else:
                    ok = got[0] == 'exc' and got[1] is err
                if not ok:
                    fails.append('handshake ended %s: Connection.factory %s' % (state, 'handed out the connection as ready' if got[0] == 'ok' else 'raised %r' % (got[1],)))
        elif 'handshake-state-machine' in obligation:
            cmod.locally_supported_compressions = OrderedDict(LOCALS['lz4+snappy'])
            auth = ['none', 'credentials', 'sasl'][model.get('choice_authenticator', 0)]
            pv = [4, 5][model.get('choice_protocol_version', 0)]
            c = _mk(pv, False, auth)
            c._send_options_message()
            phase, hist = 'OPTIONS', []
            for step in range(6):
                if c.connected_event.is_set() or len(c.sent) <= step or ('choice_reply%d' % step) not in model:
                    break
                kind = REPLIES[model['choice_reply%d' % step]]
                hist.append(kind)
                c.sent[step][1](_reply(kind))
                if phase == 'OPTIONS':
                    phase = 'STARTUP' if kind == 'SUPPORTED' else 'FAILED'
                elif phase in ('STARTUP', 'CREDENTIALS'):
                    phase = {'READY': 'READY', 'AUTHENTICATE': {'none': 'FAILED-AUTH', 'credentials': 'CREDENTIALS', 'sasl': 'AUTH'}[auth]}.get(
                        kind, 'FAILED-AUTH' if (kind == 'ERROR' and phase == 'CREDENTIALS') else 'FAILED')
                else:
                    phase = {'AUTH_SUCCESS': 'READY', 'AUTH_CHALLENGE': 'AUTH', 'ERROR': 'FAILED-AUTH'}.get(kind, 'FAILED')
                ready = c.connected_event.is_set() and c.last_error is None
                if ready != (phase == 'READY'):
                    fails.append('replies %s (authenticator %s): reported ready=%s in phase %s' % (hist, auth, ready, phase))
                    break
                if phase.startswith('FAILED'):
                    if (phase == 'FAILED-AUTH') != isinstance(c.last_error, AuthenticationFailed):
                        fails.append('replies %s (authenticator %s): failure surfaced as %r' % (hist, auth, c.last_error))
                    break
    finally:
        cmod.locally_supported_compressions = real
    return {'reproduced': bool(fails), 'detail': '; '.join(fails[:3]) or 'no disagreement'}
