"""C13 native replay."""
from contracts.native.c12 import Conn, mk_pool


def replay(model, obligation):
    fails = []
    # trashed connection: last live request times out (orphaned return) -> must be closed
    opened = []
    new = Conn('new')
    old = Conn('old', in_flight=2, orphans=[1])
    old.orphaned_threshold_reached = True
    p = mk_pool(new, opened)
    p._trash = {old}
    old.orphaned_request_ids.add(2)                    # the remaining live request times out
    p.return_connection(old, stream_was_orphaned=True)
    if not old.is_closed or old in p._trash:
        fails.append('trashed connection with only orphaned streams left after a timeout: closed=%s, still trashed=%s' % (old.is_closed, old in p._trash))
    # replacement decision with a live request
    opened = []
    old2 = Conn('old2', in_flight=3, orphans=[1, 2])
    old2.orphaned_threshold_reached = True
    p2 = mk_pool(old2, opened)
    p2._is_replacing = True
    p2._replace(old2)
    if old2.is_closed:
        fails.append('old connection closed by _replace while a non-orphaned request was in flight (in_flight=3, orphans=2)')
    return {'reproduced': bool(fails), 'detail': '; '.join(fails[:3]) or 'no disagreement'}
