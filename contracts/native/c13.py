"""C13 native replay."""
from contracts.native.c12 import Conn, mk_pool


def replay(model, obligation):
    fails = []
    # trashed connection: last live request times out (orphaned return) -> must be closed
    opened = []
    new = Conn('new')
    old = Conn('old', in_flight=2, orphans=[1])
    old.orphaned_threshold_reached = True
    p = mk_pool(new, opened)
    p._trash = {old}
    old.orphaned_request_ids.add(2)                    # the remaining live request times out
    p.return_connection(old, stream_was_orphaned=True)
    if not old.is_closed or old in p._trash:
        fails.append('trashed connection with only orphaned streams left after a timeout: closed=%s, still trashed=%s' % (old.is_closed, old in p._trash))
    # replacement decision with a live request
    opened = []
    old2 = Conn('old2', in_flight=3, orphans=[1, 2])
    old2.orphaned_threshold_reached = True
    p2 = mk_pool(old2, opened)
    p2._is_replacing = True
    p2._replace(old2)
    if old2.is_closed:
        fails.append('old connection closed by _replace while a non-orphaned request was in flight (in_flight=3, orphans=2)')
    if '_on_timeout' in obligation:
        # the flag was raised, late responses shrank the orphan set below the threshold, one more request times out
        from contracts.native import rf
        cl = rf.load_cluster()
        log = []
        h = rf.Host('h1')
        pool = rf.Pool(log, h)
        session = rf.Session(log, {h: pool})
        f = rf.future(cl, session, [h], timeout=1.0)
        f.send_request()
        c = pool.conn
        c.orphaned_threshold, c.orphaned_threshold_reached, c.orphaned_request_ids = 3, True, {90}
        c._requests[f._req_id] = (f._set_result, None, None)
        f._on_timeout()
        if c.orphaned_threshold_reached is not True:
            fails.append('a timeout with %d orphans (threshold 3) lowered orphaned_threshold_reached after it had been raised: the pending _replace will neither trash nor close this connection'
                         % len(c.orphaned_request_ids))
    return {'reproduced': bool(fails), 'detail': '; '.join(fails[:3]) or 'no disagreement'}
