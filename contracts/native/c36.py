"""C36 native side (bounded): every cqlengine column type against the core driver's serializer for the column's CQL type."""
import datetime
import decimal
import ipaddress
import os
import random
import sys
import uuid
sys.path.insert(0, os.path.dirname(os.path.dirname(os.path.dirname(os.path.abspath(__file__)))))


def _set_elements(b):
    """the element encodings of a v3+ collection body ([int32 n] n * ([int32 len][bytes])), sorted; the framing is checked on the way"""
    n, p, out = int.from_bytes(b[:4], 'big', signed=True), 4, []
    for _ in range(n):
        ln = int.from_bytes(b[p:p + 4], 'big', signed=True)
        out.append(b[p + 4:p + 4 + max(ln, 0)] if ln >= 0 else None)
        p += 4 + max(ln, 0)
    return (n, sorted(out, key=lambda x: (x is None, x or b'')), len(b) == p)


def columns_vs_core(tier, seed):
    from contracts.native.c35 import _import_cqlengine
    columns, models, query, st = _import_cqlengine()
    from cassandra import cqltypes, util
    rng = random.Random(seed)
    fails, n, seen = [], 0, set()
    N = 400 if tier == 'quick' else 5000
    epoch = datetime.datetime(1970, 1, 1)
    try:
        import zoneinfo
        zones = [zoneinfo.ZoneInfo(z) for z in ('Europe/Paris', 'America/New_York', 'Australia/Lord_Howe', 'Asia/Kolkata')] + [datetime.timezone.utc, datetime.timezone(datetime.timedelta(hours=5, minutes=45))]
    except Exception:
        zones = [datetime.timezone.utc, datetime.timezone(datetime.timedelta(hours=-7))]

    def dts():
        for _ in range(N * 5):
            us = rng.randrange(-62135596800 * 10 ** 6 + 3 * 86400 * 10 ** 6, 253402300799 * 10 ** 6 - 3 * 86400 * 10 ** 6)
            d = epoch + datetime.timedelta(microseconds=us)
            yield d
            yield d.replace(tzinfo=datetime.timezone.utc).astimezone(rng.choice(zones))
        for d in (datetime.datetime(1969, 12, 31, 23, 59, 59, 500000), datetime.datetime(1969, 12, 31, 23, 59, 59, 500), datetime.datetime(2021, 7, 1, 12, 0, tzinfo=zones[0]),
                  datetime.datetime(2021, 1, 1, 12, 0, tzinfo=zones[0]), datetime.datetime(6101, 11, 21, 21, 9, 15, 570999), datetime.date(2020, 2, 29)):
            yield d
    cases = [
        (columns.DateTime(), cqltypes.DateType, dts()),
        (columns.Integer(), cqltypes.Int32Type, [0, 1, -1, 2 ** 31 - 1, -2 ** 31] + [rng.randrange(-2 ** 31, 2 ** 31) for _ in range(N)]),
        (columns.BigInt(), cqltypes.LongType, [0, 2 ** 63 - 1, -2 ** 63] + [rng.randrange(-2 ** 63, 2 ** 63) for _ in range(N)]),
        (columns.SmallInt(), cqltypes.ShortType, [0, 32767, -32768] + [rng.randrange(-2 ** 15, 2 ** 15) for _ in range(N)]),
        (columns.TinyInt(), cqltypes.ByteType, list(range(-128, 128))),
        (columns.VarInt(), cqltypes.IntegerType, [0, -1, 255, 256, -129, 2 ** 70, -2 ** 70] + [rng.randrange(-2 ** 90, 2 ** 90) for _ in range(N)]),
        (columns.Boolean(), cqltypes.BooleanType, [True, False]),
        (columns.Double(), cqltypes.DoubleType, [0.0, -0.0, 1.5, 1e308, 5e-324] + [rng.uniform(-1e9, 1e9) for _ in range(N)]),
        (columns.Float(), cqltypes.FloatType, [0.0, 1.5, -2.25, 3.0e38] + [float(rng.randrange(-2 ** 20, 2 ** 20)) / 8 for _ in range(N)]),
        (columns.Decimal(), cqltypes.DecimalType, [decimal.Decimal('0'), decimal.Decimal('-1.50'), decimal.Decimal('123456789.000000001'), decimal.Decimal('1E+20'),
                                                     decimal.Decimal('1.2345678901234567890123456789012345'), decimal.Decimal(10 ** 30 + 1), decimal.Decimal('-0.' + '1234567890' * 4), 10 ** 30 + 1,
                                                     '98765432109876543210987654321098765.4321', 0.1, 1e-7] +
         [decimal.Decimal(rng.randrange(-10 ** 12, 10 ** 12)).scaleb(-rng.randrange(0, 9)) for _ in range(N)]),
        (columns.Text(), cqltypes.UTF8Type, ['', 'a', "it's", 'é中\U0001f600', 'x' * 300]),
        (columns.Ascii(), cqltypes.AsciiType, ['', 'abc', '~!@']),
        (columns.Blob(), cqltypes.BytesType, [b'', b'\x00\xff', bytes(range(256))]),
        (columns.Inet(), cqltypes.InetAddressType, ['127.0.0.1', '::1', '10.1.2.3', '2001:db8::1']),
        (columns.UUID(), cqltypes.UUIDType, [uuid.UUID(int=0), uuid.UUID(int=2 ** 128 - 1)] + [uuid.UUID(int=rng.getrandbits(128)) for _ in range(50)]),
        (columns.TimeUUID(), cqltypes.TimeUUIDType, [uuid.uuid1() for _ in range(20)]),
        (columns.Date(), cqltypes.SimpleDateType, [datetime.date(1970, 1, 1), datetime.date(1, 1, 1), datetime.date(9999, 12, 31), util.Date(-2 ** 31), util.Date(2 ** 31 - 1)] +
         [datetime.date.fromordinal(rng.randrange(1, 3652059)) for _ in range(N)]),
        (columns.Time(), cqltypes.TimeType, [datetime.time(0, 0), datetime.time(23, 59, 59, 999999), util.Time(86399999999999), 0, 1] + [rng.randrange(86400 * 10 ** 9) for _ in range(N)]),
        (columns.List(columns.Integer), cqltypes.ListType.apply_parameters([cqltypes.Int32Type]), [[], [1], [3, 2, 1], list(range(50))]),
        (columns.Set(columns.Text), cqltypes.SetType.apply_parameters([cqltypes.UTF8Type]), [set(), {'a'}, {'b', 'a', 'é'}]),
        (columns.Map(columns.Text, columns.BigInt), cqltypes.MapType.apply_parameters([cqltypes.UTF8Type, cqltypes.LongType]), [{}, {'a': 1}, {'z': -2 ** 40, 'a': 7}]),
        (columns.Tuple(columns.Integer, columns.Text), cqltypes.TupleType.apply_parameters([cqltypes.Int32Type, cqltypes.UTF8Type]), [(1, 'a'), (None, 'x'), (5, None)]),
    ]
    # a user-defined type with temporal fields (values that to_database converts), nested in a list as well
    from cassandra.cqlengine import usertype

    class verif_c36_udt(usertype.UserType):
        __type_name__ = 'verif_c36_udt'
        day = columns.Date()
        n = columns.Integer()
        at = columns.DateTime()
        days = columns.List(columns.Date)
    core_udt = cqltypes.UserType.make_udt_class('ks', 'verif_c36_udt', ('day', 'n', 'at', 'days'),
                                                (cqltypes.SimpleDateType, cqltypes.Int32Type, cqltypes.DateType, cqltypes.ListType.apply_parameters([cqltypes.SimpleDateType])))

    def udts():
        for _ in range(max(6, N // 10)):
            d = datetime.date.fromordinal(rng.randrange(1, 3652059))
            yield verif_c36_udt(day=d, n=rng.randrange(-2 ** 31, 2 ** 31), at=epoch + datetime.timedelta(milliseconds=rng.randrange(-10 ** 12, 10 ** 13)),
                                days=[datetime.date.fromordinal(rng.randrange(1, 3652059)) for _i in range(rng.randrange(0, 3))])
        yield verif_c36_udt(day=datetime.date(1969, 12, 22), n=None, at=None, days=None)
    cases.append((columns.UserDefinedType(verif_c36_udt), core_udt, udts()))
    for col, ctype, values in cases:
        col.column_name = 'c'
        for v in values:
            n += 1
            seen.add((type(col).__name__, repr(v) if not isinstance(v, usertype.UserType) else repr(sorted(v.items()))))
            if isinstance(v, usertype.UserType):
                # stored twice (a row that is read, kept and saved again): the same bytes both times, the caller's object left as it was
                try:
                    want = core_udt.serialize((v.day, v.n, v.at, v.days), 4)
                    before = [(k, repr(x)) for k, x in v.items()]
                    first = ctype.serialize(col.to_database(v), 4)
                    after = [(k, repr(x)) for k, x in v.items()]
                    second = ctype.serialize(col.to_database(v), 4)
                except Exception as e:
                    fails.append('UserDefinedType value %r: %r' % (sorted(v.items()), e))
                    continue
                if first != want or second != want or before != after:
                    fails.append('UserDefinedType %r: first save stores %s, second save %s, the core driver encodes %s; the caller\'s object %s' %
                                 (before, first.hex(), second.hex(), want.hex(), 'was left alone' if before == after else 'was changed to %r' % (after,)))
                continue
            try:
                via = ctype.serialize(col.to_database(v), 4)
                core_v = v
                if isinstance(col, columns.Decimal) and not isinstance(v, decimal.Decimal):
                    core_v = decimal.Decimal(repr(v)) if isinstance(v, float) else decimal.Decimal(v)      # the documented coercion: the exact decimal the literal denotes
                direct = ctype.serialize(core_v, 4)
            except Exception as e:
                fails.append('%s value %r: %r' % (type(col).__name__, v, e))
                continue
            if isinstance(col, columns.Set):
                # a CQL set has no element order of its own and both sides write the elements in the iteration order of a Python set (which
                # depends on the interpreter's string hashing): the same value means the same element encodings, in whatever order
                via, direct = _set_elements(via), _set_elements(direct)
            if via != direct:
                fails.append('%s value %r: cqlengine stores %r, the core driver encodes %r' % (type(col).__name__, v, via, direct))
        if len(fails) > 3:
            break
    return {'name': 'columns-versus-core-serializers', 'kind': 'bounded', 'cases': n, 'evaluations': n, 'distinct_nontrivial': len(seen), 'samples': [list(x) for x in sorted(seen)[:3]],
            'rule': 'distinct = distinct (column type, value) pairs; coretype.serialize(column.to_database(v)) == coretype.serialize(v) for 22 column types',
            'bound': '%d values in total: boundary values plus %d random values per numeric / temporal type; datetimes over years 1..9999, naive and in 6 zones' % (n, N), 'violations': fails[:3]}


def replay(model, obligation):
    r = columns_vs_core('quick', 0)
    return {'reproduced': bool(r['violations']), 'detail': '; '.join(r['violations'][:2]) or 'no disagreement with the core serializers'}
