"""Native replay helpers for the ResponseFuture properties: real cassandra.cluster.ResponseFuture over stub session/pool/connection."""
import sys
import types


def load_cluster():
    from cassandra.connection import Connection
    if 'cassandra.io.libevreactor' not in sys.modules:
        m = types.ModuleType('cassandra.io.libevreactor')
        m.LibevConnection = type('LibevConnection', (Connection,), {})
        sys.modules['cassandra.io.libevreactor'] = m
    import cassandra.cluster as cl
    return cl


class Host(object):
    def __init__(self, name):
        self.name, self.endpoint, self.address = name, 'ep-' + name, name

    def __repr__(self):
        return self.name


class Conn(object):
    def __init__(self, log, host, send_raises=False):
        import threading
        self.log, self.host, self.keyspace = log, host, None
        self.lock = threading.RLock()
        self._requests, self.orphaned_request_ids, self.orphaned_threshold = {}, set(), 100
        self.send_raises = send_raises

    def send_msg(self, message, request_id, cb=None, **kw):
        if self.send_raises:
            from cassandra.connection import ConnectionShutdown
            raise ConnectionShutdown('closed')
        self.log.append(('send', self.host, message, cb, request_id))
        self._requests[request_id] = (cb, None, None)
        return 1

    def defunct(self, exc):
        self.log.append(('defunct', self.host, exc))


class Pool(object):
    def __init__(self, log, host, mode='ok', ids=None):
        self.log, self.host, self.mode, self.is_shutdown = log, host, mode, mode == 'shutdown'
        self.conn = Conn(log, host)
        self.ids = list(ids or [])
        self.n = 0

    def borrow_connection(self, timeout):
        from cassandra.pool import NoConnectionsAvailable
        from cassandra.connection import ConnectionException
        self.log.append(('borrow', self.host))
        if self.mode == 'busy':
            raise NoConnectionsAvailable()
        if self.mode == 'error':
            raise ConnectionException('broken')
        self.n += 1
        return self.conn, (self.ids.pop(0) if self.ids else self.n)

    def return_connection(self, conn, stream_was_orphaned=False):
        self.log.append(('return', self.host, stream_was_orphaned))


class TimerFactory(object):
    def __init__(self, log):
        self.log = log

    def create_timer(self, delay, cb):
        t = types.SimpleNamespace(delay=delay, cb=cb, cancelled=False)
        t.cancel = lambda t=t: setattr(t, 'cancelled', True)
        self.log.append(('timer', t))
        return t


class Session(object):
    def __init__(self, log, pools, protocol_version=4, prepared=None):
        self.log, self._pools, self.keyspace = log, pools, None
        self.row_factory = lambda names, rows: rows
        self.cluster = types.SimpleNamespace(protocol_version=protocol_version, _prepared_statements=prepared or {},
                                             connection_class=TimerFactory(log), control_connection=types.SimpleNamespace(_connection=None),
                                             _default_load_balancing_policy=None)

    def submit(self, fn, *a, **k):
        self.log.append(('submit', fn, a, k))

    def _set_keyspace_for_all_pools(self, ks, cb):
        self.log.append(('setks', ks, cb))


def future(cl, session, plan, message=None, timeout=None, retry_policy=None, prepared_statement=None, spec_plan=None, **kw):
    from cassandra.protocol import QueryMessage
    from cassandra.policies import RetryPolicy
    msg = message or QueryMessage('SELECT 1', 1)
    lb = types.SimpleNamespace(make_query_plan=lambda ks, q: iter(plan))
    f = cl.ResponseFuture(session, msg, None, timeout, retry_policy=retry_policy or RetryPolicy(), load_balancer=lb,
                          prepared_statement=prepared_statement, speculative_execution_plan=spec_plan, **kw)
    return f
