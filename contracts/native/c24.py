"""C24 spec + native replay (no z3 import)."""
from fractions import Fraction
from itertools import islice
from pyvc.logic import implies, and_, or_, not_, eq, ite


def _num(x):
    if isinstance(x, (int, float)):
        return x
    return float(Fraction(str(x).replace(' ', '')))


def replay(model, obligation):
    from cassandra import policies
    ma = model.get('max_attempts')
    if model.get('max_attempts_is_none'):
        ma = None
    if '__init__' in obligation:
        fails = []
        for cls, args in ((policies.ConstantReconnectionPolicy, (2.0,)), (policies.ExponentialReconnectionPolicy, (1.0, 8.0))):
            for given in (None, 0, 1, 7, ma if isinstance(ma, int) and ma >= 0 else 3):
                p = cls(*args, max_attempts=given)
                n = len(list(islice(p.new_schedule(), 0, 50)))
                if p.max_attempts != given or type(p.max_attempts) is not type(given) or n != (50 if given is None else min(given, 50)):
                    fails.append('%s(max_attempts=%r) stores %r and schedules %d attempts' % (cls.__name__, given, p.max_attempts, n))
        return {'reproduced': bool(fails), 'detail': '; '.join(fails[:3]) or 'the constructors store max_attempts as given'}
    if '_add_jitter' in obligation:
        import random
        b, m, v = _num(model.get('base_delay', 1)), _num(model.get('max_delay', 2)), _num(model.get('value', 1))
        p = policies.ExponentialReconnectionPolicy(b, m, ma)
        fails, asked = [], []
        real, real_p = random.randint, getattr(policies, 'randint', None)
        try:
            for j in (85, 100, 115, int(_num(model.get('jitter', 100)))):
                random.randint = lambda a, bb, j=j: asked.append((a, bb)) or j
                if real_p is not None:
                    policies.randint = random.randint
                for value in (v, b, m, (b + m) / 2.0):
                    got = p._add_jitter(value)
                    want = min(max(b, j * value / 100.0), m)
                    if not (b <= got <= m) or abs(got - want) > 1e-9 * max(1.0, abs(want)):
                        fails.append('_add_jitter(%r) with jitter %d%% under (base %r, max %r) = %r, expected %r' % (value, j, b, m, got, want))
        finally:
            random.randint = real
            if real_p is not None:
                policies.randint = real_p
        if set(asked) != {(85, 115)}:
            fails.append('jitter drawn from %r, expected randint(85, 115)' % (sorted(set(asked)),))
        return {'reproduced': bool(fails), 'detail': '; '.join(fails[:3]) or 'jitter within band and bounds at the model values'}
    if 'Constant' in obligation:
        d = _num(model.get('delay', 1))
        p = policies.ConstantReconnectionPolicy(d, ma)
        items = list(islice(p.new_schedule(), 0, (ma or 0) + 5))
        want = None if ma is None else ma
        bad = (want is not None and len(items) != want) or any(x != d for x in items)
        return {'reproduced': bad, 'detail': 'ConstantReconnectionPolicy(%r, %r): first items %r (expected %s items, each == delay)' % (d, ma, items[:6], want)}
    if 'Exponential' in obligation:
        b, m = _num(model.get('base_delay', 1)), _num(model.get('max_delay', 2))
        p = policies.ExponentialReconnectionPolicy(b, m, ma)
        n = 2000 if ma is None else ma + 5
        items = list(islice(p.new_schedule(), 0, n))
        bad = (ma is not None and len(items) != ma) or any(not (b <= x <= m) for x in items)
        detail = 'ExponentialReconnectionPolicy(%r, %r, %r): %d items, out of bounds: %r' % (b, m, ma, len(items), [x for x in items if not (b <= x <= m)][:3])
        if not bad:
            # the counter-model leaves the iteration at which int*float overflows open (E-FLOAT): search the
            # top-level postcondition concretely around the float-overflow index (2**1024) and small limits
            for (b2, m2, ma2) in [(1.5, 10.0, 1025), (0.5, 3.0, 1100), (1.0, 2.0, 1024), (0.5, 2.0, 5), (2, 7, 1030)]:
                p = policies.ExponentialReconnectionPolicy(b2, m2, ma2)
                it = list(islice(p.new_schedule(), 0, ma2 + 5))
                if len(it) != ma2 or any(not (b2 <= x <= m2) for x in it):
                    return {'reproduced': True, 'detail': 'concrete search: ExponentialReconnectionPolicy(%r, %r, %r) yields %d items (expected %d), out of bounds %r'
                            % (b2, m2, ma2, len(it), ma2, [x for x in it if not (b2 <= x <= m2)][:3])}
        return {'reproduced': bad, 'detail': detail}
    if 'handler' in obligation:
        from cassandra.pool import _ReconnectionHandler
        calls = []

        class Sched(object):
            def schedule(self, delay, fn, *a, **k):
                calls.append(delay)

        class H(_ReconnectionHandler):
            def try_reconnect(self):
                raise Exception('down')

            def on_exception(self, exc, next_delay):
                return True
        exhausted = bool(model.get('schedule_exhausted', False))
        d = _num(model.get('next_delay', 0))
        h = H(Sched(), iter([] if exhausted else [d]), lambda: None)
        h.run()
        want = [] if exhausted else [d]
        return {'reproduced': calls != want, 'detail': 'run() after a failed attempt with schedule %r scheduled %r (expected %r)' % (want, calls, want)}
    return {'reproduced': False, 'detail': 'no native replay'}
