"""C16 native replay: real ResponseFuture._set_result with a scripted retry policy."""
from contracts.native import rf


def replay(model, obligation):
    cl = rf.load_cluster()
    from cassandra import protocol
    from cassandra.policies import RetryPolicy
    fails = []
    for decision in (RetryPolicy.RETRY, RetryPolicy.RETRY_NEXT_HOST):
        for level in (None, 0, 1, 4):
            log = []
            h1 = rf.Host('h1')
            pools = {h1: rf.Pool(log, h1)}

            class P(RetryPolicy):
                def on_read_timeout(self, *a, **k):
                    log.append(('policy', k.get('retry_num')))
                    return decision, level
            f = rf.future(cl, rf.Session(log, pools), [], retry_policy=P())
            f._connection = pools[h1].conn
            f._query_retries = 2
            before = f.message.consistency_level
            resp = protocol.ReadTimeoutErrorMessage(code=0x1200, message='m', info=dict(consistency=4, received_responses=1, required_responses=2, data_retrieved=False))
            f._set_result(h1, pools[h1].conn, pools[h1], resp)
            want = before if level is None else level
            subs = [e for e in log if e[0] == 'submit']
            if f.message.consistency_level != want or [e for e in log if e[0] == 'policy'] != [('policy', 2)] or len(subs) != 1 or \
                    subs[0][2][0] is not (decision == RetryPolicy.RETRY):
                fails.append('policy decided (%r, %r): message consistency %r (expected %r), policy calls %r, continuations %r'
                             % (decision, level, f.message.consistency_level, want, [e for e in log if e[0] == 'policy'], [s[2] for s in subs]))
    return {'reproduced': bool(fails), 'detail': '; '.join(fails[:2]) or 'no disagreement'}
