"""C40 native side (bounded): GraphSON 1 / 2 / 3 serialize -> JSON text -> deserialize on generated values of every supported type."""
import datetime
import decimal
import ipaddress
import json
import os
import random
import sys
import uuid
sys.path.insert(0, os.path.dirname(os.path.dirname(os.path.dirname(os.path.abspath(__file__)))))

td = datetime.timedelta


def gen(kind, rng):
    from cassandra.util import Point, LineString, Polygon, Duration
    if kind == 'text':
        return rng.choice(['', 'a', 'é中\U0001f600', '"quoted"', 'line\nbreak', '\\', 'x' * 200])
    if kind == 'bool':
        return rng.random() < 0.5
    if kind == 'int32':
        return rng.choice([0, 1, -1, 2 ** 31 - 1, -2 ** 31, rng.randrange(-2 ** 31, 2 ** 31)])
    if kind == 'int64':
        return rng.choice([2 ** 31, -2 ** 31 - 1, 2 ** 63 - 1, -2 ** 63, rng.randrange(-2 ** 63, 2 ** 63)])
    if kind == 'bigint':
        return rng.choice([2 ** 63, -2 ** 63 - 1, 2 ** 100, -3 ** 80, rng.randrange(2 ** 64, 2 ** 90)])
    if kind == 'double':
        return rng.choice([0.0, 1.5, -2.25, 1e308, 5e-324, 0.1 + 0.2, rng.uniform(-1e9, 1e9), 1e22, 1.0e-7])
    if kind == 'decimal':
        return decimal.Decimal(rng.choice(['0', '-1.50', '123456789.000000001', '1E+20', '0.000000000000000001'])) * rng.choice([1, -1])
    if kind == 'uuid':
        return uuid.UUID(int=rng.getrandbits(128))
    if kind == 'blob':
        return bytes(rng.randrange(256) for _ in range(rng.randrange(0, 20)))
    if kind == 'date':
        return datetime.date.fromordinal(rng.randrange(1, 3652059))
    if kind == 'time':
        return datetime.time(rng.randrange(24), rng.randrange(60), rng.randrange(60), rng.choice([0, 1, 999, 1000, 500000, 999999, rng.randrange(10 ** 6)]))
    if kind == 'instant':
        us = rng.randrange(-62135596800 * 10 ** 6 + 3 * 86400 * 10 ** 6, 253402300799 * 10 ** 6 - 3 * 86400 * 10 ** 6)
        return datetime.datetime(1970, 1, 1) + td(microseconds=rng.choice([us, us - us % 1000, us - us % 10 ** 6]))       # the driver writes all six fractional digits: a microsecond instant must come back whole
    if kind == 'duration':
        return rng.choice([td(0), td(microseconds=1), td(microseconds=99), td(seconds=1, microseconds=300000), td(days=42, hours=10, minutes=5, seconds=37),
                           td(seconds=-1), td(seconds=-1, microseconds=-500000), td(days=-3, hours=2), td(days=109768, seconds=62124, microseconds=1),
                           td(days=rng.randrange(0, 400000), seconds=rng.randrange(86400), microseconds=rng.randrange(10 ** 6)) * rng.choice([1, -1])])
    if kind == 'dse-duration':
        return Duration(rng.randrange(0, 50), rng.randrange(0, 400), rng.randrange(0, 86400 * 10 ** 9))
    if kind == 'inet':
        return rng.choice([ipaddress.ip_address('10.1.2.3'), ipaddress.ip_address('::1'), ipaddress.ip_address(rng.getrandbits(32)), ipaddress.ip_address(rng.getrandbits(128))])
    if kind == 'point':
        return Point(rng.uniform(-180, 180), rng.uniform(-90, 90))
    if kind == 'linestring':
        return LineString(((0.0, 0.0), (1.5, 2.5), (rng.uniform(-5, 5), 3.0)))
    if kind == 'polygon':
        return Polygon([(10.1, 10.0), (110.0, 10.0), (110.0, 110.0), (10.0, 110.0), (10.1, 10.0)], [[(20.0, 20.0), (20.0, 30.0), (30.0, 30.0), (30.0, 20.0), (20.0, 20.0)]])
    raise ValueError(kind)


SCALARS = ['text', 'bool', 'int32', 'int64', 'bigint', 'double', 'decimal', 'uuid', 'blob', 'date', 'time', 'instant', 'duration', 'dse-duration', 'point', 'linestring', 'polygon']      # inet is not among the types the property lists (it reads back as text)


def same(a, b):
    if isinstance(a, float) and isinstance(b, float):
        return a == b or (a != a and b != b)
    if isinstance(a, (list, tuple)) and isinstance(b, (list, tuple)):
        return len(a) == len(b) and all(same(x, y) for x, y in zip(a, b))
    if isinstance(a, (set, frozenset)) and isinstance(b, (set, frozenset, list)):
        return len(a) == len(b) and all(any(same(x, y) for y in b) for x in a)
    if isinstance(a, dict) and isinstance(b, dict):
        return len(a) == len(b) and all(k in b and same(v, b[k]) for k, v in a.items())
    return a == b and (type(a) is type(b) or not isinstance(a, bool) and not isinstance(b, bool))


def round_trips(tier, seed):
    from cassandra.datastax.graph import graphson as G
    rng = random.Random(seed)
    fails, n, seen = [], 0, set()
    N = 60 if tier == 'quick' else 1500
    w2, r2 = G.GraphSON2Serializer(), G.GraphSON2Reader({})
    w3, r3 = G.GraphSON3Serializer({}), G.GraphSON3Reader({})

    def rt(version, v):
        if version == 1:
            s = G.GraphSON1Serializer.serialize(v)
            tio = G.GraphSON1Serializer.get_serializer(v)
            return G.GraphSON1Deserializer.deserialize(tio.graphson_type if tio else None, json.loads(json.dumps(s))) if tio else json.loads(json.dumps(s))
        if version == 2:
            return r2.read(json.dumps(w2.serialize(v)))
        return r3.read(json.dumps(w3.serialize(v)))
    for kind in SCALARS:
        for _ in range(N):
            v = gen(kind, rng)
            for version in (1, 2, 3):
                if (version == 1 and kind in ('dse-duration', 'int64', 'bigint', 'int32', 'double', 'bool', 'text')) or (version == 2 and kind == 'dse-duration'):
                    continue            # GraphSON1 is untyped JSON: numbers / text / booleans are plain JSON values (nothing to deserialize); the dse duration type only has a GraphSON3 serializer
                n += 1
                seen.add((kind, version, repr(v)))
                try:
                    back = rt(version, v)
                except Exception as e:
                    fails.append('GraphSON%d %s %r: %r' % (version, kind, v, e))
                    continue
                if not same(v, back):
                    fails.append('GraphSON%d %s: %r came back as %r' % (version, kind, v, back))
        if len(fails) > 3:
            break
    # containers (typed in GraphSON3; plain JSON lists/maps in GraphSON2)
    for _ in range(N * 3):
        kinds = [rng.choice([k for k in SCALARS if k not in ('double', 'linestring', 'polygon', 'point', 'dse-duration')]) for _ in range(3)]
        items = [gen(k, rng) for k in kinds]
        hashable = [x for x in items if isinstance(x, (str, int, uuid.UUID, bytes, datetime.date, datetime.time, td)) and not isinstance(x, bool)]
        v = rng.choice([items, {'k': items[0], 'l': [items[1], {'m': items[2]}]}, [items, [items[:1]]], set(hashable[:2]) if hashable else [items[0]],
                        {hashable[0]: items[1]} if hashable else {'x': items[1]}])
        for version in (2, 3):
            if version == 2:
                # GraphSON2 has no list / set type and only string map keys: a flat map of scalars is what it can carry
                v2 = {'k%d' % i: x for i, x in enumerate(items)}
                n += 1
                seen.add(('container', 2, repr(v2)))
                try:
                    back = rt(2, v2)
                    if not same(v2, back):
                        fails.append('GraphSON2 map: %r came back as %r' % (v2, back))
                except Exception as e:
                    fails.append('GraphSON2 map %r: %r' % (v2, e))
                continue
            n += 1
            seen.add(('container', version, repr(v)))
            try:
                back = rt(version, v)
            except Exception as e:
                fails.append('GraphSON%d container %r: %r' % (version, v, e))
                continue
            if not same(v, back):
                fails.append('GraphSON%d container: %r came back as %r' % (version, v, back))
    return {'name': 'graphson-round-trips', 'kind': 'bounded', 'cases': n, 'evaluations': n, 'distinct_nontrivial': len(seen), 'samples': [list(map(str, x)) for x in sorted(seen, key=str)[:3]],
            'rule': 'distinct = distinct (type, GraphSON version, value); deserialize(json(serialize(v))) == v',
            'bound': '%d values per scalar type (17 types incl. boundary integers, exact decimals, dates of years 1..9999, negative / sub-microsecond / very long durations, geometric types) x GraphSON 1/2/3, %d nested containers x GraphSON 2/3' % (N, N * 3),
            'violations': fails[:3]}


def replay(model, obligation):
    r = round_trips('quick', 0)
    return {'reproduced': bool(r['violations']), 'detail': '; '.join(r['violations'][:2]) or 'no disagreement'}
