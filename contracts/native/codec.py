"""Native replay for the scalar codec harnesses of C01/C02 (no z3 import)."""
import struct
from spec import cser


def replay(model, obligation):
    from cassandra import cqltypes, marshal, util
    prop, hname = obligation.split('/')[0], obligation.split('/')[1]
    pv = int(model.get('protocol_version', 4) or 4)
    fixed = {'ByteType': 1, 'ShortType': 2, 'Int32Type': 4, 'LongType': 8, 'CounterColumnType': 8}
    if hname in fixed:
        w = fixed[hname]
        v = int(model.get('value', 0))
        t = getattr(cqltypes, hname)
        inr = -(1 << (8 * w - 1)) <= v < (1 << (8 * w - 1))
        try:
            b = t.serialize(v, pv)
        except struct.error as e:
            return {'reproduced': inr, 'detail': '%s.serialize(%d) raised %r (in range: %s)' % (hname, v, e, inr)}
        if not inr:
            return {'reproduced': True, 'detail': '%s.serialize(%d) out of range returned %r instead of raising' % (hname, v, b)}
        exp = cser.be_signed(v, w)
        back = t.deserialize(b, pv)
        bad = b != exp or back != v
        return {'reproduced': bad, 'detail': '%s.serialize(%d) = %s (Cassandra: %s), decoded %r' % (hname, v, b.hex(), exp.hex(), back)}
    if hname == 'DateType':
        import datetime
        epoch = datetime.datetime(1970, 1, 1)
        fails = []
        us = int(model.get('microseconds_since_epoch', 0) or 0)
        cands = [us, -1, -999, -1001, 999, 1001, -62135596800 * 10 ** 6, 253402300799 * 10 ** 6 + 999999, 1500000000123456]
        for u in cands:
            try:
                dt = epoch + datetime.timedelta(microseconds=u)
            except OverflowError:
                continue
            want = u // 1000 if u >= 0 else -(-u // 1000)
            got = marshal.int64_unpack(cqltypes.DateType.serialize(dt, pv))
            if got != want:
                fails.append('serialize(%s) encodes %d ms, the instant is %d ms' % (dt.isoformat(), got, want))
        for d in [int(model.get('days_since_epoch', 0) or 0), -719162, -1, 0, 1, 2932896]:
            try:
                day = datetime.date(1970, 1, 1) + datetime.timedelta(days=d)
            except OverflowError:
                continue
            got = marshal.int64_unpack(cqltypes.DateType.serialize(day, pv))
            if got != d * 86400000:
                fails.append('serialize(%s) encodes %d ms, midnight UTC is %d ms' % (day.isoformat(), got, d * 86400000))
        for v in [int(model.get('value', 0) or 0), -(1 << 63), (1 << 63) - 1, 1 << 63, -(1 << 63) - 1]:
            inr = -(1 << 63) <= v < (1 << 63)
            try:
                b = cqltypes.DateType.serialize(v, pv)
                if not inr or b != cser.be_signed(v, 8):
                    fails.append('serialize(%d) gave %s' % (v, b.hex()))
            except struct.error:
                if inr:
                    fails.append('serialize(%d) raised' % v)
        for ms in [int(model.get('milliseconds', 0) or 0), -1, 1, -62135596800000, 253402300799999, 1500000000123]:
            try:
                want = epoch + datetime.timedelta(milliseconds=ms)
            except OverflowError:
                want = None
            try:
                dt = cqltypes.DateType.deserialize(marshal.int64_pack(ms), pv)
            except OverflowError:
                dt = None
            if dt != want:
                fails.append('deserialize(%d ms) gave %r, the instant is %r' % (ms, dt, want))
            elif dt is not None and cqltypes.DateType.serialize(dt, pv) != marshal.int64_pack(ms):
                fails.append('%d ms does not survive deserialize/serialize' % ms)
        return {'reproduced': bool(fails), 'detail': '; '.join(fails[:3]) or 'DateType agrees on the model value and the boundary instants'}
    if hname == 'SimpleDateType':
        d = int(model.get('days', 0))
        inr = -(1 << 31) <= d < (1 << 31)
        try:
            b = cqltypes.SimpleDateType.serialize(util.Date(d), pv)
        except struct.error as e:
            return {'reproduced': inr, 'detail': 'raised %r' % (e,)}
        if not inr:
            return {'reproduced': True, 'detail': 'out-of-range date %d encoded as %s' % (d, b.hex())}
        back = cqltypes.SimpleDateType.deserialize(b, pv)
        bad = b != cser.be_unsigned(d + cser.DATE_OFFSET, 4) or back.days_from_epoch != d
        return {'reproduced': bad, 'detail': 'Date(%d) -> %s -> %r' % (d, b.hex(), back)}
    if hname == 'TimeType':
        ns = int(model.get('nanoseconds', 0))
        valid = 0 <= ns <= cser.TIME_MAX_NS
        try:
            t = util.Time(ns)
        except ValueError as e:
            return {'reproduced': valid, 'detail': 'Time(%d) raised %r' % (ns, e)}
        if not valid:
            b = cqltypes.TimeType.serialize(t, pv)
            return {'reproduced': True, 'detail': 'util.Time(%d) accepted (outside TimeSerializer range [0, %d]) and serialized as %s' % (ns, cser.TIME_MAX_NS, b.hex())}
        b = cqltypes.TimeType.serialize(t, pv)
        back = cqltypes.TimeType.deserialize(b, pv)
        bad = b != cser.be_signed(ns, 8) or back.nanosecond_time != ns
        return {'reproduced': bad, 'detail': 'Time(%d) -> %s -> %r' % (ns, b.hex(), back)}
    if hname.startswith('vints_pack'):
        vals = [int(model.get('v%d' % i, 0)) for i in range(int(hname[hname.index('[') + 1:-1]))]
        try:
            b = marshal.vints_pack(vals)
        except Exception as e:
            return {'reproduced': True, 'detail': 'vints_pack(%r) raised %r' % (vals, e)}
        exp = b''.join(cser.vint(v) for v in vals)
        back = marshal.vints_unpack(b)
        bad = b != exp or tuple(back) != tuple(vals)
        return {'reproduced': bad, 'detail': 'vints_pack(%r) = %s (VIntCoding: %s), unpacked %r' % (vals, b.hex(), exp.hex(), back)}
    if hname == 'uvint':
        v = int(model.get('value', 0))
        b = marshal.uvint_pack(v)
        exp = cser.unsigned_vint(v, cser.unsigned_vint_extra_bytes(v))
        tail = bytes.fromhex((model.get('tail') or {}).get('bytes_hex', '')) if isinstance(model.get('tail'), dict) else b''
        try:
            r = marshal.uvint_unpack(b + tail)
        except Exception as e:
            r = repr(e)
        bad = b != exp or r != (v, len(exp))
        return {'reproduced': bad, 'detail': 'uvint_pack(%d) = %s (VIntCoding: %s); unpack -> %r' % (v, b.hex(), exp.hex(), r)}
    return _battery(model, hname, pv)


def _battery(model, hname, pv):
    """directed battery for the scalar codecs whose counter-models are structural (a byte string, a float, a flag): the model value when there is one, plus
    boundary values, through the real serialize / deserialize against the spec encoders"""
    import math
    import uuid
    from cassandra import cqltypes, marshal
    fails = []

    def hexbytes(name):
        v = model.get(name)
        return bytes.fromhex(v['bytes_hex']) if isinstance(v, dict) and 'bytes_hex' in v else None
    if hname == 'BooleanType':
        for v in (True, False):
            b = cqltypes.BooleanType.serialize(v, pv)
            if b != (b'\x01' if v else b'\x00') or cqltypes.BooleanType.deserialize(b, pv) is not v:
                fails.append('BooleanType %r -> %s -> %r' % (v, b.hex(), cqltypes.BooleanType.deserialize(b, pv)))
    elif hname in ('FloatType', 'DoubleType'):
        t = getattr(cqltypes, hname)
        for v in (0.0, -0.0, 1.5, -2.25, float('inf'), float('-inf'), 1e-40 if hname == 'DoubleType' else 1.0e-38, 3.0e38, 1.7976931348623157e308 if hname == 'DoubleType' else 65504.0):
            b = t.serialize(v, pv)
            want = struct.pack('>d' if hname == 'DoubleType' else '>f', v)
            back = t.deserialize(b, pv)
            if b != want or back != struct.unpack('>d' if hname == 'DoubleType' else '>f', want)[0] or math.copysign(1, back) != math.copysign(1, v):
                fails.append('%s %r -> %s (IEEE: %s) -> %r' % (hname, v, b.hex(), want.hex(), back))
        nan = t.deserialize(t.serialize(float('nan'), pv), pv)
        if nan == nan:
            fails.append('%s NaN came back as %r' % (hname, nan))
    elif hname in ('UTF8Type', 'AsciiType'):
        t = getattr(cqltypes, hname)
        for v in ['', 'a', "it's", 'x' * 300] + (['\u00e9\u4e2d\U0001f600', '\x00'] if hname == 'UTF8Type' else ['~!@']):
            b = t.serialize(v, pv)
            if b != v.encode('utf-8' if hname == 'UTF8Type' else 'ascii') or t.deserialize(b, pv) != v:
                fails.append('%s %r -> %s -> %r' % (hname, v, b.hex(), t.deserialize(b, pv)))
    elif hname == 'BytesType':
        for v in [hexbytes('value') or b'', b'', b'\x00', bytes(range(256))]:
            b = cqltypes.BytesType.serialize(v, pv)
            if bytes(b) != v or bytes(cqltypes.BytesType.deserialize(b, pv)) != v:
                fails.append('BytesType %r -> %r' % (v, b))
    elif hname == 'null-and-empty':
        for t, v in ((cqltypes.Int32Type, 5), (cqltypes.UTF8Type, 'x'), (cqltypes.BytesType, b'y'), (cqltypes.BooleanType, True)):
            if t.to_binary(None, pv) != b'' or t.from_binary(None, pv) is not None:
                fails.append('%s: null -> %r, wire null -> %r' % (t.__name__, t.to_binary(None, pv), t.from_binary(None, pv)))
            if t.from_binary(t.to_binary(v, pv), pv) != v:
                fails.append('%s: %r does not survive to_binary / from_binary' % (t.__name__, v))
            e = t.from_binary(b'', pv)
            if t.empty_binary_ok:
                if e != t.deserialize(b'', pv):
                    fails.append('%s: the empty value came back as %r' % (t.__name__, e))
            elif e is not None and not (t.support_empty_values and e is cqltypes.EMPTY):
                fails.append('%s: empty bytes came back as %r' % (t.__name__, e))
    elif hname in ('UUIDType', 'TimeUUIDType'):
        t = getattr(cqltypes, hname)
        for u in (uuid.UUID(int=0), uuid.UUID(int=(1 << 128) - 1), uuid.UUID('6ba7b810-9dad-11d1-80b4-00c04fd430c8'), uuid.UUID(int=0x0123456789abcdef0123456789abcdef)):
            b = t.serialize(u, pv)
            if b != u.bytes or t.deserialize(b, pv) != u:
                fails.append('%s %s -> %s -> %r' % (hname, u, b.hex(), t.deserialize(b, pv)))
    elif hname == 'zigzag':
        for n in [int(model.get('n', 0) or 0), 0, -1, 1, (1 << 63) - 1, -(1 << 63), 1 << 31, -(1 << 31) - 1]:
            z = marshal.encode_zig_zag(n)
            if z != cser.zigzag64(n) or marshal.decode_zig_zag(z) != n:
                fails.append('zig-zag of %d is %d (Cassandra: %d), decoded %d' % (n, z, cser.zigzag64(n), marshal.decode_zig_zag(z)))
    elif hname.startswith('VectorType'):
        fixed = 'fixed' in hname
        sub = cqltypes.Int32Type if fixed else cqltypes.UTF8Type
        for dim in (1, 2, 3):
            t = cqltypes.VectorType.apply_parameters([sub, dim], None)
            for v in ([[i * 7 - 3 for i in range(dim)], [0] * dim] if fixed else [['a' * (i * 70) for i in range(dim)], [''] * dim, ['\u00e9'] * dim]):
                b = t.serialize(v, pv)
                want = b''.join(sub.serialize(x, pv) if fixed else (cser.unsigned_vint(len(sub.serialize(x, pv)), cser.unsigned_vint_extra_bytes(len(sub.serialize(x, pv)))) + sub.serialize(x, pv)) for x in v)
                if b != want or list(t.deserialize(b, pv)) != v:
                    fails.append('vector<%s, %d> %r -> %s (expected %s) -> %r' % (sub.typename, dim, v, b.hex(), want.hex(), t.deserialize(b, pv)))
    elif hname.endswith('.decode'):
        widths = {'ByteType': 1, 'ShortType': 2, 'Int32Type': 4, 'LongType': 8, 'CounterColumnType': 8}
        cn = hname[:-7]
        w = widths[cn]
        for b in [hexbytes('bytes'), bytes(w), b'\xff' * w, b'\x80' + bytes(w - 1), b'\x7f' + b'\xff' * (w - 1)]:
            if b is None or len(b) != w:
                continue
            v = getattr(cqltypes, cn).deserialize(b, pv)
            if cser.be_signed(v, w) != b:
                fails.append('%s.deserialize(%s) = %d' % (cn, b.hex(), v))
    else:
        return {'reproduced': False, 'detail': 'no native replay for %s' % hname}
    return {'reproduced': bool(fails), 'detail': '; '.join(fails[:3]) or '%s agrees with the spec encoders on the battery' % hname}


def replay_collection(model, obligation):
    """Collections with the abstract element codec instantiated by real CQL types (text = empty_binary_ok, int = not)."""
    from cassandra import cqltypes
    hname = obligation.split('/')[1]
    empty_ok = 'empty_ok' in hname
    sub = cqltypes.UTF8Type if empty_ok else cqltypes.Int32Type
    mk = (lambda i: 'v%d' % i) if empty_ok else (lambda i: i + 1)
    pv = int(model.get('protocol_version', 4) or 4)
    fails = []
    if hname in ('TupleType<empty_ok-fields>', 'UserType<empty_ok-fields>'):
        # fields whose value may encode to zero bytes (text, blob): the empty value is a value, only a missing / null field is None
        names, types = ('s', 'n', 'b', 't'), (cqltypes.UTF8Type, cqltypes.Int32Type, cqltypes.BytesType, cqltypes.UTF8Type)
        t = cqltypes.TupleType.apply_parameters(types) if hname.startswith('Tuple') else cqltypes.UserType.make_udt_class('ks', 'verif_replay_udt_e', names, types)
        for pvv in sorted({pv, 3, 4, 5}):
            for val in [('', 7, b'', None), ('x', None, b'', ''), ('', 0, b'\x00', 'y'), (None, None, None, None)]:
                b = t.serialize(val, pvv)
                want = b''.join(struct.pack('>i', -1) if x is None else struct.pack('>i', len(ty.serialize(x, pvv))) + ty.serialize(x, pvv) for ty, x in zip(types, val))
                back = tuple(t.deserialize(b, pvv))
                if bytes(b) != want or back != val:
                    fails.append('%s pv=%d %r -> %s (Cassandra: %s) -> %r' % (hname, pvv, val, bytes(b).hex(), want.hex(), back))
        return {'reproduced': bool(fails), 'detail': '; '.join(fails[:3]) or 'tuples / UDTs with empty text and blob fields keep them on all versions'}
    if hname in ('TupleType', 'UserType'):
        inner = cqltypes.ListType.apply_parameters([cqltypes.Int32Type])
        inner_map = cqltypes.MapType.apply_parameters([cqltypes.UTF8Type, cqltypes.Int32Type])
        if hname == 'TupleType':
            t = cqltypes.TupleType.apply_parameters([cqltypes.Int32Type, inner, inner_map])
        else:
            t = cqltypes.UserType.make_udt_class('ks', 'verif_replay_udt', ('a', 'b', 'c'), (cqltypes.Int32Type, inner, inner_map))
        for pvv in sorted({pv, 1, 2, 3, 4, 5}):
            for val in [(1, [1, 2], {'k': 1}), (None, [3], None), (5, None, {'a': 1, 'b': 2}), (7, [], {})]:
                back = t.deserialize(t.serialize(val, pvv), pvv)
                got = tuple(list(x) if isinstance(x, list) else (dict(x) if x is not None and not isinstance(x, int) else x) for x in back)
                exp = tuple(list(x) if isinstance(x, list) else x for x in val)
                if got != exp:
                    fails.append('%s pv=%d %r -> %r' % (hname, pvv, val, got))
        return {'reproduced': bool(fails), 'detail': '; '.join(fails[:3]) or 'tuples/UDTs with nested collections round-trip on all versions'}
    for pvv in sorted({pv, 2, 4}):
        for k in range(0, 4):
            for mask in range(1 << k):
                items = [None if (mask >> i) & 1 else mk(i) for i in range(k)]
                if hname.startswith('MapType'):
                    t = cqltypes.MapType.apply_parameters([cqltypes.Int32Type, sub])
                    val = dict((i, v) for i, v in enumerate(items))
                    back = list(t.deserialize(t.serialize(val, pvv), pvv).values())
                else:
                    base = cqltypes.ListType if hname.startswith('ListType') else cqltypes.SetType
                    t = base.apply_parameters([sub])
                    if base is cqltypes.SetType and None in items:
                        continue
                    back = list(t.deserialize(t.serialize(items, pvv), pvv))
                if back != items:
                    fails.append('%s pv=%d %r -> %r' % (t.cql_parameterized_type(), pvv, items, back))
    return {'reproduced': bool(fails), 'detail': '; '.join(fails[:3]) or 'all small collections round-trip'}
