"""Native replay for the scalar codec harnesses of C01/C02 (no z3 import)."""
import struct
from spec import cser


def replay(model, obligation):
    from cassandra import cqltypes, marshal, util
    prop, hname = obligation.split('/')[0], obligation.split('/')[1]
    pv = int(model.get('protocol_version', 4) or 4)
    fixed = {'ByteType': 1, 'ShortType': 2, 'Int32Type': 4, 'LongType': 8, 'CounterColumnType': 8}
    if hname in fixed:
        w = fixed[hname]
        v = int(model.get('value', 0))
        t = getattr(cqltypes, hname)
        inr = -(1 << (8 * w - 1)) <= v < (1 << (8 * w - 1))
        try:
            b = t.serialize(v, pv)
        except struct.error as e:
            return {'reproduced': inr, 'detail': '%s.serialize(%d) raised %r (in range: %s)' % (hname, v, e, inr)}
        if not inr:
            return {'reproduced': True, 'detail': '%s.serialize(%d) out of range returned %r instead of raising' % (hname, v, b)}
        exp = cser.be_signed(v, w)
        back = t.deserialize(b, pv)
        bad = b != exp or back != v
        return {'reproduced': bad, 'detail': '%s.serialize(%d) = %s (Cassandra: %s), decoded %r' % (hname, v, b.hex(), exp.hex(), back)}
    if hname == 'DateType':
        import datetime
        epoch = datetime.datetime(1970, 1, 1)
        fails = []
        us = int(model.get('microseconds_since_epoch', 0) or 0)
        cands = [us, -1, -999, -1001, 999, 1001, -62135596800 * 10 ** 6, 253402300799 * 10 ** 6 + 999999, 1500000000123456]
        for u in cands:
            try:
                dt = epoch + datetime.timedelta(microseconds=u)
            except OverflowError:
                continue
            want = u // 1000 if u >= 0 else -(-u // 1000)
            got = marshal.int64_unpack(cqltypes.DateType.serialize(dt, pv))
            if got != want:
                fails.append('serialize(%s) encodes %d ms, the instant is %d ms' % (dt.isoformat(), got, want))
        for d in [int(model.get('days_since_epoch', 0) or 0), -719162, -1, 0, 1, 2932896]:
            try:
                day = datetime.date(1970, 1, 1) + datetime.timedelta(days=d)
            except OverflowError:
                continue
            got = marshal.int64_unpack(cqltypes.DateType.serialize(day, pv))
            if got != d * 86400000:
                fails.append('serialize(%s) encodes %d ms, midnight UTC is %d ms' % (day.isoformat(), got, d * 86400000))
        for v in [int(model.get('value', 0) or 0), -(1 << 63), (1 << 63) - 1, 1 << 63, -(1 << 63) - 1]:
            inr = -(1 << 63) <= v < (1 << 63)
            try:
                b = cqltypes.DateType.serialize(v, pv)
                if not inr or b != cser.be_signed(v, 8):
                    fails.append('serialize(%d) gave %s' % (v, b.hex()))
            except struct.error:
                if inr:
                    fails.append('serialize(%d) raised' % v)
        for ms in [int(model.get('milliseconds', 0) or 0), -1, 1, -62135596800000, 253402300799999, 1500000000123]:
            try:
                want = epoch + datetime.timedelta(milliseconds=ms)
            except OverflowError:
                want = None
            try:
                dt = cqltypes.DateType.deserialize(marshal.int64_pack(ms), pv)
            except OverflowError:
                dt = None
            if dt != want:
                fails.append('deserialize(%d ms) gave %r, the instant is %r' % (ms, dt, want))
            elif dt is not None and cqltypes.DateType.serialize(dt, pv) != marshal.int64_pack(ms):
                fails.append('%d ms does not survive deserialize/serialize' % ms)
        return {'reproduced': bool(fails), 'detail': '; '.join(fails[:3]) or 'DateType agrees on the model value and the boundary instants'}
    if hname == 'SimpleDateType':
        d = int(model.get('days', 0))
        inr = -(1 << 31) <= d < (1 << 31)
        try:
            b = cqltypes.SimpleDateType.serialize(util.Date(d), pv)
        except struct.error as e:
            return {'reproduced': inr, 'detail': 'raised %r' % (e,)}
        if not inr:
            return {'reproduced': True, 'detail': 'out-of-range date %d encoded as %s' % (d, b.hex())}
        back = cqltypes.SimpleDateType.deserialize(b, pv)
        bad = b != cser.be_unsigned(d + cser.DATE_OFFSET, 4) or back.days_from_epoch != d
        return {'reproduced': bad, 'detail': 'Date(%d) -> %s -> %r' % (d, b.hex(), back)}
    if hname == 'TimeType':
        ns = int(model.get('nanoseconds', 0))
        valid = 0 <= ns <= cser.TIME_MAX_NS
        try:
            t = util.Time(ns)
        except ValueError as e:
            return {'reproduced': valid, 'detail': 'Time(%d) raised %r' % (ns, e)}
        if not valid:
            b = cqltypes.TimeType.serialize(t, pv)
            return {'reproduced': True, 'detail': 'util.Time(%d) accepted (outside TimeSerializer range [0, %d]) and serialized as %s' % (ns, cser.TIME_MAX_NS, b.hex())}
        b = cqltypes.TimeType.serialize(t, pv)
        back = cqltypes.TimeType.deserialize(b, pv)
        bad = b != cser.be_signed(ns, 8) or back.nanosecond_time != ns
        return {'reproduced': bad, 'detail': 'Time(%d) -> %s -> %r' % (ns, b.hex(), back)}
    if hname.startswith('vints_pack'):
        vals = [int(model.get('v%d' % i, 0)) for i in range(int(hname[hname.index('[') + 1:-1]))]
        try:
            b = marshal.vints_pack(vals)
        except Exception as e:
            return {'reproduced': True, 'detail': 'vints_pack(%r) raised %r' % (vals, e)}
        exp = b''.join(cser.vint(v) for v in vals)
        back = marshal.vints_unpack(b)
        bad = b != exp or tuple(back) != tuple(vals)
        return {'reproduced': bad, 'detail': 'vints_pack(%r) = %s (VIntCoding: %s), unpacked %r' % (vals, b.hex(), exp.hex(), back)}
    if hname == 'uvint':
        v = int(model.get('value', 0))
        b = marshal.uvint_pack(v)
        exp = cser.unsigned_vint(v, cser.unsigned_vint_extra_bytes(v))
        tail = bytes.fromhex((model.get('tail') or {}).get('bytes_hex', '')) if isinstance(model.get('tail'), dict) else b''
        try:
            r = marshal.uvint_unpack(b + tail)
        except Exception as e:
            r = repr(e)
        bad = b != exp or r != (v, len(exp))
        return {'reproduced': bad, 'detail': 'uvint_pack(%d) = %s (VIntCoding: %s); unpack -> %r' % (v, b.hex(), exp.hex(), r)}
    return {'reproduced': False, 'detail': 'no native replay for %s' % hname}


def replay_collection(model, obligation):
    """Collections with the abstract element codec instantiated by real CQL types (text = empty_binary_ok, int = not)."""
    from cassandra import cqltypes
    hname = obligation.split('/')[1]
    empty_ok = 'empty_ok' in hname
    sub = cqltypes.UTF8Type if empty_ok else cqltypes.Int32Type
    mk = (lambda i: 'v%d' % i) if empty_ok else (lambda i: i + 1)
    pv = int(model.get('protocol_version', 4) or 4)
    fails = []
    if hname in ('TupleType', 'UserType'):
        inner = cqltypes.ListType.apply_parameters([cqltypes.Int32Type])
        inner_map = cqltypes.MapType.apply_parameters([cqltypes.UTF8Type, cqltypes.Int32Type])
        if hname == 'TupleType':
            t = cqltypes.TupleType.apply_parameters([cqltypes.Int32Type, inner, inner_map])
        else:
            t = cqltypes.UserType.make_udt_class('ks', 'verif_replay_udt', ('a', 'b', 'c'), (cqltypes.Int32Type, inner, inner_map))
        for pvv in sorted({pv, 1, 2, 3, 4, 5}):
            for val in [(1, [1, 2], {'k': 1}), (None, [3], None), (5, None, {'a': 1, 'b': 2}), (7, [], {})]:
                back = t.deserialize(t.serialize(val, pvv), pvv)
                got = tuple(list(x) if isinstance(x, list) else (dict(x) if x is not None and not isinstance(x, int) else x) for x in back)
                exp = tuple(list(x) if isinstance(x, list) else x for x in val)
                if got != exp:
                    fails.append('%s pv=%d %r -> %r' % (hname, pvv, val, got))
        return {'reproduced': bool(fails), 'detail': '; '.join(fails[:3]) or 'tuples/UDTs with nested collections round-trip on all versions'}
    for pvv in sorted({pv, 2, 4}):
        for k in range(0, 4):
            for mask in range(1 << k):
                items = [None if (mask >> i) & 1 else mk(i) for i in range(k)]
                if hname.startswith('MapType'):
                    t = cqltypes.MapType.apply_parameters([cqltypes.Int32Type, sub])
                    val = dict((i, v) for i, v in enumerate(items))
                    back = list(t.deserialize(t.serialize(val, pvv), pvv).values())
                else:
                    base = cqltypes.ListType if hname.startswith('ListType') else cqltypes.SetType
                    t = base.apply_parameters([sub])
                    if base is cqltypes.SetType and None in items:
                        continue
                    back = list(t.deserialize(t.serialize(items, pvv), pvv))
                if back != items:
                    fails.append('%s pv=%d %r -> %r' % (t.cql_parameterized_type(), pvv, items, back))
    return {'reproduced': bool(fails), 'detail': '; '.join(fails[:3]) or 'all small collections round-trip'}
