"""C05 native replay: feed real frames to a real Connection's read path under every 2- and 3-way split (no z3)."""
import struct


def replay(model, obligation):
    from cassandra.connection import Connection, _ConnectionIOBuffer

    def frame(version, stream, body, op=0x08):
        if version >= 3:
            return struct.pack('>BBhBi', 0x80 | version, 0, stream, op, len(body)) + body
        return struct.pack('>BBbBi', 0x80 | version, 0, stream, op, len(body)) + body

    class C(Connection):
        def __init__(self):
            pass
    fails = []
    for version in (2, 4):
        frames = [(version, 0, b''), (version, 1, b'xyz'), (version, -1, b'ev'), (version, 5, b'\x00' * 9)]
        wire = b''.join(frame(*f) for f in frames)
        want = [(s, b) for _, s, b in frames]
        cuts = [(i,) for i in range(1, len(wire))] + [(i, j) for i in range(1, 12) for j in range(i + 1, len(wire), 3)] + [tuple(range(1, len(wire)))]
        for cut in cuts:
            c = C()
            c._is_checksumming_enabled = False
            c._io_buffer = _ConnectionIOBuffer(c)
            c._current_frame = None
            c.is_defunct = False
            errs, got = [], []
            c.defunct = lambda exc, errs=errs: errs.append(exc)
            c.process_msg = lambda h, b, got=got: got.append((h.stream, bytes(b)))
            prev = 0
            for pos in list(cut) + [len(wire)]:
                c._iobuf.write(wire[prev:pos])
                prev = pos
                c.process_io_buffer()
            if got != want or errs:
                fails.append('v%d split at %r: delivered %r errors %r' % (version, cut[:4], got, errs[:1]))
                break
    return {'reproduced': bool(fails), 'detail': '; '.join(fails[:2]) or 'all chunkings deliver every frame exactly once'}


def replay_dispatch(model, obligation):
    """the real Connection.handle_pushed / process_msg: who is told about a decoded frame"""
    import threading
    import types
    from cassandra.connection import Connection
    fails = []

    class C(Connection):
        def __init__(self):
            pass
    if '/handle_pushed/' in obligation:
        for raises in (False, True):
            for et, want in (('STATUS_CHANGE', ['w1', 'w2']), ('SCHEMA_CHANGE', ['other']), ('TOPOLOGY_CHANGE', [])):
                calls, args = [], object()

                def w1(a):
                    calls.append(('w1', a))
                    if raises:
                        raise Exception('boom')
                c = C()
                c._push_watchers = {'STATUS_CHANGE': [w1, lambda a: calls.append(('w2', a))], 'SCHEMA_CHANGE': [lambda a: calls.append(('other', a))]}
                try:
                    c.handle_pushed(types.SimpleNamespace(event_type=et, event_args=args))
                except Exception as e:
                    fails.append('%s event, first watcher raises=%s: handle_pushed raised %r' % (et, raises, e))
                if [x[0] for x in calls] != want or any(x[1] is not args for x in calls):
                    fails.append('%s event, first watcher raises=%s: watchers told %r (expected %r, each with the event arguments)' % (et, raises, [x[0] for x in calls], want))
        return {'reproduced': bool(fails), 'detail': '; '.join(fails[:2]) or 'exactly the watchers of the event type are told'}
    sid0 = model.get('stream_id', 3)
    try:
        sid0 = int(sid0)
    except (TypeError, ValueError):
        sid0 = 3
    for sid in sorted({sid0, -1, 0, 3, 32767}):
        log, decoded = [], object()
        c = C()
        c._continuous_paging_sessions, c.lock, c.orphaned_request_ids, c.in_flight = {}, threading.RLock(), set(), 2
        c._on_orphaned_stream_released, c.request_ids, c.user_type_map, c.decompressor = None, [], {}, None
        c.is_unsupported_proto_version, c.msg_received = False, False
        other = 7 if sid != 7 else 8
        dec = lambda *a, **k: decoded
        c._requests = {other: (lambda r: log.append(('other', r)), dec, None)}
        if sid >= 0:
            c._requests[sid] = (lambda r: log.append(('cb', r)), dec, None)
        c.handle_pushed = lambda r: log.append(('pushed', r))
        c.defunct = lambda exc: log.append(('defunct', exc))
        import cassandra.connection as cc
        real = cc.ProtocolHandler.decode_message
        cc.ProtocolHandler.decode_message = staticmethod(dec) if not isinstance(real, classmethod) else classmethod(lambda cls, *a, **k: decoded)
        try:
            c.process_msg(types.SimpleNamespace(stream=sid, version=4, flags=0, opcode=8, body_offset=9, end_pos=9), b'')
        finally:
            cc.ProtocolHandler.decode_message = real
        want = [('pushed', decoded)] if sid < 0 else [('cb', decoded)]
        ids = [] if sid < 0 else [sid]
        if log != want or list(c.request_ids) != ids or c.msg_received is not True or len(c._requests) != 1:
            fails.append('frame on stream %d: told %r (expected %r), ids released %r (expected %r), handlers left %d, msg_received %r'
                         % (sid, [x[0] for x in log], [x[0] for x in want], list(c.request_ids), ids, len(c._requests), c.msg_received))
    return {'reproduced': bool(fails), 'detail': '; '.join(fails[:2]) or 'each frame reaches its own handler once'}
