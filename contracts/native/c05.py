"""C05 native replay: feed real frames to a real Connection's read path under every 2- and 3-way split (no z3)."""
import struct


def replay(model, obligation):
    from cassandra.connection import Connection, _ConnectionIOBuffer

    def frame(version, stream, body, op=0x08):
        if version >= 3:
            return struct.pack('>BBhBi', 0x80 | version, 0, stream, op, len(body)) + body
        return struct.pack('>BBbBi', 0x80 | version, 0, stream, op, len(body)) + body

    class C(Connection):
        def __init__(self):
            pass
    fails = []
    for version in (2, 4):
        frames = [(version, 0, b''), (version, 1, b'xyz'), (version, -1, b'ev'), (version, 5, b'\x00' * 9)]
        wire = b''.join(frame(*f) for f in frames)
        want = [(s, b) for _, s, b in frames]
        cuts = [(i,) for i in range(1, len(wire))] + [(i, j) for i in range(1, 12) for j in range(i + 1, len(wire), 3)] + [tuple(range(1, len(wire)))]
        for cut in cuts:
            c = C()
            c._is_checksumming_enabled = False
            c._io_buffer = _ConnectionIOBuffer(c)
            c._current_frame = None
            c.is_defunct = False
            errs, got = [], []
            c.defunct = lambda exc, errs=errs: errs.append(exc)
            c.process_msg = lambda h, b, got=got: got.append((h.stream, bytes(b)))
            prev = 0
            for pos in list(cut) + [len(wire)]:
                c._iobuf.write(wire[prev:pos])
                prev = pos
                c.process_io_buffer()
            if got != want or errs:
                fails.append('v%d split at %r: delivered %r errors %r' % (version, cut[:4], got, errs[:1]))
                break
    return {'reproduced': bool(fails), 'detail': '; '.join(fails[:2]) or 'all chunkings deliver every frame exactly once'}
