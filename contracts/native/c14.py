"""C14 native replay."""
from contracts.native import rf


def replay(model, obligation):
    cl = rf.load_cluster()
    from cassandra.protocol import ResultMessage, RESULT_KIND_VOID
    fails = []
    # first completion delivers once
    for which in ('result', 'exception'):
        log = []
        h1, h2 = rf.Host('h1'), rf.Host('h2')
        pools = {h1: rf.Pool(log, h1), h2: rf.Pool(log, h2)}
        f = rf.future(cl, rf.Session(log, pools), [h1, h2])
        ran = []
        f.add_callback(lambda r: ran.append(('cb', r)))
        f.add_errback(lambda e: ran.append(('eb', e)))
        if which == 'result':
            f._set_final_result('R')
            want = [('cb', 'R')]
        else:
            e = Exception('x')
            f._set_final_exception(e)
            want = [('eb', e)]
        if ran != want:
            fails.append('first completion with %s ran %r (expected %r)' % (which, ran, want))
        late = []
        (f.add_callback if which == 'result' else f.add_errback)(lambda r: late.append(r))
        if len(late) != 1:
            fails.append('callback added after completion ran %d times' % len(late))
    if '/result/' in obligation:
        # the blocking call reports what was delivered
        for which in ('result', 'exception'):
            log = []
            h1 = rf.Host('h1')
            f = rf.future(cl, rf.Session(log, {h1: rf.Pool(log, h1)}), [h1])
            e = Exception('stored')
            if which == 'result':
                f._set_final_result(['row'])
            else:
                f._set_final_exception(e)
            try:
                got = ('ok', list(f.result()))
            except Exception as x:
                got = ('exc', x)
            if (which == 'result' and got != ('ok', ['row'])) or (which == 'exception' and not (got[0] == 'exc' and got[1] is e)):
                fails.append('result() of a future completed with %s: %r' % ('rows' if which == 'result' else 'an exception', got))
    if 'KF-C14' in obligation:
        log = []
        h1, h2 = rf.Host('h1'), rf.Host('h2')
        pools = {h1: rf.Pool(log, h1), h2: rf.Pool(log, h2)}
        f = rf.future(cl, rf.Session(log, pools), [h1, h2])
        ran = []
        f.add_callback(lambda r: ran.append(r))
        f.send_request()
        f.send_request(False)
        for e in [x for x in log if x[0] == 'send']:
            e[3](ResultMessage(RESULT_KIND_VOID))
        if len(ran) != 1:
            fails.append('two speculative executions both answered: callbacks ran %d times' % len(ran))
    if '_on_speculative_execute' in obligation:
        log = []
        h1 = rf.Host('h1')
        pools = {h1: rf.Pool(log, h1)}
        f = rf.future(cl, rf.Session(log, pools), [h1])
        errs = []
        f.add_errback(errs.append)
        f.send_request()
        f._on_speculative_execute()          # plan exhausted, original still in flight
        if errs:
            fails.append('speculative execution with an exhausted plan failed the future while the original request is in flight: %r' % (errs[0],))
    if 'start_fetching_next_page' in obligation:
        log = []
        h1 = rf.Host('h1')
        pools = {h1: rf.Pool(log, h1)}
        f = rf.future(cl, rf.Session(log, pools), [h1])
        f.send_request()
        f._set_final_exception(Exception('page 2 failed'))
        f._paging_state = b'ps'
        f.start_fetching_next_page()
        late = []
        f.add_errback(late.append)
        if late or f._final_exception is not None:
            fails.append('after start_fetching_next_page the previous failure is still stored: an errback added mid-flight ran with %r' % (late[:1],))
    return {'reproduced': bool(fails), 'detail': '; '.join(fails[:3]) or 'no disagreement'}
