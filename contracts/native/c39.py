"""C39 native side: the real AES256ColumnEncryptionPolicy (E-AES probe) and the end-to-end bind -> ROWS -> decode round trip with it."""
import io
import os
import random
import struct
import sys
sys.path.insert(0, os.path.dirname(os.path.dirname(os.path.dirname(os.path.abspath(__file__)))))


def _s(x):
    b = x.encode()
    return struct.pack('>H', len(b)) + b


def real_policy_round_trip(tier, seed):
    # every value this probe hands to the driver is a legal one (incl. empty text / blob and nulls): an exception escaping the driver is a failure of the
    # property ("transparent"), reported with the place it came from - not a crash of the probe
    import traceback
    try:
        return _real_policy_round_trip(tier, seed)
    except Exception as e:
        tb = traceback.extract_tb(e.__traceback__)
        where = next((f for f in reversed(tb) if '/cassandra/' in f.filename), tb[-1])
        return {'name': 'real-aes-policy-round-trip', 'kind': 'bounded', 'cases': 1, 'evaluations': 1, 'distinct_nontrivial': 1, 'rule': 'stopped by an exception', 'bound': 'n/a',
                'violations': ['%s raised by %s:%d (%s) for a legal value' % (repr(e)[:160], where.filename.split('/cassandra/')[-1], where.lineno, where.name)]}


def _real_policy_round_trip(tier, seed):
    try:
        from cassandra.column_encryption.policies import AES256ColumnEncryptionPolicy
    except Exception as e:
        return {'name': 'real-aes-policy-round-trip', 'kind': 'bounded', 'cases': 0, 'evaluations': 0, 'distinct_nontrivial': 0,
                'rule': 'skipped: the cryptography package is not importable under this interpreter (%s)' % type(e).__name__, 'bound': 'none', 'violations': []}
    from cassandra.policies import ColDesc
    from cassandra.protocol import ResultMessage, ColumnMetadata
    from cassandra.query import PreparedStatement, BoundStatement
    from cassandra.cqltypes import BytesType, Int32Type, UTF8Type
    rng = random.Random(seed)
    fails, n = [], 0
    pol = AES256ColumnEncryptionPolicy(iv=bytes(range(16)))
    specs = [('i', 'int', Int32Type, [0, 1, -1, 2 ** 31 - 1, -2 ** 31, 42]), ('t', 'text', UTF8Type, ['', 'a', 'é' * 5, 'x' * 16, 'y' * 31, 'z' * 32]),
             ('b', 'blob', BytesType, [b'', b'\x00', bytes(15), bytes(16), bytes(17), os.urandom(33)])]
    for name, cql, typ, vals in specs:
        cd = ColDesc('ks', 'tb', name)
        pol.add_column(cd, bytes(range(32)), cql)
        # E-AES on bytes of every length 0..48
        for ln in range(0, 49):
            b = bytes(rng.randrange(256) for _ in range(ln))
            n += 1
            try:
                e = pol.encrypt(cd, b)
                back = pol.decrypt(cd, e)
            except Exception as ex:
                fails.append('encrypt / decrypt of %d bytes raised %r' % (len(b), ex))
                continue
            if back != b or e == b:
                fails.append('decrypt(encrypt(%r)) = %r' % (b, back))
        prep = PreparedStatement([ColumnMetadata('ks', 'tb', name, BytesType), ColumnMetadata('ks', 'tb', 'k', Int32Type)], b'id', None, 'q', 'ks', 4, None, None, pol)
        for v in vals + [None]:
            n += 1
            try:
                bound = BoundStatement(prep).bind([v, 7])
            except Exception as e:
                fails.append('bind(%r) for encrypted %s column raised %r' % (v, cql, e))
                continue
            wire = bound.values[0]
            if v is not None and (wire is None or wire == typ.serialize(v, 4)):
                fails.append('bind(%r): encrypted %s column sent as %r' % (v, cql, wire))
            if v is None and wire is not None:
                fails.append('bind(None): encrypted column sent as %r' % (wire,))
            cell = struct.pack('>i', -1) if wire is None else struct.pack('>i', len(wire)) + wire
            meta = struct.pack('>ii', 1, 1) + _s('ks') + _s('tb') + _s(name) + struct.pack('>H', 3)
            body = struct.pack('>i', 2) + meta + struct.pack('>i', 1) + cell
            try:
                m = ResultMessage.recv_body(io.BytesIO(body), 4, {}, None, pol)
                if m.parsed_rows != [(v,)]:
                    fails.append('encrypted %s value %r came back as %r' % (cql, v, m.parsed_rows))
            except Exception as e:
                fails.append('decoding the encrypted %s value %r raised %r' % (cql, v, e))
    # written by one client, read by another: the reader's policy has the same column key but its own (different) initialisation vector - the one that counts is
    # the one the writer put in front of the ciphertext
    writer, reader = AES256ColumnEncryptionPolicy(iv=bytes(range(16))), AES256ColumnEncryptionPolicy(iv=bytes(range(100, 116)))
    cdx = ColDesc('ks', 'tb', 'x')
    for pol_ in (writer, reader):
        pol_.add_column(cdx, bytes(range(32)), 'blob')
    for ln in (0, 1, 15, 16, 17, 40):
        b = bytes(rng.randrange(256) for _ in range(ln))
        n += 1
        try:
            got = reader.decrypt(cdx, writer.encrypt(cdx, b))
        except Exception as e:
            got = e
        if got != b:
            fails.append('a value of %d bytes encrypted by one policy instance and decrypted by another with the same key and a different IV gave %r' % (ln, got))
    # two encrypted columns of different types and keys (and a plain one) in one result
    pol2 = AES256ColumnEncryptionPolicy(iv=bytes(range(16)))
    ca, cb = ColDesc('ks', 'tb', 'a'), ColDesc('ks', 'tb', 'b')
    pol2.add_column(ca, bytes(range(32)), 'int')
    pol2.add_column(cb, bytes(range(32, 64)), 'text')
    for va, vb in ((7, 'abcd'), (None, 'x' * 16), (-1, None), (None, None), (2 ** 31 - 1, '')):
        n += 1
        cells = []
        for cd, typ, v in ((ca, Int32Type, va), (None, Int32Type, 5), (cb, UTF8Type, vb)):
            if v is None:
                cells.append(struct.pack('>i', -1))
            else:
                b = typ.serialize(v, 4)
                b = pol2.encrypt(cd, b) if cd is not None else b
                cells.append(struct.pack('>i', len(b)) + b)
        meta = struct.pack('>ii', 1, 3) + _s('ks') + _s('tb') + _s('a') + struct.pack('>H', 3) + _s('plain') + struct.pack('>H', 9) + _s('b') + struct.pack('>H', 3)
        body = struct.pack('>i', 2) + meta + struct.pack('>i', 1) + b''.join(cells)
        try:
            m = ResultMessage.recv_body(io.BytesIO(body), 4, {}, None, pol2)
            if m.parsed_rows != [(va, 5, vb)]:
                fails.append('two encrypted columns (int %r, text %r) came back as %r' % (va, vb, m.parsed_rows))
        except Exception as e:
            fails.append('two encrypted columns (int %r, text %r): decoding raised %r' % (va, vb, e))
    return {'name': 'real-aes-policy-round-trip', 'kind': 'bounded', 'cases': n, 'evaluations': n, 'distinct_nontrivial': n,
            'rule': 'E-AES probe: decrypt(encrypt(b)) == b for the real policy; bind -> ROWS body -> recv_body returns the bound value (None included)',
            'bound': 'byte strings of every length 0..48; int / text / blob encrypted columns with 6 values each (incl. 0, empty, block-aligned lengths) and null', 'violations': fails[:3]}


def replay(model, obligation):
    r = real_policy_round_trip('quick', 0)
    return {'reproduced': bool(r['violations']), 'detail': '; '.join(r['violations'][:2]) or 'no disagreement with the real AES policy (%s)' % r.get('rule', '')}
