"""C44 native replay: one real heartbeat round over fake-transport connections."""
import threading
import types


def _replay_received():
    """a real (socket-less) Connection receiving a pushed EVENT frame: it must count as traffic"""
    import io
    from contracts.native.c10 import _conn
    from cassandra import protocol
    from cassandra.connection import _Frame
    c = _conn()
    c.msg_received = False
    c.orphaned_request_ids, c.in_flight, c.request_ids, c.user_type_map, c.decompressor = set(), 0, [], {}, None
    c._push_watchers = {}
    body = io.BytesIO()
    protocol.write_string(body, 'STATUS_CHANGE')
    protocol.write_string(body, 'UP')
    protocol.write_inet(body, ('10.0.0.9', 9042))
    c.process_msg(_Frame(version=4, flags=0, stream=-1, opcode=0x0C, body_offset=9, end_pos=9 + len(body.getvalue())), body.getvalue())
    bad = c.msg_received is not True
    return {'reproduced': bad, 'detail': 'after a pushed STATUS_CHANGE event (stream -1) msg_received is %r, is_idle %r: the next heartbeat round treats the connection as silent' % (c.msg_received, c.is_idle)}


def replay(model, obligation):
    if 'msg_received' in obligation:
        return _replay_received()
    from cassandra.connection import Connection, ConnectionHeartbeat, ConnectionException, ConnectionShutdown
    from cassandra.protocol import SupportedMessage, ReadyMessage
    kinds = ['idle-answers', 'idle-silent', 'idle-send-raises', 'idle-at-capacity', 'idle-connection-error', 'idle-unexpected-reply', 'busy', 'defunct', 'closed']
    n = model.get('choice_connections', 1) + 1
    log = []

    class Owner(object):
        def __init__(self, name):
            self.name, self.conns, self.shutdown_on_error = name, [], False

        def get_connections(self):
            return list(self.conns)

        def return_connection(self, c, *a, **k):
            log.append(('return', self.name, c.name))
    owners = [Owner('o0'), Owner('o1')]

    class C(Connection):
        def __init__(self, name, kind, in_flight, maxid, control):
            self.name, self.kind, self.in_flight, self.max_request_id = name, kind, in_flight, maxid
            self.lock = threading.RLock()
            self.msg_received = kind == 'busy'
            self.is_defunct, self.is_closed, self.is_control_connection = kind == 'defunct', kind == 'closed', control
            self.endpoint = name

        def get_request_id(self):
            return 7

        def send_msg(self, msg, rid, cb, *a, **k):
            if self.kind == 'idle-send-raises':
                raise ConnectionShutdown('closed')
            log.append(('send', self.name))
            if self.kind == 'idle-answers':
                cb(SupportedMessage([], {}))
            elif self.kind == 'idle-connection-error':
                cb(ConnectionException('lost'))
            elif self.kind == 'idle-unexpected-reply':
                cb(ReadyMessage())

        def defunct(self, exc):
            log.append(('defunct', self.name))
            self.is_defunct = True
    conns = []
    for i in range(n):
        kind = kinds[model.get('choice_conn%d' % i, 0)]
        own = owners[model.get('choice_conn%d_owner' % i, 0)] if i else owners[0]
        maxid = int(model.get('conn%d_max_request_id' % i, 10) or 10)
        inf = int(model.get('conn%d_in_flight' % i, 0) or 0)
        if kind == 'idle-at-capacity':
            inf = maxid
        c = C('c%d' % i, kind, inf, maxid, bool(model.get('choice_conn0_is_control', 0)) if i == 0 else False)
        c.in_flight0 = inf
        own.conns.append(c)
        conns.append((c, own, kind))
    hb = ConnectionHeartbeat.__new__(ConnectionHeartbeat)
    def num(v, d):
        try:
            from fractions import Fraction
            return float(Fraction(str(v).replace('?', '')))
        except Exception:
            return d
    hb._interval, hb._timeout, hb._get_connection_holders = 0.01, num(model.get('timeout'), 0.05), lambda: list(owners)
    if hb._timeout <= 0 or hb._timeout > 0.2:
        hb._timeout = 0.05
    import cassandra.connection as cmod
    ts = [num(model.get('t%d' % i), None) for i in range(12)]
    real_time = cmod.time
    if all(t is not None for t in ts) and 'timeout' in model and 0 < num(model.get('timeout'), 0) <= 0.2 or True:
        state = {'i': 0}
        base = [t if t is not None else 0.0 for t in ts]

        def fake():
            t = base[min(state['i'], len(base) - 1)]
            state['i'] += 1
            return t
        hb._timeout = num(model.get('timeout'), 0.05) if num(model.get('timeout'), 0) > 0 else 0.05
        wait_cap = min(hb._timeout, 0.05)
        cmod.time = types.SimpleNamespace(time=fake)
        orig_wait = cmod.HeartbeatFuture.wait

    class RoundEvent(object):
        flag, waits = False, 0

        def is_set(self):
            return self.flag

        def wait(self, t=None):
            self.waits += 1
            if self.waits >= 2:
                self.flag = True
    hb._shutdown_event = RoundEvent()
    real_event_wait = threading.Event.wait
    try:
        # the model's clock readings replace the wall clock; a wait on an unset event 'times out' at once
        threading.Event.wait = lambda self, timeout=None: self.is_set()
        hb.run()
    finally:
        threading.Event.wait = real_event_wait
        cmod.time = real_time
    fails = []
    for c, own, kind in conns:
        d = [e for e in log if e[0] == 'defunct' and e[1] == c.name]
        r = [e for e in log if e[0] == 'return' and e[2] == c.name]
        if kind == 'idle-answers' and (c.in_flight != c.in_flight0 or c.msg_received or d or r):
            fails.append('%s answered its heartbeat: in_flight %d -> %d, defunct=%s, returned=%s' % (c.name, c.in_flight0, c.in_flight, bool(d), r))
        if kind in ('idle-silent', 'idle-send-raises', 'idle-at-capacity', 'idle-connection-error', 'idle-unexpected-reply'):
            if len(d) != 1 or r != [('return', own.name, c.name)]:
                fails.append('%s (%s, owner %s): defunct x%d, owner notifications %s' % (c.name, kind, own.name, len(d), r))
            elif not c.is_control_connection and not own.shutdown_on_error:
                fails.append('%s failed but its owner %s was not flagged' % (c.name, own.name))
        if kind == 'busy' and ([e for e in log if e[0] == 'send' and e[1] == c.name] or c.msg_received):
            fails.append('%s had traffic but got a heartbeat / stayed flagged' % c.name)
    for o in owners:
        if o.shutdown_on_error and not any(own is o and kind.startswith('idle') and kind != 'idle-answers' for c, own, kind in conns):
            fails.append('owner %s flagged shutdown_on_error without a failed connection' % o.name)
    return {'reproduced': bool(fails), 'detail': '; '.join(fails[:3]) or 'no disagreement'}
