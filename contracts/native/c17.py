"""C17 native replay."""
import itertools
from contracts.native import rf


def replay(model, obligation):
    cl = rf.load_cluster()
    from cassandra.cluster import NoHostAvailable
    h = obligation.split('/')[1]
    fails = []
    log = []
    modes = {'ok': 'ok', 'missing': None, 'shutdown': 'shutdown', 'busy': 'busy', 'borrow-error': 'error'}
    if h == 'target-forwarded':
        import types
        for entry in ('execute', 'execute_async'):
            got = {}
            s = cl.Session.__new__(cl.Session)
            s.client_protocol_handler = None
            s._request_init_callbacks = []
            fut = types.SimpleNamespace(send_request=lambda: None, result=lambda: 'ROWS')

            def crf(query, parameters=None, trace=False, custom_payload=None, timeout=None, execution_profile=None, paging_state=None, host=None):
                got.update(host=host, paging_state=paging_state, timeout=timeout, parameters=parameters)
                return fut
            s._create_response_future = crf
            target = rf.Host('target')
            getattr(s, entry)('SELECT 1', parameters=('p',), timeout=3.0, paging_state=b'ps', host=target)
            if got.get('host') is not target or got.get('paging_state') != b'ps' or got.get('timeout') != 3.0 or got.get('parameters') != ('p',):
                fails.append('Session.%s(host=target, paging_state=..., timeout=3.0): the future is created with %r' % (entry, got))
        return {'reproduced': bool(fails), 'detail': '; '.join(fails[:3]) or 'arguments forwarded'}
    if h == 'send_request':
        for n in (1, 2, 3):
            for states in itertools.product(['ok', 'missing', 'shutdown', 'busy', 'borrow-error'], repeat=n):
                for rid in (0, 5):
                    log[:] = []
                    hosts = [rf.Host('h%d' % i) for i in range(n)]
                    pools = {hh: rf.Pool(log, hh, modes[s], ids=[rid]) for hh, s in zip(hosts, states) if modes[s]}
                    f = rf.future(cl, rf.Session(log, pools), hosts)
                    done = []
                    f.add_errback(done.append)
                    r = f.send_request()
                    sends = [e[1].name for e in log if e[0] == 'send']
                    ok = [i for i, s in enumerate(states) if s == 'ok']
                    want = ['h%d' % ok[0]] if ok else []
                    if sends != want or (ok and (r is not True or done)) or (not ok and (len(done) != 1 or not isinstance(done[0], NoHostAvailable) or len(done[0].errors) != n)):
                        fails.append('plan %r request id %d: sent to %r (expected %r), returned %r, errbacks %r' % (states, rid, sends, want, r, [type(d).__name__ for d in done]))
    elif h == '_retry_task':
        for rid in (0, 5):
            log[:] = []
            h1, h2 = rf.Host('h1'), rf.Host('h2')
            pools = {h1: rf.Pool(log, h1, ids=[rid]), h2: rf.Pool(log, h2)}
            f = rf.future(cl, rf.Session(log, pools), [h2])
            f._retry_task(True, h1)
            sends = [e[1].name for e in log if e[0] == 'send']
            if sends != ['h1']:
                fails.append('retry on the same host drawing request id %d sent to %r (expected [h1])' % (rid, sends))
    else:
        for targeted in (True, False):
            log[:] = []
            h1, h2, hx = rf.Host('h1'), rf.Host('h2'), rf.Host('hx')
            pools = {x: rf.Pool(log, x) for x in (h1, h2, hx)}
            f = rf.future(cl, rf.Session(log, pools), [h1, h2], host=hx if targeted else None)
            f.send_request()
            f._paging_state = b'ps'
            f.start_fetching_next_page()
            sends = [e[1].name for e in log if e[0] == 'send']
            want = ['hx', 'hx'] if targeted else ['h1', 'h1']
            if sends != want:
                fails.append('targeted=%s: first request and next page went to %r (expected %r)' % (targeted, sends, want))
    return {'reproduced': bool(fails), 'detail': '; '.join(fails[:3]) or 'no disagreement'}
