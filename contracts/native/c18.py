"""C18 native replay: the real ResultSet / ResponseFuture paging over a scripted server."""
import threading


def _run(model, obligation, mode='iterate'):
    from contracts.native import rf
    cl = rf.load_cluster()
    from cassandra.protocol import ResultMessage, RESULT_KIND_ROWS, QueryMessage
    npages = model.get('choice_pages', 0) + 1
    sizes = [model.get('choice_page%d_rows' % i, 0) for i in range(npages)]
    pages = [['row%d.%d' % (i, j) for j in range(n)] for i, n in enumerate(sizes)]
    states = [('s%d' % i).encode() if i < npages - 1 else None for i in range(npages)]
    log = []
    host = rf.Host('h1')
    pool = rf.Pool(log, host)
    requested = [None]
    delivered = {'n': 0}
    fut = cl.ResponseFuture.__new__(cl.ResponseFuture)
    sess = type('S', (), {})()
    sess._pools = {host: pool}
    sess.cluster = type('C', (), {'protocol_version': 4, 'connection_class': type('K', (), {'create_timer': staticmethod(lambda *a: None)})})()
    sess.submit = lambda *a, **k: None
    fut.session, fut.row_factory, fut.message = sess, (lambda names, rows: list(rows)), QueryMessage('q', 1)
    fut.query, fut.timeout, fut._retry_policy, fut._metrics, fut.prepared_statement = None, None, None, None, None
    fut._callback_lock, fut._host, fut._load_balancer = threading.Lock(), host, None
    fut._errors, fut._callbacks, fut._errbacks, fut.attempted_hosts, fut._timer = {}, [], [], [], None
    fut._continuous_paging_state = fut._continuous_paging_session = None
    fut._final_result, fut._final_exception, fut._paging_state, fut._req_id = cl._NOT_SET, None, None, None
    fut._spec_execution_plan = type('NS', (), {'next_execution': lambda s, h: -1})()
    fut._query_retries, fut._start_time, fut._warnings, fut._custom_payload = 0, 0.0, None, None

    fault = (model.get('choice_failing_page', 0) + 1) if 'page-request-fails' in obligation and npages > 1 else None
    from cassandra import ReadTimeout
    boom = ReadTimeout('page request failed')

    def deliver():
        i = delivered['n']
        delivered['n'] += 1
        if fault is not None and i == fault:
            fut._set_final_exception(boom)
            return
        r = ResultMessage(RESULT_KIND_ROWS)
        r.paging_state, r.column_names, r.column_types, r.parsed_rows = states[i], ['c'], ['t'], list(pages[i])
        fut._set_result(host, pool.conn, pool, r)

    class Ev(object):
        flag = False

        def set(self):
            self.flag = True

        def clear(self):
            self.flag = False

        def is_set(self):
            return self.flag

        def wait(self, t=None):
            if not self.flag and delivered['n'] < npages:
                sends = [e for e in log if e[0] == 'send']
                if len(sends) + 1 == delivered['n'] + 1:
                    requested.append(sends[-1][2].paging_state)
                    deliver()
            return self.flag
    fut._event = Ev()
    deliver()
    want = [r for p in pages for r in p]
    fails = []
    if fault is not None:
        got = []
        try:
            rs = fut.result()
            for i, r in enumerate(rs):
                got.append(r)
                if i > 50:
                    break
            fails.append('page %d failed but iteration ended normally with %s' % (fault, got))
        except ReadTimeout:
            want = [r for p in pages[:fault] for r in p]
            if got != want:
                fails.append('page %d failed: rows before the error %s, expected %s' % (fault, got, want))
        return {'reproduced': bool(fails), 'detail': '; '.join(fails[:3]) or 'no disagreement'}
    try:
        rs = fut.result()
        got = list(rs) if mode == 'iterate' else list(rs[0:10 ** 6])
        if got != want:
            fails.append('pages %s: %s gives %s' % (pages, 'iteration' if mode == 'iterate' else 'indexing the result (list mode)', got))
        if requested != [None] + states[:-1]:
            fails.append('page requests carried %s, expected %s' % (requested, [None] + states[:-1]))
    except Exception as e:
        fails.append('pages %s: iteration raised %r' % (pages, e))
    return {'reproduced': bool(fails), 'detail': '; '.join(fails[:3]) or 'no disagreement'}


def replay(model, obligation):
    r = _run(model, obligation)
    if r['reproduced'] or 'list-and-manual' not in obligation:
        return r
    # list mode (indexing / comparing a paged result materialises every page), on the model's page sizes and on results whose first page is empty
    shapes = [None, (0, 2), (0, 0, 1), (2, 0, 1)]
    for sh in shapes:
        m = dict(model)
        if sh is not None:
            m['choice_pages'] = len(sh) - 1
            for i, n in enumerate(sh):
                m['choice_page%d_rows' % i] = n
        r = _run(m, obligation, mode='index')
        if r['reproduced']:
            return r
    return r
