"""C04 native side: response bodies built by the independent spec ENCODER (spec/native_protocol.py) decoded by the real
_ProtocolHandler.decode_message; the decoded message must carry exactly the encoded contents."""
import itertools
import os
import random
import socket
import struct
import sys
import uuid
sys.path.insert(0, os.path.dirname(os.path.dirname(os.path.dirname(os.path.abspath(__file__)))))

VERSIONS = (1, 2, 3, 4, 5, 6, 0x41, 0x42)

TYPES = [(('int',), 'Int32Type'), (('varchar',), 'VarcharType'), (('blob',), 'BytesType'), (('list', ('int',)), 'ListType(Int32Type)'),
         (('map', ('varchar',), ('blob',)), 'MapType(VarcharType, BytesType)'), (('set', ('uuid',)), 'SetType(UUIDType)'),
         (('tuple', [('int',), ('list', ('varchar',))]), 'TupleType(Int32Type, ListType(VarcharType))'),
         (('udt', 'ks1', 'addr', [('street', ('varchar',)), ('zip', ('int',))]), 'addr'),
         (('custom', 'org.apache.cassandra.db.marshal.BooleanType'), 'BooleanType')]


def _tname(t):
    return getattr(t, '__name__', repr(t)) if not getattr(t, 'subtypes', None) or getattr(t, 'fieldnames', None) else \
        '%s(%s)' % (t.__mro__[1].__name__, ', '.join(_tname(s) for s in t.subtypes))


def enumerate_responses(tier, seed, only=None):
    from cassandra import protocol as P
    import cassandra
    from spec import native_protocol as NP
    rng = random.Random(seed)
    fails, n = [], 0
    dec = P._ProtocolHandler.decode_message

    def decode(pv, opcode, body, trace=None, warnings=None, payload=None, compress=False, result_metadata=None):
        flags, prefix = NP.frame_prefix(0, trace, warnings, payload)
        wire = prefix + body
        if compress and pv < 5:
            wire, flags = wire[::-1], flags | 1
        return dec(pv, {'ks1': {'addr': None}}, 7, flags, opcode, wire, (lambda b: b[::-1]), result_metadata)

    def expect(label, pv, thunk, checks):
        nonlocal n
        n += 1
        try:
            msg = thunk()
        except Exception as e:
            fails.append('%s v%#x: decoding raised %r' % (label, pv, e))
            return
        for what, got, want in checks(msg):
            if got != want:
                fails.append('%s v%#x: %s decoded as %r, the server sent %r' % (label, pv, what, got, want))

    prefixes = [dict(), dict(trace=uuid.UUID(int=0x1234).bytes), dict(warnings=['wé', 'x']), dict(payload={'k': b'v', 'n': None}),
                dict(trace=uuid.UUID(int=5).bytes, warnings=['only'], payload={'a': b''}, compress=True)]
    for pv in VERSIONS:
        for px in prefixes:
            if (px.get('warnings') or px.get('payload')) and pv < 4:
                continue
            if only in (None, 'prefix', 'setup'):
                expect('READY', pv, lambda: decode(pv, 0x02, b'', **px), lambda m: [
                    ('class', type(m).__name__, 'ReadyMessage'), ('stream', m.stream_id, 7),
                    ('trace id', m.trace_id, uuid.UUID(bytes=px['trace']) if px.get('trace') else None), ('warnings', m.warnings, px.get('warnings')),
                    ('custom payload', m.custom_payload, px.get('payload'))])
        if only in (None, 'setup'):
            expect('AUTHENTICATE', pv, lambda: decode(pv, 0x03, NP.w_string('org.apache.cassandra.auth.PasswordAuthenticator')),
                   lambda m: [('authenticator', m.authenticator, 'org.apache.cassandra.auth.PasswordAuthenticator')])
            expect('AUTH_CHALLENGE', pv, lambda: decode(pv, 0x0E, NP.w_bytes(b'\x00\xff\xfe')), lambda m: [('token', m.challenge, b'\x00\xff\xfe')])
            expect('AUTH_SUCCESS(text token)', pv, lambda: decode(pv, 0x10, NP.w_bytes(b'ok')), lambda m: [('token', m.token if isinstance(m.token, bytes) else m.token.encode(), b'ok')])
            expect('SUPPORTED', pv, lambda: decode(pv, 0x06, NP.w_string_multimap({'CQL_VERSION': ['3.4.5'], 'COMPRESSION': ['snappy', 'lz4']})),
                   lambda m: [('cql versions', m.cql_versions, ['3.4.5']), ('options', m.options, {'COMPRESSION': ['snappy', 'lz4']})])
        if only in (None, 'ERROR'):
            addr4 = socket.inet_aton('10.1.2.3')
            for code, extra, want_cls, want_info, exc_cls in [
                    (0x0000, b'', 'ServerError', None, None), (0x000A, b'', 'ProtocolException', None, None), (0x0100, b'', 'BadCredentials', None, None),
                    (0x1000, struct.pack('>Hii', 6, 3, 1), 'UnavailableErrorMessage', dict(consistency=6, required_replicas=3, alive_replicas=1), 'Unavailable'),
                    (0x1001, b'', 'OverloadedErrorMessage', None, None), (0x1002, b'', 'IsBootstrappingErrorMessage', None, None), (0x1003, b'', 'TruncateError', None, None),
                    (0x1100, struct.pack('>Hii', 4, 1, 2) + NP.w_string('BATCH_LOG'), 'WriteTimeoutErrorMessage',
                     dict(consistency=4, received_responses=1, required_responses=2, write_type=cassandra.WriteType.BATCH_LOG), 'WriteTimeout'),
                    (0x1200, struct.pack('>HiiB', 4, 1, 2, 1), 'ReadTimeoutErrorMessage', dict(consistency=4, received_responses=1, required_responses=2, data_retrieved=True), 'ReadTimeout'),
                    (0x1300, struct.pack('>Hii', 4, 1, 2) + (struct.pack('>iB', 1, 4) + addr4 + struct.pack('>H', 3) if pv >= 5 else struct.pack('>i', 1)) + b'\x00', 'ReadFailureMessage',
                     dict(consistency=4, received_responses=1, required_responses=2, failures=1, error_code_map={'10.1.2.3': 3} if pv >= 5 else None, data_retrieved=False), 'ReadFailure'),
                    (0x1400, NP.w_string('ks') + NP.w_string('fé') + NP.w_string_list(['int', 'text']), 'FunctionFailureMessage',
                     dict(keyspace='ks', function='fé', arg_types=['int', 'text']), 'FunctionFailure'),
                    (0x1500, struct.pack('>Hii', 4, 1, 2) + (struct.pack('>iB', 1, 4) + addr4 + struct.pack('>H', 0) if pv >= 5 else struct.pack('>i', 1)) + NP.w_string('CAS'), 'WriteFailureMessage',
                     dict(consistency=4, received_responses=1, required_responses=2, failures=1, error_code_map={'10.1.2.3': 0} if pv >= 5 else None, write_type=cassandra.WriteType.CAS), 'WriteFailure'),
                    (0x1600, b'', 'CDCWriteException', None, None), (0x2000, b'', 'SyntaxException', None, None), (0x2100, b'', 'UnauthorizedErrorMessage', None, 'Unauthorized'),
                    (0x2200, b'', 'InvalidRequestException', None, 'InvalidRequest'), (0x2300, b'', 'ConfigurationException', None, None),
                    (0x2400, NP.w_string('ksé') + NP.w_string('tb'), 'AlreadyExistsException', dict(keyspace='ksé', table='tb'), 'AlreadyExists'),
                    (0x2500, NP.w_short_bytes(b'\x01\xffid'), 'PreparedQueryNotFound', b'\x01\xffid', None)]:
                def chk(m, code=code, want_cls=want_cls, want_info=want_info, exc_cls=exc_cls):
                    out = [('class', type(m).__name__, want_cls), ('code', m.code, code), ('message', m.message, 'boom é'), ('info', m.info, want_info)]
                    e = m.to_exception()
                    out.append(('exception type', type(e).__name__, exc_cls or want_cls))
                    if exc_cls and isinstance(want_info, dict):
                        out += [('exception.' + k, getattr(e, k, '<missing>'), v) for k, v in want_info.items()]
                    return out
                expect('ERROR %#06x' % code, pv, lambda: decode(pv, 0x00, NP.error_body(code, 'boom é', extra), warnings=['w'] if pv >= 4 else None), chk)
        if only in (None, 'EVENT'):
            a6 = socket.inet_pton(socket.AF_INET6, 'fe80::1')
            expect('EVENT status', pv, lambda: decode(pv, 0x0C, NP.w_string('STATUS_CHANGE') + NP.w_string('DOWN') + NP.w_inet(a6, 9042)),
                   lambda m: [('type', m.event_type, 'STATUS_CHANGE'), ('args', m.event_args, dict(change_type='DOWN', address=('fe80::1', 9042)))])
            expect('EVENT topology', pv, lambda: decode(pv, 0x0C, NP.w_string('TOPOLOGY_CHANGE') + NP.w_string('NEW_NODE') + NP.w_inet(socket.inet_aton('1.2.3.4'), 7000)),
                   lambda m: [('type', m.event_type, 'TOPOLOGY_CHANGE'), ('args', m.event_args, dict(change_type='NEW_NODE', address=('1.2.3.4', 7000)))])
            for target in ['KEYSPACE', 'TABLE', 'TYPE'] + (['FUNCTION', 'AGGREGATE'] if pv >= 4 else []):
                if pv < 3 and target == 'TYPE':
                    continue

                def chk(m, target=target):
                    w = dict(target_type=target, change_type='UPDATED', keyspace='ké')
                    g = dict(m.event_args)
                    if target in ('FUNCTION', 'AGGREGATE'):
                        d = g.pop(target.lower(), None)
                        return [('args', g, w), ('signature', (getattr(d, 'name', None), getattr(d, 'argument_types', None)), ('nm', ['int', 'text']))]
                    if target != 'KEYSPACE':
                        w[target.lower()] = 'nm'
                    return [('args', g, w)]
                expect('EVENT schema ' + target, pv, lambda: decode(pv, 0x0C, NP.w_string('SCHEMA_CHANGE') + NP.schema_change_body(pv, 'UPDATED', target, 'ké', 'nm', ['int', 'text'])), chk)
        if only in (None, 'RESULT', 'read_type'):
            expect('RESULT void', pv, lambda: decode(pv, 0x08, NP.result_void()), lambda m: [('kind', m.kind, 1)])
            expect('RESULT set_keyspace', pv, lambda: decode(pv, 0x08, NP.result_set_keyspace('ké')), lambda m: [('kind', m.kind, 3), ('keyspace', m.new_keyspace, 'ké')])
            for ncols, global_spec, paging, nrows in itertools.product([0, 1, 3], [False, True], [None, b'\x00state'], [0, 1, 3]):
                chosen = [rng.choice(TYPES) for _ in range(ncols)]
                cols = [('ks%d' % (0 if global_spec else i), 'tb%d' % (0 if global_spec else i), 'cé%d' % i, t) for i, (t, _) in enumerate(chosen)]
                rows = [[None for _ in range(ncols)] for _ in range(nrows)]
                new_id = b'\x07id' if pv in (5, 6, 0x42) and paging else None

                def chk(m, cols=cols, chosen=chosen, paging=paging, rows=rows, new_id=new_id):
                    out = [('kind', m.kind, 2), ('paging state', m.paging_state, paging), ('rows', m.parsed_rows, [tuple(r) for r in rows]),
                           ('column coordinates', [tuple(c[:3]) for c in m.column_metadata], [c[:3] for c in cols]),
                           ('column types', [_tname(c[3]) for c in m.column_metadata], [nm for _, nm in chosen]), ('column names', m.column_names, [c[2] for c in cols])]
                    if new_id:
                        out.append(('new result metadata id', m.result_metadata_id, new_id))
                    return out
                expect('RESULT rows', pv, lambda: decode(pv, 0x08, NP.result_rows(cols, rows, global_spec=global_spec, paging_state=paging, new_metadata_id=new_id)), chk)
            # value decoding of a few concrete rows
            cols = [('ks', 'tb', 'i', ('int',)), ('ks', 'tb', 't', ('varchar',)), ('ks', 'tb', 'b', ('blob',)), ('ks', 'tb', 'l', ('list', ('int',)))]
            lst = struct.pack('>iii', 1, 4, 9) if pv >= 3 else struct.pack('>HHi', 1, 4, 9)
            rows = [[struct.pack('>i', -5), 'hé'.encode(), b'\x00\xff', lst], [None, b'', b'', None]]
            expect('RESULT rows values', pv, lambda: decode(pv, 0x08, NP.result_rows(cols, rows, global_spec=True)),
                   lambda m: [('rows', [tuple(r) for r in m.parsed_rows], [(-5, 'hé', b'\x00\xff', [9]), (None, '', b'', None)])])
            # NO_METADATA: column specs from the prepared statement
            from cassandra import cqltypes
            rm = [('ks', 'tb', 'i', cqltypes.Int32Type), ('ks', 'tb', 'b', cqltypes.BytesType)]
            expect('RESULT rows no-metadata', pv, lambda: decode(pv, 0x08, NP.result_rows([None, None], [[struct.pack('>i', 7), b'x']], global_spec=False, no_metadata=True, paging_state=b'ps'),
                                                                  result_metadata=rm),
                   lambda m: [('rows', m.parsed_rows, [(7, b'x')]), ('paging state', m.paging_state, b'ps'), ('names', m.column_names, ['i', 'b'])])
            for nbind, gs in itertools.product([0, 2], [False, True]):
                bind = [('ks', 'tbl', 'p%d' % i, TYPES[i][0]) for i in range(nbind)]
                res = [('ks', 'tbl', 'ré', ('varchar',))]

                def chk(m, bind=bind, res=res):
                    out = [('kind', m.kind, 4), ('statement id', m.query_id, b'\xffq'), ('bind names', [(c.keyspace_name, c.table_name, c.name) for c in m.bind_metadata], [b[:3] for b in bind]),
                           ('bind types', [_tname(c.type) for c in m.bind_metadata], [TYPES[i][1] for i in range(len(bind))]),
                           ('pk indexes', m.pk_indexes, ([0] if bind else []) if pv >= 4 else None), ('result metadata id', m.result_metadata_id, b'rm' if pv in (5, 6, 0x42) else None)]
                    if pv >= 2:
                        out.append(('result columns', [tuple(c[:3]) for c in m.column_metadata], [r[:3] for r in res]))
                    return out
                body = NP.result_prepared(pv, b'\xffq', bind, [0] if bind else [], res, result_metadata_id=b'rm', global_spec=gs)
                if pv < 2:
                    body = body[:len(body) - len(NP.rows_metadata(res, global_spec=gs))]
                expect('RESULT prepared', pv, lambda: decode(pv, 0x08, body), chk)
            for target in ['KEYSPACE', 'TABLE'] + (['TYPE'] if pv >= 3 else []):
                expect('RESULT schema_change ' + target, pv, lambda: decode(pv, 0x08, NP.w_int(5) + NP.schema_change_body(pv, 'DROPPED', target, 'ks', 'nm')),
                       lambda m: [('event', m.schema_change_event, dict(target_type=target, change_type='DROPPED', keyspace='ks', **({target.lower(): 'nm'} if target != 'KEYSPACE' else {})))])
    return {'name': 'response-decode-of-spec-encoded-frames', 'kind': 'bounded', 'cases': n, 'evaluations': n, 'distinct_nontrivial': n,
            'bound': 'per protocol version: READY with 5 prefix combinations (tracing / warnings / payload / compression), AUTHENTICATE, AUTH_CHALLENGE, AUTH_SUCCESS, SUPPORTED, all 19 error codes, '
                     '3 event kinds x targets, RESULT void / set_keyspace / rows (0,1,3 columns x 0,1,3 rows x global spec x paging; random column types from 9 options) / prepared / schema_change',
            'rule': 'decode(spec_encode(contents)) == contents', 'violations': fails[:3]}


def _mbytes(model, key, default):
    v = model.get(key)
    if isinstance(v, dict) and 'bytes_hex' in v:
        return bytes.fromhex(v['bytes_hex'])
    return default


def replay(model, obligation):
    """Directed native replay: the message family named by the failed obligation is re-decoded by the real code from spec-encoded bodies (with the
    counter-model's byte strings where the harness has one)."""
    import io
    from cassandra import protocol as P
    from spec import native_protocol as NP
    fails = []
    if 'AUTH_SUCCESS' in obligation:
        tok = _mbytes(model, 'token', b'\xff\xfe')
        for t in ([tok] if tok else []) + [b'\xff\xfe', None]:
            try:
                m = P.AuthSuccessMessage.recv_body(io.BytesIO(NP.w_bytes(t)), 4)
                if m.token != t:
                    fails.append('AUTH_SUCCESS token %r decoded as %r' % (t, m.token))
            except Exception as e:
                fails.append('AUTH_SUCCESS token %r: decoding raised %r' % (t, e))
    else:
        fam = None
        for k in ('ERROR', 'EVENT', 'RESULT', 'read_type', 'prefix', 'setup'):
            if '/' + k in obligation or k in obligation.split('/')[1]:
                fam = k
                break
        if 'session-setup' in obligation:
            fam = 'setup'
        r = enumerate_responses('quick', 0, only=fam)
        fails = list(r['violations'])
        if not fails and fam is not None:
            fails = list(enumerate_responses('quick', 1)['violations'])
    return {'reproduced': bool(fails), 'detail': '; '.join(fails[:2]) or 'no disagreement'}
