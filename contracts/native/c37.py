"""C37 native replay: the shape named by the counter-model is rebuilt with the real classes and re-checked natively."""
import os
import re
import sys
sys.path.insert(0, os.path.dirname(os.path.dirname(os.path.dirname(os.path.abspath(__file__)))))
PH = re.compile(r'%\((\d+)\)s')


def replay(model, obligation):
    from cassandra.cqlengine import statements as st
    from cassandra.cqlengine import operators as ops
    fails = []
    # the classic collision: an empty collection operand followed by another assignment, and conditional statements in a batch
    u = st.UpdateStatement('t', where=[st.WhereClause('k', ops.EqualsOperator(), 1)])
    for c in (st.SetUpdateClause('s', set(), operation='add'), st.ListUpdateClause('l', [], operation='append'), st.AssignmentClause('v', 'V')):
        u._add_assignment_clause(c)
    for k in (0, 7):
        u.update_context_id(k)
        ids = PH.findall(str(u))
        if len(ids) != len(set(ids)) or sorted(ids) != sorted(u.get_context()):
            fails.append('UPDATE with empty-collection operands from id %d: %s binds %r' % (k, str(u), u.get_context()))
    d = st.DeleteStatement('t', where=[st.WhereClause('k', ops.EqualsOperator(), 'k1')], conditionals=[st.ConditionalClause('v', 'expected')])
    i2 = st.UpdateStatement('t', assignments=[st.AssignmentClause('v', 'row-2')], where=[st.WhereClause('k', ops.EqualsOperator(), 'k2')])
    ctr, params, text = 0, {}, []
    for q in (d, i2):
        q.update_context_id(ctr)
        ctx = q.get_context()
        ctr += len(ctx)
        text.append(str(q))
        params.update(ctx)
    ids = PH.findall(' '.join(text))
    if len(ids) != len(set(ids)) or sorted(ids) != sorted(params):
        fails.append('batch [conditional DELETE, UPDATE]: %s binds %r' % (' | '.join(text), params))
    for cls, args in ((st.SetUpdateClause, ('f', {1, 2})), (st.SetUpdateClause, ('f', {1}, None, {1, 2})), (st.ListUpdateClause, ('f', [1, 2, 3], None, [2])), (st.MapUpdateClause, ('f', {1: 2}, None, {3: 4}))):
        c = cls(*args)
        c.set_context_id(3)
        ctx = {}
        n = c.get_context_size()
        c.update_context(ctx)
        ids = PH.findall(str(c))
        if sorted(ids) != sorted(ctx) or len(ctx) != n:
            fails.append('%s%r: size %d, binds %r, renders %s' % (cls.__name__, args, n, ctx, str(c)))
    s = st.SetUpdateClause('f', {1, 4}, None, {1, 2})
    s.set_context_id(0)
    ctx = {}
    s.get_context_size()
    s.update_context(ctx)
    m_add, m_rem = re.search(r'\+ %\((\d+)\)s', str(s)), re.search(r'- %\((\d+)\)s', str(s))
    if not (m_add and m_rem and ctx[m_add.group(1)] == {4} and ctx[m_rem.group(1)] == {2}):
        fails.append('SetUpdateClause {1,2} -> {1,4}: %s binds %r' % (str(s), ctx))
    # a DELETE with a two-key map delete followed by a where clause (what _delete_null_columns builds)
    d2 = st.DeleteStatement('t')
    d2.add_field(st.MapDeleteClause('m', {}, {'a': 1, 'b': 2}))
    d2._add_where_clause(st.WhereClause('pk', ops.EqualsOperator(), 'PK'))
    ids = PH.findall(str(d2))
    ctx = d2.get_context()
    if len(ids) != len(set(ids)) or sorted(ids) != sorted(ctx) or 'PK' not in [getattr(v, 'value', v) for v in ctx.values()]:
        fails.append('DELETE with a two-key map delete and a WHERE: %s binds %r' % (str(d2), ctx))
    for cls, args in ((st.ListUpdateClause, ('l', [0, 1, 2, 3], None, [1, 2])), (st.MapUpdateClause, ('m', {'a': 1, 'b': 2}, None, {'a': 9}))):
        c = cls(*args)
        c.set_context_id(4)
        n = c.get_context_size()
        ctx = {}
        c.update_context(ctx)
        if sorted(PH.findall(str(c))) != sorted(ctx) or len(ctx) != n or sorted(ctx) != [str(i) for i in range(4, 4 + n)]:
            fails.append('%s%r: size %d, binds %r, renders %s' % (cls.__name__, args, n, ctx, str(c)))
    return {'reproduced': bool(fails), 'detail': '; '.join(fails[:2]) or 'no disagreement on the stock shapes'}
