"""C37 native replay: the shape named by the counter-model is rebuilt with the real classes and re-checked natively."""
import os
import re
import sys
sys.path.insert(0, os.path.dirname(os.path.dirname(os.path.dirname(os.path.abspath(__file__)))))
PH = re.compile(r'%\((\d+)\)s')


def replay(model, obligation):
    from cassandra.cqlengine import statements as st
    from cassandra.cqlengine import operators as ops
    fails = []
    # the classic collision: an empty collection operand followed by another assignment, and conditional statements in a batch
    u = st.UpdateStatement('t', where=[st.WhereClause('k', ops.EqualsOperator(), 1)])
    for c in (st.SetUpdateClause('s', set(), operation='add'), st.ListUpdateClause('l', [], operation='append'), st.AssignmentClause('v', 'V')):
        u._add_assignment_clause(c)
    for k in (0, 7):
        u.update_context_id(k)
        ids = PH.findall(str(u))
        if len(ids) != len(set(ids)) or sorted(ids) != sorted(u.get_context()):
            fails.append('UPDATE with empty-collection operands from id %d: %s binds %r' % (k, str(u), u.get_context()))
    d = st.DeleteStatement('t', where=[st.WhereClause('k', ops.EqualsOperator(), 'k1')], conditionals=[st.ConditionalClause('v', 'expected')])
    i2 = st.UpdateStatement('t', assignments=[st.AssignmentClause('v', 'row-2')], where=[st.WhereClause('k', ops.EqualsOperator(), 'k2')])
    ctr, params, text = 0, {}, []
    for q in (d, i2):
        q.update_context_id(ctr)
        ctx = q.get_context()
        ctr += len(ctx)
        text.append(str(q))
        params.update(ctx)
    ids = PH.findall(' '.join(text))
    if len(ids) != len(set(ids)) or sorted(ids) != sorted(params):
        fails.append('batch [conditional DELETE, UPDATE]: %s binds %r' % (' | '.join(text), params))
    for cls, args in ((st.SetUpdateClause, ('f', {1, 2})), (st.SetUpdateClause, ('f', {1}, None, {1, 2})), (st.ListUpdateClause, ('f', [1, 2, 3], None, [2])), (st.MapUpdateClause, ('f', {1: 2}, None, {3: 4}))):
        c = cls(*args)
        c.set_context_id(3)
        ctx = {}
        n = c.get_context_size()
        c.update_context(ctx)
        ids = PH.findall(str(c))
        if sorted(ids) != sorted(ctx) or len(ctx) != n:
            fails.append('%s%r: size %d, binds %r, renders %s' % (cls.__name__, args, n, ctx, str(c)))
    s = st.SetUpdateClause('f', {1, 4}, None, {1, 2})
    s.set_context_id(0)
    ctx = {}
    s.get_context_size()
    s.update_context(ctx)
    m_add, m_rem = re.search(r'\+ %\((\d+)\)s', str(s)), re.search(r'- %\((\d+)\)s', str(s))
    if not (m_add and m_rem and ctx[m_add.group(1)] == {4} and ctx[m_rem.group(1)] == {2}):
        fails.append('SetUpdateClause {1,2} -> {1,4}: %s binds %r' % (str(s), ctx))
    # a DELETE with a two-key map delete followed by a where clause (what _delete_null_columns builds)
    d2 = st.DeleteStatement('t')
    d2.add_field(st.MapDeleteClause('m', {}, {'a': 1, 'b': 2}))
    d2._add_where_clause(st.WhereClause('pk', ops.EqualsOperator(), 'PK'))
    ids = PH.findall(str(d2))
    ctx = d2.get_context()
    if len(ids) != len(set(ids)) or sorted(ids) != sorted(ctx) or 'PK' not in [getattr(v, 'value', v) for v in ctx.values()]:
        fails.append('DELETE with a two-key map delete and a WHERE: %s binds %r' % (str(d2), ctx))
    # renumbering for a batch: every clause of the statement - delete fields included - moves to the requested range
    d3 = st.DeleteStatement('t')
    d3.add_field(st.MapDeleteClause('m', {}, {'a': 1}))
    d3._add_where_clause(st.WhereClause('pk', ops.EqualsOperator(), 'PK'))
    d3.update_context_id(5)
    ids = PH.findall(str(d3))
    if sorted(ids) != sorted(d3.get_context()) or sorted(int(i) for i in ids) != list(range(5, 5 + len(ids))):
        fails.append('DELETE renumbered to start at 5 renders %s and binds %r' % (str(d3), d3.get_context()))
    for cls, args in ((st.ListUpdateClause, ('l', [0, 1, 2, 3], None, [1, 2])), (st.MapUpdateClause, ('m', {'a': 1, 'b': 2}, None, {'a': 9}))):
        c = cls(*args)
        c.set_context_id(4)
        n = c.get_context_size()
        ctx = {}
        c.update_context(ctx)
        if sorted(PH.findall(str(c))) != sorted(ctx) or len(ctx) != n or sorted(ctx) != [str(i) for i in range(4, 4 + n)]:
            fails.append('%s%r: size %d, binds %r, renders %s' % (cls.__name__, args, n, ctx, str(c)))
    return {'reproduced': bool(fails), 'detail': '; '.join(fails[:2]) or 'no disagreement on the stock shapes'}


# ---------------------------------------------------------------------------
# bounded stand-in at the queryset / DML layer (AbstractQuerySet.filter / iff / _select_query, ModelQuerySet.update / delete, DMLQuery.save / update / delete)

_PAIR = None


def _models():
    from contracts.native.c35 import _import_cqlengine
    columns, models, query, statements = _import_cqlengine()

    class VerifC37(models.Model):
        __keyspace__ = 'ks'
        __table_name__ = 'verif_c37'
        p1 = columns.Integer(partition_key=True)
        p2 = columns.Text(partition_key=True)
        c1 = columns.Integer(primary_key=True)
        c2 = columns.Text(primary_key=True)
        v1 = columns.Text(index=True)
        v2 = columns.Integer()
        v3 = columns.Integer()
        m = columns.Map(columns.Text, columns.Integer)
        l = columns.List(columns.Integer)
        s = columns.Set(columns.Integer)
    return VerifC37, query, statements


def _unwrap(v):
    v = getattr(v, 'value', v)
    if isinstance(v, (list, tuple, set, frozenset)):
        return sorted(_unwrap(x) for x in v) if not isinstance(v, (list, tuple)) else [_unwrap(x) for x in v]
    if isinstance(v, dict):
        return {_unwrap(k): _unwrap(x) for k, x in v.items()}
    return v


def _check_text(text, ctx, expected, fails, what):
    """`expected`: list of (sql fragment regex with one (\\d+) group for the placeholder id, value) - every one must occur once and be bound to its value;
    and the placeholders of the whole text are distinct and are exactly the context keys"""
    import re
    ids = re.findall(r'%\((\d+)\)s', text)
    if len(ids) != len(set(ids)) or sorted(ids) != sorted(str(k) for k in ctx):
        fails.append('%s: placeholders %r, bound keys %r in %s' % (what, ids, sorted(ctx), text))
        return
    for pat, val in expected:
        m = re.findall(pat, text)
        if len(m) != 1:
            fails.append('%s: %r occurs %d times in %s' % (what, pat, len(m), text))
            continue
        got = _unwrap(ctx[m[0]] if m[0] in ctx else ctx.get(int(m[0])))
        if got != _unwrap(val):
            fails.append('%s: the placeholder of %r is bound to %r, its clause was given %r (%s with %r)' % (what, pat, got, _unwrap(val), text, {k: _unwrap(v) for k, v in ctx.items()}))


def querysets(tier, seed):
    import itertools
    import random
    M, query, statements = _models()
    rng = random.Random(seed)
    fails, n, shapes, skipped = [], 0, set(), {}
    captured = []
    real_exec = query._execute_statement
    query._execute_statement = lambda model, statement, cl, timeout, connection=None: captured.append(statement) or []
    ops = {'': '=', '__gt': '>', '__gte': '>=', '__lt': '<', '__lte': '<='}
    try:
        rounds = 400 if tier == 'quick' else 6000
        for _ in range(rounds):
            vals = iter(rng.sample(range(100, 100000), 40))
            where, kw = [], {}
            # the partition key is always fixed; clustering restrictions, an IN and an indexed column come and go
            kw['p1'] = next(vals)
            where.append((r'"p1" = %\((\d+)\)s', kw['p1']))
            kw['p2'] = 't%d' % next(vals)
            where.append((r'"p2" = %\((\d+)\)s', kw['p2']))
            shape = []
            pick = rng.choice(['none', 'eq', 'range', 'in', 'two-sided'])
            shape.append(pick)
            if pick == 'eq':
                kw['c1'] = next(vals)
                where.append((r'"c1" = %\((\d+)\)s', kw['c1']))
            elif pick == 'range':
                suf = rng.choice(['__gt', '__gte', '__lt', '__lte'])
                kw['c1' + suf] = next(vals)
                where.append((r'"c1" %s %%\((\d+)\)s' % ops[suf], kw['c1' + suf]))
            elif pick == 'two-sided':
                kw['c1__gte'], kw['c1__lt'] = next(vals), next(vals)
                where += [(r'"c1" >= %\((\d+)\)s', kw['c1__gte']), (r'"c1" < %\((\d+)\)s', kw['c1__lt'])]
            elif pick == 'in':
                kw['c1__in'] = [next(vals) for _i in range(rng.randint(1, 3))]
                where.append((r'"c1" IN %\((\d+)\)s', kw['c1__in']))
            order = list(kw.items())
            rng.shuffle(order)
            qs = M.objects
            # filters given in one call or chained one by one, in a random order
            if rng.random() < 0.5:
                qs = qs.filter(**dict(order))
            else:
                for k, v in order:
                    qs = qs.filter(**{k: v})
            flow = rng.choice(['select', 'update', 'delete', 'count'])
            shape.append(flow)
            cond = []
            if flow in ('update', 'delete') and rng.random() < 0.6:
                ck = {}
                for col in rng.sample(['v2', 'v3', 'v1'], rng.randint(1, 2)):
                    ck[col] = ('s%d' % next(vals)) if col == 'v1' else next(vals)
                    cond.append((r'IF(?:.* AND)? "%s" = %%\((\d+)\)s' % col, ck[col]))
                qs = qs.iff(**ck)
                shape.append('iff%d' % len(ck))
            del captured[:]
            n += 1
            if flow == 'select':
                st = qs._select_query()
                _check_text(str(st), st.get_context(), where, fails, 'SELECT via filter(%r)' % (dict(order),))
            elif flow == 'count':
                qs.count() if False else None
                st = statements.SelectStatement(M.column_family_name(), count=True, where=qs._where)
                _check_text(str(st), st.get_context(), where, fails, 'COUNT via filter(%r)' % (dict(order),))
            elif flow == 'delete':
                if any(k.startswith('c1__') and not k.endswith('__in') for k in kw) and False:
                    continue
                try:
                    qs.delete()
                except Exception as e:       # validation of the restriction shape is not this property
                    skipped[type(e).__name__ + ': ' + str(e)[:60]] = skipped.get(type(e).__name__ + ': ' + str(e)[:60], 0) + 1
                    n -= 1
                    continue
                st = captured[-1]
                _check_text(str(st), st.get_context(), where + cond, fails, 'DELETE via filter(%r)' % (dict(order),))
            else:
                upd, assign = {}, []
                for col in rng.sample(['v1', 'v2', 'v3', 'l__append', 'l__prepend', 's__add', 's__remove', 'm__update'], rng.randint(1, 4)):
                    base = col.split('__')[0]
                    if any(k.split('__')[0] == base for k in upd) or (base in dict((c.split('"')[1], 1) for c, _v in cond)):
                        continue
                    if col == 'v1':
                        upd[col] = 'n%d' % next(vals)
                        assign.append((r'"v1" = %\((\d+)\)s', upd[col]))
                    elif col in ('v2', 'v3'):
                        upd[col] = next(vals)
                        assign.append((r'"%s" = %%\((\d+)\)s' % col, upd[col]))
                    elif col == 'm__update':
                        k_, v_ = 'k%d' % next(vals), next(vals)
                        upd[col] = {k_: v_}
                        assign += [(r'"m"\[%\((\d+)\)s\] = %\(\d+\)s', k_), (r'"m"\[%\(\d+\)s\] = %\((\d+)\)s', v_)]
                    elif col == 'l__append':
                        upd[col] = [next(vals)]
                        assign.append((r'"l" = "l" \+ %\((\d+)\)s', upd[col]))
                    elif col == 'l__prepend':
                        upd[col] = [next(vals)]
                        assign.append((r'"l" = %\((\d+)\)s \+ "l"', upd[col]))
                    elif col == 's__add':
                        upd[col] = {next(vals)}
                        assign.append((r'"s" = "s" \+ %\((\d+)\)s', upd[col]))
                    else:
                        upd[col] = {next(vals)}
                        assign.append((r'"s" = "s" - %\((\d+)\)s', upd[col]))
                if not upd:
                    n -= 1
                    continue
                shape.append('set%d' % len(upd))
                try:
                    qs.update(**upd)
                except Exception as e:
                    skipped[type(e).__name__ + ': ' + str(e)[:60]] = skipped.get(type(e).__name__ + ': ' + str(e)[:60], 0) + 1
                    n -= 1
                    continue
                st = captured[-1]
                _check_text(str(st), st.get_context(), where + assign + cond, fails, 'UPDATE %r via filter(%r)' % (upd, dict(order)))
            shapes.add(tuple(shape))
            if len(fails) > 5:
                break
        # instance-level DML: save / update / delete of a loaded row, with and without a condition
        for _ in range(rounds // 4):
            vals = iter(rng.sample(range(100, 100000), 30))
            key = dict(p1=next(vals), p2='t%d' % next(vals), c1=next(vals), c2='u%d' % next(vals))
            inst = M(v1='a%d' % next(vals), v2=next(vals), v3=next(vals), l=[1], s={1}, m={'a': 1}, **key)
            inst._is_persisted = True
            for col in inst._values:
                inst._values[col].reset_previous_value()
            where = [(r'"%s" = %%\((\d+)\)s' % k, v) for k, v in key.items()]
            change, assign = rng.sample(['v1', 'v2', 'v3'], rng.randint(1, 3)), []
            for col in change:
                nv = ('b%d' % next(vals)) if col == 'v1' else next(vals)
                setattr(inst, col, nv)
                assign.append((r'"%s" = %%\((\d+)\)s' % col, nv))
            cond = []
            target = inst
            if rng.random() < 0.5:
                cv = next(vals)
                unchanged = [c for c in ('v2', 'v3') if c not in change]
                if unchanged:
                    target = inst.iff(**{unchanged[0]: cv})
                    cond.append((r'IF "%s" = %%\((\d+)\)s' % unchanged[0], cv))
            del captured[:]
            n += 1
            flow = rng.choice(['save', 'update', 'delete'])
            try:
                getattr(target, flow)()
            except Exception as e:
                skipped[type(e).__name__ + ': ' + str(e)[:60]] = skipped.get(type(e).__name__ + ': ' + str(e)[:60], 0) + 1
                n -= 1
                continue
            shapes.add(('instance', flow, len(change), bool(cond)))
            for st in captured:
                text = str(st)
                exp = list(where) + list(cond if 'IF ' in text else [])
                if text.startswith('UPDATE') and flow != 'delete':
                    exp += assign
                _check_text(text, st.get_context(), exp, fails, 'instance.%s()' % flow)
            if len(fails) > 5:
                break
    finally:
        query._execute_statement = real_exec
    return {'name': 'queryset_and_instance_statements', 'evaluations': n, 'distinct_nontrivial': len(shapes),
            'rule': 'random filter()/iff()/update()/delete()/_select_query() chains and instance save/update/delete on a real model (2 partition + 2 clustering key columns, scalar and collection '
                    'columns), every bound value unique so that a placeholder bound to another clause\'s value is visible; distinct = distinct (restriction, flow, condition, assignment-count) shapes',
            'bound': '%d statement builds, seed %d' % (n, seed), 'samples': sorted(map(str, shapes))[:4], 'skipped': skipped, 'violations': fails[:3]}
