"""C34 native side: calendar / string / float behaviour of the real helpers over enumerated and random instants (bounded)."""
import datetime
import math
from fractions import Fraction
import os
import random
import sys
import uuid
sys.path.insert(0, os.path.dirname(os.path.dirname(os.path.dirname(os.path.abspath(__file__)))))


def days_from_civil(y, m, d):
    """Howard Hinnant's days_from_civil (proleptic Gregorian), independent of the datetime module"""
    y -= m <= 2
    era = (y if y >= 0 else y - 399) // 400
    yoe = y - era * 400
    doy = (153 * (m + (-3 if m > 2 else 9)) + 2) // 5 + d - 1
    doe = yoe * 365 + yoe // 4 - yoe // 100 + doy
    return era * 146097 + doe - 719468


def cass_cmp_key(u):
    msb_time = u.time
    lsb = u.int & ((1 << 64) - 1)
    return (msb_time, tuple(b - 256 if b >= 128 else b for b in lsb.to_bytes(8, 'big')))


def calendar_and_strings(tier, seed):
    from cassandra.util import Date, Time, uuid_from_time, min_uuid_from_time, max_uuid_from_time, unix_time_from_uuid1, datetime_from_uuid1
    rng = random.Random(seed)
    fails, n = [], 0
    first, last = days_from_civil(1, 1, 1), days_from_civil(9999, 12, 31)
    step = 1 if tier != 'quick' else 13
    d = datetime.date(1, 1, 1)
    ordinal0 = d.toordinal()
    days = list(range(first, last + 1, step)) + [first, last, -1, 0, 1, days_from_civil(1582, 10, 15), days_from_civil(2000, 2, 29), days_from_civil(1900, 3, 1)]
    for dd in days:
        n += 1
        pyd = datetime.date.fromordinal(ordinal0 + (dd - first))
        if days_from_civil(pyd.year, pyd.month, pyd.day) != dd:
            fails.append('spec self-check: days_from_civil disagrees with datetime for day %d' % dd)
            break
        D = Date(dd)
        s = '%04d-%02d-%02d' % (pyd.year, pyd.month, pyd.day)
        if D.date() != pyd:
            fails.append('Date(%d).date() is %r, expected %r' % (dd, D.date(), pyd))
        if str(D) != s:
            fails.append('str(Date(%d)) is %r, expected %r' % (dd, str(D), s))
        if Date(s).days_from_epoch != dd:
            fails.append('Date(%r).days_from_epoch is %d, expected %d' % (s, Date(s).days_from_epoch, dd))
        if Date(pyd).days_from_epoch != dd or Date(datetime.datetime(pyd.year, pyd.month, pyd.day, 23, 59, 59, 999999)).days_from_epoch != dd:
            fails.append('Date(%r).days_from_epoch is not %d' % (pyd, dd))
        if len(fails) > 3:
            break
    DAY = 86400 * 10 ** 9
    cases = [0, 1, 999, 1000, DAY - 1, 12 * 3600 * 10 ** 9, 59 * 10 ** 9 + 999999999] + [rng.randrange(DAY) for _ in range(20000 if tier == 'quick' else 100000)]
    for ns in cases:
        n += 1
        t = Time(ns)
        s = str(t)
        want = '%02d:%02d:%02d.%09d' % (ns // (3600 * 10 ** 9), ns // (60 * 10 ** 9) % 60, ns // 10 ** 9 % 60, ns % 10 ** 9)
        if s != want or Time(s).nanosecond_time != ns:
            fails.append('Time(%d): str %r (expected %r), parsed back %r' % (ns, s, want, Time(s).nanosecond_time))
        tt = t.time()
        if Time(tt).nanosecond_time != ns - ns % 1000:
            fails.append('Time(%d).time() -> %r -> %d' % (ns, tt, Time(tt).nanosecond_time))
    for s, ns in (('00:00:00', 0), ('23:59:59.999999999', DAY - 1), ('01:02:03.5', 3723 * 10 ** 9 + 500000000), ('1:2:3.000000001', 3723 * 10 ** 9 + 1)):
        n += 1
        if Time(s).nanosecond_time != ns:
            fails.append('Time(%r) is %d ns, expected %d' % (s, Time(s).nanosecond_time, ns))
    for bad in (-1, DAY, DAY + 1, -DAY):
        n += 1
        try:
            Time(bad)
            fails.append('Time(%d) accepted' % bad)
        except ValueError:
            pass
    # time-uuids with real floating point: instants of 1970..5236 as datetimes (exact microseconds) and as float timestamps
    epoch = datetime.datetime(1970, 1, 1)
    for _ in range(20000 if tier == 'quick' else 200000):
        n += 1
        us = rng.randrange(0, ((1 << 60) - 0x01b21dd213814000) // 10) if rng.random() < 0.5 else rng.randrange(0, (1 << 31) * 10 ** 6)     # every instant a 60-bit uuid timestamp can hold (up to the year 5236); half of them before 2038
        dt = epoch + datetime.timedelta(microseconds=us)
        node, cs = rng.getrandbits(48), rng.getrandbits(14)
        u = uuid_from_time(dt, node, cs)
        if u.time != us * 10 + 0x01b21dd213814000 or u.node != node or u.clock_seq != cs or u.version != 1:
            fails.append('uuid_from_time(%r, %#x, %#x) = %s: timestamp %d, expected %d' % (dt, node, cs, u, u.time, us * 10 + 0x01b21dd213814000))
            continue
        if datetime_from_uuid1(u) != dt:
            fails.append('datetime_from_uuid1(uuid_from_time(%r)) is %r' % (dt, datetime_from_uuid1(u)))
        # the float decode: as close to the instant as binary64 seconds allow (within 2 units in the last place of the exact quotient everywhere; within half a
        # microsecond while the second count is below 2^31, where a double still separates microseconds with margin)
        secs = unix_time_from_uuid1(u)
        exact = us / 10 ** 6                 # int / int: correctly rounded
        if abs(secs - exact) > 2 * math.ulp(exact) or (us < (1 << 31) * 10 ** 6 and abs(Fraction(secs) - Fraction(us, 10 ** 6)) >= Fraction(1, 2 * 10 ** 6)):
            fails.append('unix_time_from_uuid1(uuid_from_time(%r)) = %r, the instant is %r s' % (dt, secs, exact))
        lo, hi = min_uuid_from_time(dt), max_uuid_from_time(dt)
        if not (cass_cmp_key(lo) <= cass_cmp_key(u) <= cass_cmp_key(hi)):
            fails.append('uuid %s of %r is outside [min %s, max %s] in Cassandra order' % (u, dt, lo, hi))
    return {'name': 'calendar-strings-and-float-uuids', 'kind': 'bounded', 'cases': n, 'evaluations': n, 'distinct_nontrivial': n,
            'rule': 'Date <-> day count <-> yyyy-mm-dd against an independent civil-calendar function; Time <-> string <-> time of day; time-uuid round trip and min/max bounds with real binary64 arithmetic',
            'bound': 'days of years 1..9999 (%s), %d random nanosecond times, %d random instants of 1970..5236 (the 60-bit range) with random node / clock sequence' %
                     ('every day' if tier != 'quick' else 'every 13th day plus boundaries', 20000 if tier == 'quick' else 100000, 20000 if tier == 'quick' else 200000),
            'violations': fails[:3]}


def replay(model, obligation):
    from cassandra.util import Time, Date, uuid_from_time
    fails = []
    ns = model.get('nanoseconds')
    if isinstance(ns, int) and 'Time' in obligation:
        try:
            t = Time(ns)
            if not (0 <= ns < 86400 * 10 ** 9):
                fails.append('Time(%d) accepted: hour=%r' % (ns, t.hour))
            elif (t.hour, t.minute, t.second, t.nanosecond) != (ns // (3600 * 10 ** 9), ns // (60 * 10 ** 9) % 60, ns // 10 ** 9 % 60, ns % 10 ** 9):
                fails.append('Time(%d) components %r' % (ns, (t.hour, t.minute, t.second, t.nanosecond)))
        except ValueError as e:
            if 0 <= ns < 86400 * 10 ** 9:
                fails.append('Time(%d) rejected: %s' % (ns, e))
    if not fails:
        r = calendar_and_strings('quick', 0)
        fails = list(r['violations'])
    return {'reproduced': bool(fails), 'detail': '; '.join(fails[:2]) or 'no disagreement'}
