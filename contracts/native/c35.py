"""C35 native side (bounded): model-operation sequences through the real cqlengine DML code against an in-memory table with cell-level CQL semantics."""
import itertools
import os
import random
import re
import sys
sys.path.insert(0, os.path.dirname(os.path.dirname(os.path.dirname(os.path.abspath(__file__)))))


def replay(model, obligation):
    _import_cqlengine()
    from cassandra.cqlengine import statements as st
    from contracts.c35_persistence import apply_rendered, empty_is_null
    import itertools
    fails = []
    lists = [list(p) for r in range(4) for p in itertools.product('ab', repeat=r)] + [['a', 'b', 'c'], ['c', 'a']]
    sets = [set(c) for r in range(4) for c in itertools.combinations('abc', r)]
    for cls, universe in ((st.ListUpdateClause, lists), (st.SetUpdateClause, sets)):
        for p, v in itertools.product([None] + universe, universe):
            c = cls('f', type(v)(v), previous=None if p is None else type(p)(p))
            c.set_context_id(0)
            ctx = {}
            c.get_context_size()
            c.update_context(ctx)
            got = apply_rendered(None if p is None else type(p)(p), str(c), ctx)
            if empty_is_null(got) != empty_is_null(v):
                fails.append('%s previous=%r value=%r renders %s with %r: the cell becomes %r' % (cls.__name__, p, v, str(c), ctx, got))
                break
    if not fails:
        fails = list(flows('quick', 0)['violations'])
    return {'reproduced': bool(fails), 'detail': '; '.join(fails[:2]) or 'no disagreement'}


def _import_cqlengine():
    import types
    try:
        import cassandra.cluster          # noqa: F401
    except Exception:
        from cassandra.connection import Connection
        m = types.ModuleType('cassandra.io.libevreactor')
        m.LibevConnection = type('LibevConnection', (Connection,), {})
        sys.modules['cassandra.io.libevreactor'] = m
    from cassandra.cqlengine import columns, models, query, statements
    return columns, models, query, statements


class Table(object):
    """rows keyed by (partition key, clustering key); static cells per partition; cell-level CQL semantics"""
    def __init__(self, static_cols, key_cols):
        self.rows, self.statics, self.static_cols, self.key_cols = {}, {}, set(static_cols), key_cols

    def _cell_apply(self, old, clause, st):
        if isinstance(clause, st.ContainerUpdateClause):
            from contracts.c35_persistence import apply_rendered
            clause.set_context_id(0)
            ctx = {}
            clause.get_context_size()
            clause.update_context(ctx)
            return apply_rendered(old, str(clause), ctx, clause.field)
        if isinstance(clause, st.CounterUpdateClause):
            clause.set_context_id(0)
            ctx = {}
            clause.update_context(ctx)
            return (old or 0) + (ctx['0'] if ' + ' in str(clause).split('=')[1] else -ctx['0'])
        return clause.value

    def execute(self, stmt, st, ops):
        where = {w.field: w.value for w in stmt.where_clauses if isinstance(w.operator, ops.EqualsOperator)}
        pk = where.get('pk')
        has_ck = 'ck' in where
        key = (pk, where.get('ck'))
        if isinstance(stmt, st.InsertStatement):
            vals = {a.field: a.value for a in stmt.assignments}
            pk, key = vals.get('pk'), (vals.get('pk'), vals.get('ck'))
            for f, v in vals.items():
                if f in self.static_cols:
                    self.statics.setdefault(pk, {})[f] = v
                elif f not in self.key_cols and vals.get('ck') is not None:
                    self.rows.setdefault(key, {})[f] = v
            if vals.get('ck') is not None:
                self.rows.setdefault(key, {})
            return
        if isinstance(stmt, st.UpdateStatement):
            for a in stmt.assignments:
                if a.field in self.static_cols:
                    cells = self.statics.setdefault(pk, {})
                else:
                    if not has_ck:
                        raise AssertionError('UPDATE of the non-static column %r without the clustering key in WHERE: %s' % (a.field, stmt))
                    cells = self.rows.setdefault(key, {})
                cells[a.field] = self._cell_apply(cells.get(a.field), a, st)
            return
        if isinstance(stmt, st.DeleteStatement):
            if not stmt.fields:
                if has_ck:
                    self.rows.pop(key, None)
                else:
                    for k in [k for k in self.rows if k[0] == pk]:
                        self.rows.pop(k)
                    self.statics.pop(pk, None)
                return
            for f in stmt.fields:
                if f.field in self.static_cols:
                    cells = self.statics.setdefault(pk, {})
                else:
                    if not has_ck:
                        raise AssertionError('DELETE of (part of) the non-static column %r without the clustering key in WHERE: %s' % (f.field, stmt))
                    cells = self.rows.setdefault(key, {})
                if isinstance(f, st.MapDeleteClause):
                    f.set_context_id(0)
                    ctx = {}
                    f.update_context(ctx)
                    cells[f.field] = {k: v for k, v in (cells.get(f.field) or {}).items() if k not in ctx.values()}
                else:
                    cells[f.field] = None
            return
        raise AssertionError('unexpected statement %r' % stmt)


def flows(tier, seed):
    columns, models, query, st = _import_cqlengine()
    from cassandra.cqlengine import operators as ops
    from contracts.c35_persistence import empty_is_null
    rng = random.Random(seed)

    class Row(models.Model):
        __keyspace__ = 'ks'
        __table_name__ = 'row'
        pk = columns.Integer(partition_key=True)
        ck = columns.Integer(primary_key=True)
        name = columns.Text()
        shared = columns.Text(static=True)
        tags = columns.Set(columns.Text)
        elems = columns.List(columns.Integer)
        props = columns.Map(columns.Text, columns.Integer)
    table = [None]
    orig = query._execute_statement

    def fake(model, statement, consistency_level, timeout, connection=None):
        table[0].execute(statement, st, ops)
        return []
    query._execute_statement = fake
    query.check_applied = lambda r: None
    fails, n, seen = [], 0, set()
    domains = dict(name=[None, 'n1', 'n2'], shared=[None, 's1'], tags=[None, set(), {'a'}, {'a', 'b'}, {'b', 'c'}], elems=[None, [], [1], [1, 2], [2, 1, 3], [0, 1]],
                   props=[None, {}, {'x': 1}, {'x': 2}, {'x': 1, 'y': 2}, {'y': 2}])
    fields = sorted(domains)
    steps = 2 if tier == 'quick' else 3
    budget = 4000 if tier == 'quick' else 60000
    try:
        def state_of(inst):
            return {f: empty_is_null(getattr(inst, f)) for f in fields}

        def stored():
            row = table[0].rows.get((1, inst.ck), {})
            stat = table[0].statics.get(1, {})
            return {f: empty_is_null((stat if f == 'shared' else row).get(f)) for f in fields}
        for trial in range(budget):
            table[0] = Table(['shared'], ['pk', 'ck'])
            init = {f: rng.choice(domains[f]) for f in fields}
            history = ['create(%r)' % init]
            try:
                inst = Row(pk=1, ck=1, **{f: v for f, v in init.items() if v is not None})
                query.DMLQuery(Row, inst).save()
                inst._set_persisted()
                for _ in range(rng.randrange(1, steps + 1)):
                    kind = rng.choice(['save', 'update', 'delete-fields', 'save-under-a-new-clustering-key'])
                    changes = {f: rng.choice(domains[f]) for f in rng.sample(fields, rng.randrange(1, 4))}
                    history.append('%s(%r)' % (kind, changes))
                    for f, v in changes.items():
                        setattr(inst, f, v)
                    if kind == 'save-under-a-new-clustering-key':
                        # a loaded row saved again after its clustering key was reassigned is a NEW row: every column has to be written, not only the changed ones
                        inst.ck = inst.ck + 1
                        kind = 'save'
                    if kind == 'save':
                        query.DMLQuery(Row, inst).save()
                    else:
                        query.DMLQuery(Row, inst).update()
                    inst._set_persisted()
                n += 1
                seen.add(' ; '.join(history))
                if stored() != state_of(inst):
                    fails.append('after %s the stored row is %r but the instance holds %r' % (' ; '.join(history), stored(), state_of(inst)))
            except AssertionError as e:
                n += 1
                fails.append('after %s: %s' % (' ; '.join(history), e))
            if len(fails) > 3:
                break
    finally:
        query._execute_statement = orig
    return {'name': 'model-operation-sequences', 'kind': 'bounded', 'cases': n, 'evaluations': n, 'distinct_nontrivial': len(seen), 'samples': sorted(seen)[:2],
            'rule': 'distinct = distinct operation histories (every one changes at least one column); stored row (in-memory table with cell-level CQL semantics fed by the recorded statement objects) == instance state after every sequence',
            'bound': '%d random sequences of create + <= %d save/update steps over small value domains on one model (partition + clustering key, text, static text, set, list, map)' % (n, steps),
            'violations': fails[:3]}
