"""C26 native side: exhaustive small-ring comparison of the real strategies with spec/placement.py, and replay."""
import itertools
import random
import sys
import os
sys.path.insert(0, os.path.dirname(os.path.dirname(os.path.dirname(os.path.abspath(__file__)))))


class Hst(object):
    def __init__(self, name, dc, rack):
        self.name, self.datacenter, self.rack = name, dc, rack

    def __repr__(self):
        return '%s@%s/%s' % (self.name, self.datacenter, self.rack)


def rings(max_hosts, racks, max_tokens):
    """every ring: hosts 1..max_hosts with (dc, rack) layouts over 2 DCs, every interleaving of their tokens"""
    locs = [(dc, r) for dc in ('dc1', 'dc2') for r in racks]
    for nh in range(1, max_hosts + 1):
        for layout in itertools.combinations_with_replacement(locs, nh):
            hosts = [Hst('h%d' % i, dc, r) for i, (dc, r) in enumerate(layout)]
            for counts in itertools.product(range(1, max_tokens + 1), repeat=nh):
                slots = [h for h, c in zip(hosts, counts) for _ in range(c)]
                seen = set()
                for perm in itertools.permutations(range(len(slots))):
                    key = tuple(slots[i].name for i in perm)
                    if key in seen:
                        continue
                    seen.add(key)
                    # rotations of a ring are the same ring: keep the one starting with the first slot's host... (cheap canonical form)
                    yield hosts, [slots[i] for i in perm]


def compare(hosts, owners_in_ring_order, dc_rfs, simple_rfs, fails, stats):
    from cassandra.metadata import NetworkTopologyStrategy, SimpleStrategy
    from spec import placement
    ring = list(range(len(owners_in_ring_order)))
    owner = dict(zip(ring, owners_in_ring_order))
    for rf in simple_rfs:
        got = SimpleStrategy({'replication_factor': str(rf)}).make_token_replica_map(owner, ring)
        for i in ring:
            want = placement.simple_strategy(ring, owner, i, rf)
            stats['n'] += 1
            if list(got[i]) != want:
                fails.append('SimpleStrategy rf=%d ring=%s token#%d: driver %s, Cassandra %s' % (rf, owners_in_ring_order, i, got[i], want))
                return
    for dc_rf in dc_rfs:
        got = NetworkTopologyStrategy(dict((k, str(v)) for k, v in dc_rf.items())).make_token_replica_map(owner, ring)
        for i in ring:
            want = placement.network_topology_strategy(ring, owner, i, dc_rf)
            g = list(got[i])
            stats['n'] += 1
            if len(g) != len(set(g)) or set(g) != set(want):
                fails.append('NetworkTopologyStrategy %s ring=%s token#%d: driver %s, Cassandra %s' % (dc_rf, owners_in_ring_order, i, g, want))
                return


def enumerate_rings(tier, seed):
    quick = tier == 'quick'
    rng = random.Random(seed)
    fails, stats = [], {'n': 0, 'rings': 0}
    dc_rfs = [dict(dc1=a, dc2=b) for a in range(0, 4) for b in range(0, 4) if a + b > 0] + [dict(dc1=2, dc3=1)]
    limit = 4000 if quick else 200000
    gen = rings(3 if quick else 4, ('r1', 'r2') if quick else ('r1', 'r2', 'r3'), 2)
    for hosts, owners in gen:
        stats['rings'] += 1
        if stats['rings'] > limit:
            break
        compare(hosts, owners, dc_rfs, (1, 2, 3), fails, stats)
        if fails:
            break
    # random larger rings
    for _ in range(300 if quick else 20000):
        if fails:
            break
        nh = rng.randint(2, 6)
        hosts = [Hst('h%d' % i, rng.choice(('dc1', 'dc2')), rng.choice(('r1', 'r2', 'r3'))) for i in range(nh)]
        owners = [h for h in hosts for _ in range(rng.randint(1, 4))]
        rng.shuffle(owners)
        stats['rings'] += 1
        compare(hosts, owners, [dict(dc1=rng.randint(0, 4), dc2=rng.randint(0, 4)) for _ in range(3)], (rng.randint(1, 5),), fails, stats)
    return {'name': 'placement-small-rings', 'kind': 'bounded', 'cases': stats['n'], 'rings': stats['rings'],
            'bound': 'every ring over <= %d hosts x 2 DCs x %d racks x <= 2 tokens/host (first %d rings) + random rings of <= 6 hosts x <= 4 tokens; RF 0..3 per DC' %
                     (3 if quick else 4, 2 if quick else 3, limit),
            'violations': fails[:3]}


def replay(model, obligation):
    from cassandra.metadata import SimpleStrategy
    from spec import placement
    fails = []
    if 'SimpleStrategy' in obligation:
        n = model.get('choice_ring_tokens', 0) + 1
        owners = ['host%s' % model.get('owner_of_token_%d' % i, 0) for i in range(n)]
        rf = max(1, int(model.get('replication_factor', 1) or 1))
        ring = list(range(n))
        owner = dict(zip(ring, owners))
        got = SimpleStrategy({'replication_factor': str(rf)}).make_token_replica_map(owner, ring)
        for i in ring:
            want = placement.simple_strategy(ring, owner, i, rf)
            if list(got[i]) != want:
                fails.append('ring owners %s rf=%d token#%d: driver %s, Cassandra %s' % (owners, rf, i, got[i], want))
    else:
        r = enumerate_rings('quick', 0)
        fails = r['violations']
        if 'keyspace-update' in obligation or 'get_replicas' in obligation:
            fails += _keyspace_update()
    return {'reproduced': bool(fails), 'detail': '; '.join(fails[:2]) or 'no disagreement'}


def _keyspace_update():
    from cassandra.metadata import Metadata, KeyspaceMetadata, Murmur3Token
    md = Metadata()
    hosts = [Hst('h%d' % i, 'dc1', 'r1') for i in range(3)]
    md.keyspaces['ks'] = KeyspaceMetadata('ks', True, 'SimpleStrategy', {'replication_factor': '1'})
    md.rebuild_token_map('org.apache.cassandra.dht.Murmur3Partitioner', {hosts[0]: ['0'], hosts[1]: ['100'], hosts[2]: ['200']})
    before = md.token_map.get_replicas('ks', Murmur3Token(50))
    md._update_keyspace(KeyspaceMetadata('ks', True, 'SimpleStrategy', {'replication_factor': '3'}))
    after = md.token_map.get_replicas('ks', Murmur3Token(50))
    if len(before) != 1 or len(after) != 3:
        return ['after ALTER KEYSPACE rf 1 -> 3 the replicas of token 50 are %s (before: %s)' % (after, before)]
    return []
