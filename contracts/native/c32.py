"""C32 native replay: the real execute_concurrent* over a scripted session (completions delivered on a helper thread)."""
import threading

KINDS = ['async-ok', 'async-error', 'sync-raise', 'sync-ok', 'sync-error']


def replay(model, obligation):
    from contracts.native import rf
    rf.load_cluster()
    from cassandra.concurrent import execute_concurrent, execute_concurrent_async
    n = model.get('choice_statements', 0) + 1
    kinds = [KINDS[model.get('choice_statement%d' % i, 0)] for i in range(n)]
    conc = model.get('choice_concurrency', 0) + 1
    ff = [True, False][model.get('choice_raise_on_first_error', 0)]
    errs = {i: Exception('statement %d failed' % i) for i in range(n)}
    pending = []
    lock = threading.Lock()
    state = {'inflight': 0, 'max': 0}

    class F(object):
        _col_names = _col_types = None

        def __init__(self, idx, kind):
            self.idx, self.kind = idx, kind

        def add_callbacks(self, callback, errback, callback_args=(), errback_args=()):
            self.cb = (callback, callback_args, errback, errback_args)
            if self.kind.startswith('sync'):
                self.complete()
            else:
                with lock:
                    pending.append(self)

        def complete(self):
            state['inflight'] -= 1
            cb, ca, eb, ea = self.cb
            if self.kind.endswith('ok'):
                cb(['row-of-%d' % self.idx], *ca)
            else:
                eb(errs[self.idx], *ea)

        def clear_callbacks(self):
            pass

    class S(object):
        def execute_async(self, st, params, timeout=None, execution_profile=None):
            state['inflight'] += 1
            state['max'] = max(state['max'], state['inflight'])
            if kinds[st] == 'sync-raise':
                state['inflight'] -= 1
                raise errs[st]
            return F(st, kinds[st])

        def submit(self, fn, *a, **k):
            threading.Thread(target=fn, args=a, kwargs=k).start()
    stop = threading.Event()

    def pump():
        import time
        while not stop.is_set():
            with lock:
                f = pending.pop(0) if pending else None
            if f is not None:
                try:
                    f.complete()
                except Exception as e:
                    fails.append('exception escaped into the response thread: %r' % (e,))
            else:
                time.sleep(0.002)
    fails = []
    t = threading.Thread(target=pump, daemon=True)
    t.start()
    out = {}

    def run():
        try:
            if 'async' in obligation:
                f = execute_concurrent_async(S(), [(i, None) for i in range(n)], concurrency=conc, raise_on_first_error=ff)
                try:
                    out['r'] = ('ok', f.result(timeout=5))
                except Exception as e:
                    out['r'] = ('future-exc', e)
            else:
                gen = 'generator' in obligation
                r = execute_concurrent(S(), [(i, None) for i in range(n)], concurrency=conc, raise_on_first_error=ff, results_generator=gen)
                out['r'] = ('ok', list(r))
        except Exception as e:
            out['r'] = ('exc', e)
    th = threading.Thread(target=run, daemon=True)
    th.start()
    th.join(10)
    stop.set()
    if th.is_alive():
        fails.append('statements %s concurrency %d fail_fast %s: the call never returned' % (kinds, conc, ff))
    else:
        kind, r = out['r']
        bad = [i for i, k in enumerate(kinds) if not k.endswith('ok')]
        if kind == 'exc' and not (ff and bad and r in errs.values()):
            fails.append('statements %s concurrency %d fail_fast %s: raised %r' % (kinds, conc, ff, r))
        if kind == 'ok':
            if ff and bad:
                fails.append('fail-fast with failures returned normally')
            elif len(r) != n or any((x[0] is not kinds[i].endswith('ok')) for i, x in enumerate(r)):
                fails.append('statements %s: results %s' % (kinds, [(x[0]) for x in r]))
        if state['max'] > conc:
            fails.append('%d statements in flight with concurrency %d' % (state['max'], conc))
    return {'reproduced': bool(fails), 'detail': '; '.join(fails[:3]) or 'no disagreement'}
