"""C10 native replay on a socket-less real Connection."""


def _conn():
    import threading
    from cassandra.connection import Connection

    class C(Connection):
        def __init__(self):
            self.lock = threading.RLock()
            self._requests = {}
            self._continuous_paging_sessions = {}
            self.connected_event = threading.Event()
            self.is_defunct = self.is_closed = False
            self.endpoint = 'ep'
            self.closes = 0
            self.protocol_version, self.compressor, self.allow_beta_protocol_version, self._is_checksumming_enabled = 4, None, False, False
            self.writable = True

        def close(self):
            self.closes += 1
            self.is_closed = True

        def push(self, data):
            pass

        @property
        def _socket_writable(self):
            if getattr(self, 'hook', None):
                h, self.hook = self.hook, None
                h()
            return self.writable
    return C()


def replay(model, obligation):
    from cassandra.connection import ConnectionShutdown
    fails = []
    for n in (1, 3, 120):
        for raising in (None, 1):
            c = _conn()
            inv = {}

            def mk(i):
                def cb(r):
                    inv[i] = inv.get(i, 0) + 1
                    if i == raising:
                        raise RuntimeError('handler failed')
                return cb
            for i in range(n):
                c._requests[i] = (mk(i), None, None)
            c.defunct(Exception('io'))
            import time
            time.sleep(0.05 if n > 100 else 0)
            bad = [i for i in range(n) if inv.get(i, 0) != 1]
            if bad or c._requests or c.closes != 1:
                fails.append('%d outstanding, raising handler %r: handlers not invoked exactly once: %r' % (n, raising, bad[:5]))
            try:
                c.send_msg('m', 1, lambda r: None, encoder=lambda *a, **k: b'x')
                fails.append('send on a defunct connection was accepted')
            except ConnectionShutdown:
                pass
    # continuous-paging sessions (real class), with and without a paging state, plus two outstanding handlers
    from cassandra.connection import ContinuousPagingSession, ContinuousPagingState, DefaultEndPoint
    for state, plain in ((None, 2), (ContinuousPagingState(4), 2), (None, 0), (ContinuousPagingState(4), 0)):
        c = _conn()
        c.endpoint = DefaultEndPoint('10.0.0.1')
        s = ContinuousPagingSession(7, None, None, c, state)
        c._continuous_paging_sessions[7] = s
        got = []
        for i in range(plain):
            c._requests[i] = ((lambda r, i=i: got.append(i)), None, None)
        exc = Exception('io')
        try:
            c.defunct(exc)
            raised = None
        except Exception as e:
            raised = e
        if raised is not None or sorted(got) != list(range(plain)) or list(s._page_queue) != [(None, None, exc)] or not s._stop:
            fails.append('continuous paging session %s a paging state, %d plain requests outstanding: defunct raised %r, handlers invoked %r, session queue %r'
                         % ('with' if state else 'without', plain, raised, got, list(s._page_queue)))
    return {'reproduced': bool(fails), 'detail': '; '.join(fails[:3]) or 'no disagreement'}


def replay_race(model, obligation):
    """defunct() runs between send_msg's is_defunct check and its registration (at the _socket_writable read)."""
    c = _conn()
    got = []
    c.hook = lambda: c.defunct(Exception('io error'))
    try:
        c.send_msg('m', 5, lambda r: got.append(r), encoder=lambda *a, **k: b'x')
        refused = False
    except Exception:
        refused = True
    bad = (not refused) and not got
    return {'reproduced': bad, 'detail': 'send accepted=%s after the connection was defuncted mid-send; handler invoked %d times; still registered: %s'
            % (not refused, len(got), 5 in c._requests)}


def replay_push_race(model, obligation):
    """defunct() runs inside push() (the write fails): the handler of the request being sent must be swept"""
    c = _conn()
    got = []
    c.push = lambda data: c.defunct(Exception('broken pipe'))
    try:
        c.send_msg('m', 5, lambda r: got.append(r), encoder=lambda *a, **k: b'x')
        refused = False
    except Exception:
        refused = True
    bad = (len(got) != 1 and not (refused and not got and 5 not in c._requests)) or 5 in c._requests
    return {'reproduced': bad, 'detail': 'the connection failed while the frame was being written: handler invoked %d times, send refused=%s, still registered: %s'
            % (len(got), refused, 5 in c._requests)}
