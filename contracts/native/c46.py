"""C46 native replay: real Session._create_response_future on a Session skeleton, option precedence on concrete samples."""
import itertools
import types
from contracts.native import rf


def _replay_profile():
    cl = rf.load_cluster()
    fails = []
    for name, values in (('request_timeout', [None, 0.0, 2.5]), ('consistency_level', [0, 4]), ('retry_policy', ['R']), ('row_factory', ['RF']),
                         ('speculative_execution_policy', ['S']), ('load_balancing_policy', ['L']), ('continuous_paging_options', ['CP'])):
        for v in values:
            got = getattr(cl.ExecutionProfile(**{name: v}), name)
            if got is not v and not (got == v and type(got) is type(v)):
                fails.append('ExecutionProfile(%s=%r) holds %r' % (name, v, got))
    d = cl.ExecutionProfile(load_balancing_policy='L')
    if d.consistency_level != 6 or d.request_timeout != 10.0 or d.serial_consistency_level is not None or d._consistency_level_explicit:
        fails.append('defaults: consistency %r, timeout %r, serial %r' % (d.consistency_level, d.request_timeout, d.serial_consistency_level))
    return {'reproduced': bool(fails), 'detail': '; '.join(fails[:3]) or 'constructor stores what it is given'}


def _replay_clone():
    cl = rf.load_cluster()
    s = cl.Session.__new__(cl.Session)
    base = cl.ExecutionProfile(load_balancing_policy='L', consistency_level=6, serial_consistency_level=8, request_timeout=2.5)
    s._maybe_get_execution_profile = lambda ep: ep
    fails = []
    for upd in ({'serial_consistency_level': None}, {'request_timeout': None}, {'request_timeout': 0.0}, {'consistency_level': 0}, {'serial_consistency_level': 9, 'request_timeout': 7.0}):
        c = s.execution_profile_clone_update(base, **upd)
        for k, v in upd.items():
            if getattr(c, k) != v or (v is None) != (getattr(c, k) is None):
                fails.append('clone_update(%s=%r) gives a profile with %s=%r' % (k, v, k, getattr(c, k)))
        if base.serial_consistency_level != 8 or base.request_timeout != 2.5:
            fails.append('the base profile was changed')
    return {'reproduced': bool(fails), 'detail': '; '.join(fails[:3]) or 'derived profiles hold the given values'}


def replay(model, obligation):
    if 'ExecutionProfile.__init__' in obligation:
        return _replay_profile()
    if 'execution_profile_clone_update' in obligation:
        return _replay_clone()
    cl = rf.load_cluster()
    from cassandra.query import SimpleStatement, FETCH_SIZE_UNSET
    from cassandra.policies import RetryPolicy
    fails = []
    if 'bound-statement-inherits' in obligation:
        from cassandra.query import PreparedStatement, BoundStatement
        for p_cl, p_scl, p_fetch, idem, own_cl in itertools.product((None, 0, 3), (None, 8), (FETCH_SIZE_UNSET, 7), (True, False), (None, 0, 6)):
            p_retry, own_retry = RetryPolicy(), (RetryPolicy() if own_cl == 6 else None)
            ps = PreparedStatement(column_metadata=[], query_id=b'id', routing_key_indexes=None, query='SELECT 1', keyspace='ks', protocol_version=4,
                                   result_metadata=None, result_metadata_id=None)
            ps.consistency_level, ps.serial_consistency_level, ps.fetch_size, ps.retry_policy, ps.is_idempotent = p_cl, p_scl, p_fetch, p_retry, idem
            bs = BoundStatement(ps, retry_policy=own_retry, consistency_level=own_cl)
            got = (bs.consistency_level, bs.serial_consistency_level, bs.fetch_size, bs.retry_policy, bs.is_idempotent)
            want = (own_cl if own_cl is not None else p_cl, p_scl, p_fetch, own_retry if own_retry is not None else p_retry, idem)
            if got != want:
                fails.append('prepared(cl=%r serial=%r fetch=%r idempotent=%s) bound with consistency_level=%r: the bound statement has (cl, serial, fetch, retry, idempotent) = %r, expected %r'
                             % (p_cl, p_scl, p_fetch, idem, own_cl, got, want))
        return {'reproduced': bool(fails), 'detail': '; '.join(fails[:2]) or 'bound statements inherit and override as specified on the sampled combinations'}
    if 'legacy-rejects-profile' in obligation:
        s = cl.Session.__new__(cl.Session)
        s.cluster = types.SimpleNamespace(_config_mode=cl._ConfigMode.LEGACY)
        try:
            s._create_response_future(SimpleStatement('SELECT 1'), None, False, None, cl._NOT_SET, execution_profile='some-profile')
            fails.append('legacy mode accepted execution_profile=...')
        except ValueError:
            pass
        except Exception as e:
            fails.append('legacy mode with an execution profile raised %r instead of ValueError' % (e,))
        return {'reproduced': bool(fails), 'detail': '; '.join(fails) or 'rejected with ValueError'}
    captured = {}
    orig = cl.ResponseFuture

    def fake(session, message, query, timeout, **kw):
        captured.clear()
        captured.update(kw, message=message, timeout=timeout)
        return 'F'
    cl.ResponseFuture = fake
    try:
        for legacy, s_cl, s_scl, s_fetch, pv, idem in itertools.product((False, True), (None, 0, 3), (None, 8), (FETCH_SIZE_UNSET, 7, None), (1, 2, 4, 5), (True, False)):
            s = cl.Session.__new__(cl.Session)
            prof = cl.ExecutionProfile(load_balancing_policy='LBP', retry_policy=RetryPolicy(), consistency_level=5, serial_consistency_level=9,
                                       request_timeout=11.0, row_factory='RF')
            plan = object()
            prof.speculative_execution_policy = types.SimpleNamespace(new_plan=lambda ks, st: plan)
            s.cluster = types.SimpleNamespace(_config_mode=cl._ConfigMode.LEGACY if legacy else cl._ConfigMode.PROFILES, default_retry_policy='DRP',
                                              load_balancing_policy='DLBP', allow_beta_protocol_version=False, timestamp_generator=lambda: 99)
            # the public names are properties that refuse to be set in profile mode: the state behind them is set directly
            s._default_timeout, s._default_consistency_level, s._default_serial_consistency_level = 22.0, 6, None
            s._row_factory, s._protocol_version, s.use_client_timestamp, s.default_fetch_size = 'DRF', pv, True, 5000
            s.encoder, s._metrics, s.keyspace = None, None, 'ks'
            q = SimpleStatement('SELECT 1', consistency_level=s_cl, serial_consistency_level=s_scl, fetch_size=s_fetch, is_idempotent=idem)
            s._create_response_future(q, None, False, None, cl._NOT_SET, execution_profile=cl.EXEC_PROFILE_DEFAULT if legacy else prof)
            m = captured['message']
            want_cl = s_cl if s_cl is not None else (6 if legacy else 5)
            want_scl = s_scl if s_scl is not None else (None if legacy else 9)
            want_fetch = None if pv == 1 else (5000 if s_fetch is FETCH_SIZE_UNSET else s_fetch)
            want_plan = plan if (idem and not legacy) else None
            got = (m.consistency_level, m.serial_consistency_level, m.fetch_size, captured['speculative_execution_plan'], captured['timeout'])
            want = (want_cl, want_scl, want_fetch, want_plan, 22.0 if legacy else 11.0)
            if got != want:
                fails.append('legacy=%s stmt(cl=%r serial=%r fetch=%r idem=%s) pv=%d: got %r want %r' % (legacy, s_cl, s_scl, s_fetch, idem, pv, got, want))
    finally:
        cl.ResponseFuture = orig
    return {'reproduced': bool(fails), 'detail': '; '.join(fails[:2]) or 'no disagreement on the sampled option combinations'}
