"""C06 native replay (no z3 import): real SegmentCodec / Connection buffer code against the v5 framing spec."""
import io
from spec import segment_spec as SP


def _codec(compression):
    from cassandra.segment import SegmentCodec
    import struct
    if not compression:
        return SegmentCodec()
    # stand-in with lz4's block-with-length-prefix contract: compressor output = int32(len) ++ body
    comp = lambda b: struct.pack('>i', len(b)) + bytes(x ^ 0x5a for x in b[:max(0, len(b) // 2)]) if False else struct.pack('>i', len(b)) + b
    dec = lambda b: b[4:]
    return SegmentCodec(comp, dec)


def replay(model, obligation):
    from cassandra.segment import SegmentCodec, SegmentHeader, CrcException
    h = obligation.split('/')[1]
    compression = ('compression' in h and 'plain' not in h) or int(model.get('choice_compression', 0) or 0) == 1
    codec = _codec(compression)
    p = int(model.get('payload_length', 0) or 0)
    u = int(model.get('uncompressed_length', 0) or 0)
    s = bool(model.get('is_self_contained', False))
    fails = []
    cases = [(p, u, s)] + [(a, b, c) for a in (0, 1, 5, 131071) for b in (0, 1, 131071) for c in (False, True)]
    if h.startswith('header') and 'bitflip' not in h or h == 'segment_length':
        for (a, b, c) in cases:
            buf = io.BytesIO()
            codec.encode_header(buf, a, b, c)
            wire = buf.getvalue()
            exp = SP.header_bytes(a, b, c, compression)
            hdr = codec.decode_header(io.BytesIO(wire))
            got = (hdr.payload_length, hdr.uncompressed_payload_length, hdr.is_self_contained)
            want = (a, b if compression else -1, c)
            if wire != exp or got != want:
                fails.append('encode_header(%d,%d,%s) = %s (spec %s); decoded %r' % (a, b, c, wire.hex(), exp.hex(), got))
            L = (8 if compression else 6) + a + 4
            if hdr.segment_length != L:
                fails.append('segment_length %d, on the wire %d (payload %d, uncompressed_length %d, compression=%s)' % (hdr.segment_length, L, a, b, compression))
    if 'bitflip' in h:
        for (a, b, c) in cases[:6]:
            buf = io.BytesIO()
            codec.encode_header(buf, a, b, c)
            wire = buf.getvalue()
            for bit in range(8 * len(wire)):
                w = bytearray(wire)
                w[bit // 8] ^= 1 << (bit % 8)
                try:
                    codec.decode_header(io.BytesIO(bytes(w)))
                    fails.append('header %s with bit %d flipped was accepted' % (wire.hex(), bit))
                except CrcException:
                    pass
    if h == 'segment-roundtrip':
        for size in (1, 2, 100, 131071):
            payload = bytes((i * 7) % 256 for i in range(size))
            for sc in (True, False):
                buf = io.BytesIO()
                codec._encode_segment(buf, payload, sc)
                rd = io.BytesIO(buf.getvalue())
                hdr = codec.decode_header(rd)
                seg = codec.decode(rd, hdr)
                if seg.payload != payload or seg.is_self_contained != sc or hdr.segment_length != len(buf.getvalue()):
                    fails.append('segment of %d bytes: restored %d bytes, segment_length %d vs %d on the wire' % (size, len(seg.payload), hdr.segment_length, len(buf.getvalue())))
    if h == 'compute_crc24':
        # a failed loop-invariant obligation has a havocked mid-loop state as its counter-model, not an input: search
        # concretely for an input on which the real function leaves the spec (Cassandra's Crc.crc24), model values first
        from cassandra.segment import compute_crc24
        import random
        rnd = random.Random(6)
        n0 = int(model.get('length', 0) or 0)
        datas = [0, 1, 0x80, 0xff, 0x100, 0x1ffff, 0x0123456789abcdef, (1 << 64) - 1] + [rnd.getrandbits(64) for _ in range(200)]
        for n in [n0] + [k for k in range(0, 9) if k != n0]:
            for d in datas:
                d &= (1 << (8 * n)) - 1
                got, want = compute_crc24(d, n), SP.crc24(d, n)
                if got != want:
                    fails.append('compute_crc24(0x%x, %d) = 0x%x, Crc.crc24 = 0x%x' % (d, n, got, want))
                    break
            if fails:
                break
    if h == 'header-too-long':
        from cassandra import DriverException
        for comp in (False, True):
            cdc = _codec(comp)
            for plen in sorted({max(p, 131072), 131072, 131073, 1 << 20}):
                buf = io.BytesIO()
                try:
                    cdc.encode_header(buf, plen, 0, True)
                    fails.append('encode_header accepted a payload of %d bytes (the maximum is 131071) and wrote %s' % (plen, buf.getvalue().hex()))
                except DriverException:
                    if buf.getvalue():
                        fails.append('encode_header refused %d bytes but had already written %s' % (plen, buf.getvalue().hex()))
    if h == 'payload-crc-checked':
        import zlib
        from cassandra.segment import CRC32_INITIAL
        for size in (0, 1, 5, 300):
            payload = bytes((i * 11 + 3) % 256 for i in range(size))
            buf = io.BytesIO()
            SegmentCodec()._encode_segment(buf, payload, True) if size else None
            if not size:
                continue
            wire = bytearray(buf.getvalue())
            for pos in (len(wire) - 1, len(wire) - 4, 6):      # a CRC byte, another CRC byte, the first payload byte
                w = bytearray(wire)
                w[pos] ^= 0x01
                rd = io.BytesIO(bytes(w))
                try:
                    hdr = SegmentCodec().decode_header(rd)
                    SegmentCodec().decode(rd, hdr)
                    fails.append('segment of %d payload bytes with byte %d changed (payload or its CRC32) was accepted' % (size, pos))
                except CrcException:
                    pass
            rd = io.BytesIO(bytes(wire))
            try:
                SegmentCodec().decode(rd, SegmentCodec().decode_header(rd))
            except CrcException:
                fails.append('an intact segment of %d payload bytes was rejected' % size)
    if h == 'encode-chunking':
        from cassandra.segment import Segment
        M = Segment.MAX_PAYLOAD_LENGTH
        if M != 131071:
            fails.append('Segment.MAX_PAYLOAD_LENGTH is %d, the v5 limit is 131071' % M)
        for size in (1, M - 1, M, M + 1, 2 * M, 2 * M + 1, 3 * M + 5):
            msg = bytes((i * 13 + 1) % 251 for i in range(size))
            got = []

            class Rec(SegmentCodec):
                def _encode_segment(self, buf, payload, sc):
                    got.append((bytes(payload), sc))
            Rec().encode(io.BytesIO(), msg)
            if b''.join(x for x, _ in got) != msg or any(not (1 <= len(x) <= M) for x, _ in got) or any(sc != (len(got) == 1) for _, sc in got) or size <= (len(got) - 1) * M:
                fails.append('message of %d bytes: chunks of %r bytes, self-contained flags %r' % (size, [len(x) for x, _ in got], [sc for _, sc in got]))
    if h in ('connection-segment-buffer', 'reset-buffers'):
        fails += _conn_chunking(compression)
        fails += _multi_frame_segment()
    return {'reproduced': bool(fails), 'detail': '; '.join(fails[:3]) or 'no disagreement found'}


def _conn_chunking(compression):
    """Feed two real segments to a real Connection's buffers under every 2-way split point; every payload byte must arrive."""
    from cassandra.connection import Connection
    out = []
    codec = _codec(compression)
    buf = io.BytesIO()
    payloads = [b'first-payload', b'second']
    for pl in payloads:
        codec._encode_segment(buf, pl, True)
    wire = buf.getvalue()

    class C(Connection):
        def __init__(self):
            pass
    for cut in range(1, len(wire)):
        c = C()
        from cassandra.connection import _ConnectionIOBuffer
        c._is_checksumming_enabled = True
        c._segment_codec = codec
        c._io_buffer = _ConnectionIOBuffer(c)
        c._io_buffer.set_checksumming_buffer()
        c._current_frame = None
        c.is_defunct = False
        errs = []
        c.defunct = lambda exc: errs.append(exc)
        c._read_frame_header = lambda: 0          # frames are not the subject here: only the segment layer
        for chunk in (wire[:cut], wire[cut:]):
            c._iobuf.write(chunk)
            c.process_io_buffer()
        got = c._io_buffer.cql_frame_buffer.getvalue()
        if got != b''.join(payloads) or errs:
            out.append('split after byte %d of %d: frame buffer holds %r, errors %r' % (cut, len(wire), got, errs[:1]))
    return out


def _multi_frame_segment():
    """Two frames coalesced in one segment, then another segment: every frame must be delivered once, in order."""
    import struct
    from cassandra.connection import Connection, _ConnectionIOBuffer
    from cassandra.segment import SegmentCodec
    codec = SegmentCodec()

    def frame(stream, body):
        return struct.pack('>BBhBi', 0x85, 0, stream, 0x02, len(body)) + body
    seg1 = io.BytesIO()
    codec._encode_segment(seg1, frame(1, b'') + frame(2, b'xy'), True)
    seg2 = io.BytesIO()
    codec._encode_segment(seg2, frame(6, b'abc'), True)

    class C(Connection):
        def __init__(self):
            pass
    out = []
    c = C()
    c._is_checksumming_enabled = True
    c._segment_codec = codec
    c._io_buffer = _ConnectionIOBuffer(c)
    c._io_buffer.set_checksumming_buffer()
    c._current_frame = None
    c.is_defunct = False
    errs = []
    got = []
    c.defunct = lambda exc: errs.append(exc)
    c.process_msg = lambda header, body: got.append((header.stream, bytes(body)))
    for chunk in (seg1.getvalue() + seg2.getvalue(),):
        c._iobuf.write(chunk)
        c.process_io_buffer()
    want = [(1, b''), (2, b'xy'), (6, b'abc')]
    if got != want or errs:
        out.append('two frames in one segment followed by a second segment: delivered %r (expected %r), errors %r' % (got, want, errs[:1]))
    return out
