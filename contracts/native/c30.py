"""C30 native side: the same statements bound through the real classes with real column types."""
import itertools
import os
import struct
import sys
sys.path.insert(0, os.path.dirname(os.path.dirname(os.path.dirname(os.path.abspath(__file__)))))


def _prepared(pv, rk, names=('a', 'b', 'c')):
    from cassandra.query import PreparedStatement
    from cassandra.protocol import ColumnMetadata
    from cassandra.cqltypes import Int32Type
    cols = [ColumnMetadata('ks', 'tb', n, Int32Type) for n in names]
    return PreparedStatement(cols, b'id', rk, 'q', 'ks', pv, None, None)


def enumerate_bindings(tier, seed):
    from cassandra.query import BoundStatement, UNSET_VALUE, PreparedStatement
    fails, n = [], 0
    states = ['value', 'null', 'unset', 'missing']
    for pv, rk, st in itertools.product([3, 4], [None, [0], [2], [1, 0], [0, 2]], itertools.product(states, repeat=3)):
        n += 1
        obj = lambda i: (10 + i) if st[i] == 'value' else (None if st[i] == 'null' else UNSET_VALUE)
        d = {nm: obj(i) for i, nm in enumerate('abc') if st[i] != 'missing'}
        try:
            got = ('ok', BoundStatement(_prepared(pv, rk)).bind(d).values)
        except Exception as e:
            got = ('exc', type(e).__name__)
        rkset = set(rk or [])
        if pv >= 4:
            if any(s in ('unset', 'missing') and i in rkset for i, s in enumerate(st)):
                want = ('exc', 'ValueError')
            else:
                want = ('ok', [struct.pack('>i', 10 + i) if s == 'value' else (None if s == 'null' else UNSET_VALUE) for i, s in enumerate(st)])
        elif 'unset' in st and 'missing' not in st[:st.index('unset')]:
            want = ('exc', 'ValueError')
        elif 'missing' in st:
            want = ('exc', 'KeyError') if ('unset' not in st or st.index('missing') < st.index('unset')) else ('exc', 'ValueError')
        else:
            want = ('ok', [struct.pack('>i', 10 + i) if s == 'value' else None for i, s in enumerate(st)])
        if got != want and not (pv < 4 and got[0] == 'exc' and want[0] == 'exc'):
            fails.append('v%d routing %s markers %s by name: %r, expected %r' % (pv, rk, st, got, want))
    # positional, short sequences: missing trailing markers become UNSET from v4 unless one of them is a routing-key marker
    for pv, rk, k in itertools.product([3, 4, 5], [None, [0], [2], [1, 0], [0, 2]], [0, 1, 2, 3]):
        n += 1
        try:
            got = ('ok', BoundStatement(_prepared(pv, rk)).bind(list(range(10, 10 + k))).values)
        except Exception as e:
            got = ('exc', type(e).__name__)
        missing_rk = any(i >= k for i in (rk or []))
        if pv >= 4:
            want = ('exc', 'ValueError') if missing_rk else ('ok', [struct.pack('>i', 10 + i) for i in range(k)] + [UNSET_VALUE] * (3 - k))
        else:
            want = ('exc', 'ValueError') if k < len(rk or []) else ('ok', [struct.pack('>i', 10 + i) for i in range(k)])
        if got != want:
            fails.append('v%d routing %s, %d positional values: %r, expected %r' % (pv, rk, k, got, want))
    for pv in (3, 4):
        n += 1
        try:
            BoundStatement(_prepared(pv, None)).bind([1, 2, 3, 4])
            fails.append('v%d: four positional values for three bind markers were accepted' % pv)
        except ValueError:
            pass
        except Exception as e:
            fails.append('v%d: extra positional value raised %r instead of ValueError' % (pv, e))
    # routing keys
    for rk in ([1], [2, 0], [0, 1, 2]):
        b = BoundStatement(_prepared(4, rk)).bind([1, 2, 3])
        comps = [struct.pack('>i', v) for v in (1, 2, 3)]
        want = comps[rk[0]] if len(rk) == 1 else b''.join(struct.pack('>H', 4) + comps[i] + b'\x00' for i in rk)
        n += 1
        if b.routing_key != want:
            fails.append('routing key for indexes %s: %r, expected %r' % (rk, b.routing_key, want))

    # composite keys with components of every length around the 16-bit boundaries of the [unsigned short] length prefix (blob partition-key columns)
    from cassandra.query import PreparedStatement, SimpleStatement
    from cassandra.protocol import ColumnMetadata
    from cassandra.cqltypes import BytesType
    for la, lb in itertools.product([0, 1, 255, 256, 32767, 32768, 65535], repeat=2):
        n += 1
        ca, cb = bytes([7]) * la, bytes([9]) * lb
        want = struct.pack('>H', lb) + cb + b'\x00' + struct.pack('>H', la) + ca + b'\x00'
        prep = PreparedStatement([ColumnMetadata('ks', 'tb', 'a', BytesType), ColumnMetadata('ks', 'tb', 'b', BytesType)], b'id', [1, 0], 'q', 'ks', 4, None, None)
        try:
            got = BoundStatement(prep).bind([ca, cb]).routing_key
            s2 = SimpleStatement('q')
            s2.routing_key = [cb, ca]
            got2 = s2.routing_key
        except Exception as e:
            got = got2 = e
        if got != want or got2 != want:
            fails.append('composite routing key with components of %d and %d bytes: %r' % (lb, la, got if isinstance(got, Exception) else 'wrong bytes'))
            break

    class N(object):
        def __init__(self, name):
            self.name, self.keyspace_name, self.table_name = name, 'ks', 'tb'
    for markers, pk in itertools.product([('v', 'b', 'a'), ('a', 'v', 'b'), ('a', 'b'), ('b', 'a', 'v')], [('a', 'b'), ('b', 'a'), ('a',)]):
        class TM(object):
            partition_key = [N(x) for x in pk]

        class KM(object):
            tables = {'tb': TM}

        class CM(object):
            keyspaces = {'ks': KM}
        p = PreparedStatement.from_message(b'id', [N(x) for x in markers], None, CM, 'q', 'ks', 3, None, None)
        n += 1
        want = [markers.index(x) for x in pk]
        if p.routing_key_indexes != want:
            fails.append('from_message markers %s partition key %s: routing_key_indexes %r, expected %r (partition-key order)' % (markers, pk, p.routing_key_indexes, want))
    return {'name': 'binding-enumeration', 'kind': 'bounded', 'cases': n, 'evaluations': n, 'distinct_nontrivial': n, 'rule': 'bind/routing_key/from_message against the property statement with real Int32Type columns',
            'bound': 'all 4^3 marker states x 5 routing index sets x v3/v4 by name; 3 routing keys; 12 marker/partition-key orders', 'violations': fails[:3]}


def replay(model, obligation):
    r = enumerate_bindings('quick', 0)
    return {'reproduced': bool(r['violations']), 'detail': '; '.join(r['violations'][:2]) or 'no disagreement'}
