"""C33 native replay: the real SortedSet / OrderedMap against Python's set / dict on the counter-model's operands and, exhaustively, on every pair of
subsets of a 4-element universe (every operation, every single-element operation, every history of up to 3 mutations after a copy)."""
import itertools
import operator


def _model_sets(model):
    out = {}
    for name in 'abc':
        vals = sorted(int(v) for k, v in model.items() if len(k) == 2 and k[0] == name and k[1].isdigit() and str(v).lstrip('-').isdigit())
        out[name] = sorted(set(vals))
    return out


def replay(model, obligation):
    from cassandra.util import SortedSet, OrderedMap
    fails = []
    U = [0, 1, 2, 3]
    subsets = [list(c) for r in range(len(U) + 1) for c in itertools.combinations(U, r)]
    ms = _model_sets(model)
    pairs = [(ms['a'], ms['b'])] + list(itertools.product(subsets, subsets))
    binary = {'union': set.union, 'intersection': set.intersection, 'difference': set.difference, 'symmetric_difference': set.symmetric_difference,
              '__or__': set.union, '__and__': set.intersection, '__sub__': set.difference, '__xor__': set.symmetric_difference,
              '__ior__': set.union, '__iand__': set.intersection, '__isub__': set.difference, '__ixor__': set.symmetric_difference}
    cmps = {'__eq__': operator.eq, '__ne__': operator.ne, '__lt__': operator.lt, '__le__': operator.le, '__gt__': operator.gt, '__ge__': operator.ge,
            'isdisjoint': lambda x, y: x.isdisjoint(y), 'issubset': lambda x, y: x.issubset(y), 'issuperset': lambda x, y: x.issuperset(y)}

    def lst(s):
        return list(s._items)
    for a, b in pairs:
        for op, f in binary.items():
            x, y = SortedSet(a), SortedSet(b)
            r = getattr(x, op)(y)
            want = sorted(f(set(a), set(b)))
            if lst(r) != want or lst(y) != sorted(b) or (not op.startswith('__i') and lst(x) != sorted(a)):
                fails.append('SortedSet(%r).%s(SortedSet(%r)) = %r (operands afterwards %r, %r); sets give %r' % (a, op, b, lst(r), lst(x), lst(y), want))
        for op, f in cmps.items():
            x, y = SortedSet(a), SortedSet(b)
            if not hasattr(x, op):
                continue
            try:
                got = getattr(x, op)(y)
            except Exception as e:
                got = e
            if got is not NotImplemented and bool(got) != f(set(a), set(b)):
                fails.append('SortedSet(%r).%s(SortedSet(%r)) = %r' % (a, op, b, got))
        if len(fails) > 3:
            break
    # n-ary forms
    for a, b, c in [(ms['a'], ms['b'], ms['c'])] + list(itertools.product(subsets[:8], subsets[:8], subsets[:8])):
        for op, f in (('union', set.union), ('intersection', set.intersection), ('difference', set.difference)):
            r = getattr(SortedSet(a), op)(SortedSet(b), SortedSet(c))
            if lst(r) != sorted(f(set(a), set(b), set(c))):
                fails.append('SortedSet(%r).%s(%r, %r) = %r' % (a, op, b, c, lst(r)))
    # element operations and histories after a copy: the copy and the original are independent
    muts = [('add', v) for v in U] + [('remove', v) for v in U] + [('discard', v) for v in U] + [('pop', None), ('clear', None)]
    for a in subsets:
        for hist in itertools.chain(itertools.product(muts, repeat=1), itertools.product(muts[::3], repeat=2)):
            orig, model_o = SortedSet(a), set(a)
            cp, model_c = orig.copy(), set(a)
            for who in ('copy', 'orig'):
                tgt, mdl = (cp, model_c) if who == 'copy' else (orig, model_o)
                for m, v in hist:
                    if not hasattr(tgt, m):
                        continue
                    try:
                        r = getattr(tgt, m)(v) if v is not None else getattr(tgt, m)()
                        err = None
                    except (KeyError, IndexError) as e:
                        r, err = None, type(e)
                    try:
                        if m == 'pop':
                            want = max(mdl) if mdl else None         # SortedSet.pop removes the last (largest) element
                            if mdl:
                                mdl.discard(want)
                            werr = None if want is not None else IndexError
                            if err is None and r != want:
                                fails.append('SortedSet(%r) after %r: pop() returned %r' % (a, hist, r))
                        else:
                            getattr(mdl, m)(v) if v is not None else getattr(mdl, m)()
                            werr = None
                    except KeyError:
                        werr = KeyError
                    if (err is None) != (werr is None):
                        fails.append('SortedSet(%r).%s(%r) raised %r, a set raises %r' % (a, m, v, err, werr))
                if lst(cp) != sorted(model_c) or lst(orig) != sorted(model_o) or len(orig) != len(model_o) or any((u in orig) != (u in model_o) for u in U):
                    fails.append('SortedSet(%r): after %r on the %s the copy is %r (set: %r) and the original %r (set: %r)' % (a, hist, who, lst(cp), sorted(model_c), lst(orig), sorted(model_o)))
        if len(fails) > 3:
            break
    # construction from any iterable with duplicates, in any order
    for perm in itertools.chain.from_iterable(itertools.permutations(x) for x in ([2, 0, 2, 1], [3, 3], [], [1])):
        if lst(SortedSet(perm)) != sorted(set(perm)):
            fails.append('SortedSet(%r) = %r' % (list(perm), lst(SortedSet(perm))))
    # OrderedMap against an insertion-ordered dict
    for keys in itertools.permutations(['k1', 'k2', 'k3'], 3):
      try:
          om, d = OrderedMap(), {}
          for i, k in enumerate(keys + (keys[0],)):
              om._insert(k, i)
              d[k] = i
          if list(om.items()) != list(d.items()) or len(om) != len(d) or any(om[k] != d[k] for k in d) or om != d:
              fails.append('OrderedMap after inserting %r: %r, a dict gives %r' % (keys + (keys[0],), list(om.items()), list(d.items())))
          del om[keys[1]]
          del d[keys[1]]
          if list(om.items()) != list(d.items()) or keys[1] in om or any(k not in om or om[k] != d[k] for k in d):
              fails.append('OrderedMap after deleting %r: %r, a dict gives %r' % (keys[1], list(om.items()), list(d.items())))
          # every remaining key can still be looked up, replaced and deleted (the position index was kept for all of them)
          for k in list(d):
              try:
                  om._insert(k, 'new')
                  d[k] = 'new'
                  ok = om[k] == 'new' and list(om.items()) == list(d.items())
              except Exception as e:
                  ok = False
              if not ok:
                  fails.append('OrderedMap: after deleting %r the entry %r can no longer be replaced in place: %r' % (keys[1], k, list(om.items())))
                  break
      except Exception as e:
          fails.append('OrderedMap with keys %r: a read or update of an existing entry raised %r' % (keys, e))
    return {'reproduced': bool(fails), 'detail': '; '.join(fails[:3]) or 'no disagreement with set / dict semantics'}
