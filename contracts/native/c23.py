"""C23 postconditions (shared by the symbolic harness and the native replay) + native replay.

Written from the property statement and the documented behaviour of the retry
policies, not from the code.  No z3 import here: runs under /venv/bin/python too.
"""
from pyvc.logic import implies, and_, or_, not_, eq, in_

RETRY, RETHROW, IGNORE, RETRY_NEXT_HOST = 0, 1, 2, 3
ONE, TWO, THREE = 1, 2, 3
SERIAL, LOCAL_SERIAL = 8, 9
BATCH_LOG = 4
CAS = 5

POLICIES = ['RetryPolicy', 'FallthroughRetryPolicy', 'NeverRetryPolicy', 'DowngradingConsistencyRetryPolicy']


def is_retry(d):
    return or_(eq(d, RETRY), eq(d, RETRY_NEXT_HOST))


def replicas_needed(level):
    """Replicas a retry at `level` needs (only ONE/TWO/THREE are ever picked by a downgrade)."""
    return level    # ONE=1, TWO=2, THREE=3 by the protocol's numbering


def well_formed(decision, cl):
    return and_(in_(decision, (RETRY, RETHROW, IGNORE, RETRY_NEXT_HOST)), True if cl is None else and_(cl >= 0, cl <= 10))


def post_default(method, a, decision, cl):
    """Default RetryPolicy: at most one retry of a timeout/unavailable, same consistency, documented conditions."""
    out = [('wellformed', well_formed(decision, cl))]
    keeps = True if cl is None else eq(cl, a['consistency'])
    if method == 'on_request_error':
        # documented: retry on the next host, consistency unchanged (retry_num deliberately ignored)
        out.append(('next-host', and_(eq(decision, RETRY_NEXT_HOST), cl is None)))
        return out
    out.append(('at-most-once', implies(a['retry_num'] != 0, and_(eq(decision, RETHROW), cl is None))))
    out.append(('keeps-consistency', implies(is_retry(decision), keeps)))
    if method == 'on_read_timeout':
        out.append(('documented', eq(decision, RETRY) == and_(a['retry_num'] == 0, a['received'] >= a['required'],
                                                              not_(a['data_retrieved']))))
        out.append(('no-other', or_(eq(decision, RETRY), eq(decision, RETHROW))))
    elif method == 'on_write_timeout':
        out.append(('documented', eq(decision, RETRY) == and_(a['retry_num'] == 0, a['write_type'] == BATCH_LOG)))
        out.append(('no-other', or_(eq(decision, RETRY), eq(decision, RETHROW))))
    elif method == 'on_unavailable':
        out.append(('documented', eq(decision, RETRY_NEXT_HOST) == (a['retry_num'] == 0)))
        out.append(('no-other', or_(eq(decision, RETRY_NEXT_HOST), eq(decision, RETHROW))))
    return out


def post_never(method, a, decision, cl):
    return [('rethrow', and_(eq(decision, RETHROW), cl is None))]


def post_downgrading(method, a, decision, cl):
    out = [('wellformed', well_formed(decision, cl))]
    if method == 'on_request_error':
        return out
    serial = or_(a['consistency'] == SERIAL, a['consistency'] == LOCAL_SERIAL)
    responders = a['alive'] if method == 'on_unavailable' else a['received']
    out.append(('at-most-once', implies(a['retry_num'] != 0, and_(eq(decision, RETHROW), cl is None))))
    if cl is None:
        return out
    downgraded = not_(eq(cl, a['consistency']))
    # never downgrade a serial level
    out.append(('serial-never-downgraded', implies(serial, not_(downgraded))))
    # a downgraded level is one of ONE/TWO/THREE, needs no more replicas than responded / are alive,
    # and is never stronger than what was requested
    out.append(('downgrade-enough-replicas', implies(downgraded, and_(in_(cl, (ONE, TWO, THREE)),
                                                                      replicas_needed(cl) <= responders))))
    out.append(('downgrade-not-stronger', implies(downgraded, replicas_needed(cl) <= a['required'])))
    out.append(('only-retry-carries-level', is_retry(decision)))
    return out


def post(policy, method, a, decision, cl):
    if policy == 'RetryPolicy':
        return post_default(method, a, decision, cl)
    if policy == 'FallthroughRetryPolicy':
        return post_never(method, a, decision, cl)
    if policy == 'NeverRetryPolicy':
        if method == 'on_request_error':
            return post_default(method, a, decision, cl)     # inherited, not part of "never retries timeouts/unavailable"
        return post_never(method, a, decision, cl)
    return post_downgrading(method, a, decision, cl)


def requires(method, a):
    """What a coordinator can report."""
    base = and_(a['consistency'] >= 0, a['consistency'] <= 10, a['retry_num'] >= 0, a['required'] >= 1)
    if method == 'on_read_timeout':
        return and_(base, a['received'] >= 0)
    if method == 'on_write_timeout':
        # a write timeout means fewer acknowledgements than required arrived
        # ... and a serial consistency is only ever reported for the Paxos phase of a lightweight transaction
        # (write type CAS): Cassandra rejects SERIAL/LOCAL_SERIAL as a commit consistency for any other write.
        serial = or_(a['consistency'] == SERIAL, a['consistency'] == LOCAL_SERIAL)
        return and_(base, a['received'] >= 0, a['received'] < a['required'], a['write_type'] >= 0, a['write_type'] <= 7,
                    implies(serial, a['write_type'] == CAS))
    if method == 'on_unavailable':
        return and_(base, a['alive'] >= 0, a['alive'] < a['required'])
    return base


def call_args(method, a, query, error=None):
    if method == 'on_read_timeout':
        return [query, a['consistency'], a['required'], a['received'], a['data_retrieved'], a['retry_num']]
    if method == 'on_write_timeout':
        return [query, a['consistency'], a['write_type'], a['required'], a['received'], a['retry_num']]
    if method == 'on_unavailable':
        return [query, a['consistency'], a['required'], a['alive'], a['retry_num']]
    return [query, a['consistency'], error, a['retry_num']]


def replay(model, obligation):
    """Native replay: call the real policy with the counter-model and evaluate the postcondition."""
    import warnings
    from cassandra import policies
    hname = obligation.split('/')[1]
    policy, method = hname.split('.')
    a = {k: model.get(k, 0) for k in ('consistency', 'required', 'received', 'alive', 'retry_num', 'write_type')}
    a['data_retrieved'] = bool(model.get('data_retrieved', False))
    with warnings.catch_warnings():
        warnings.simplefilter('ignore')
        p = getattr(policies, policy)()
    decision, cl = getattr(p, method)(*call_args(method, a, None, Exception('x')))
    failed = [n for n, c in post(policy, method, a, decision, cl) if not c]
    return {'reproduced': bool(failed), 'detail': '%s.%s(%r) -> (%r, %r); failed clauses: %s' % (policy, method, a, decision, cl, failed)}
