"""C20 native replay."""
import threading
import types
from contracts.native import rf


def replay(model, obligation):
    cl = rf.load_cluster()
    from cassandra.pool import HostConnection
    fails = []
    # session level: error in the first pool, success in the last
    s = cl.Session.__new__(cl.Session)
    s._lock = threading.RLock()
    pending = []

    class Pool(object):
        def __init__(self, host):
            self.host = host

        def _set_keyspace_for_all_conns(self, ks, cb):
            pending.append((self, cb))
    s._pools = {'a': Pool('a'), 'b': Pool('b')}
    done = []
    s._set_keyspace_for_all_pools('ks', done.append)
    pending[0][1](pending[0][0], [Exception('USE failed on a')])
    pending[1][1](pending[1][0], [])
    if len(done) != 1 or not done[0]:
        fails.append('pool a failed, pool b succeeded: completion callback received %r (errors lost)' % (done,))
    # pool level: no connection at the moment
    p = HostConnection.__new__(HostConnection)
    p.is_shutdown, p._connection, p._keyspace = False, None, 'old'
    got = []
    p._set_keyspace_for_all_conns('ks', lambda pool, errs: got.append(errs))
    if len(got) != 1 or p._keyspace != 'ks':
        fails.append('pool without a connection: completion callback ran %d time(s), remembered keyspace %r' % (len(got), p._keyspace))
    # legacy pool: the USE fails on the connection that reports last
    from cassandra.pool import HostConnectionPool
    lp = HostConnectionPool.__new__(HostConnectionPool)
    asked = []

    class C(object):
        def __init__(self, name):
            self.name = name

        def set_keyspace_async(self, ks, cb):
            asked.append((self, cb))
    lp._connections, lp._keyspace, lp._lock = [C('c0'), C('c1')], 'old', threading.RLock()
    lp.return_connection = lambda conn, **k: None
    seen = []
    lp._set_keyspace_for_all_conns('ks', lambda pool, errs: seen.append(list(errs)))
    asked[0][1](asked[0][0], None)
    asked[1][1](asked[1][0], Exception('USE failed on c1'))
    if len(seen) != 1 or len(seen[0]) != 1:
        fails.append('legacy pool, USE fails on the connection that reports last: the completion callback was given %r at the time of the call' % (seen,))
    return {'reproduced': bool(fails), 'detail': '; '.join(fails[:3]) or 'no disagreement'}


def replay_replace(model, obligation):
    """real HostConnection._replace with the session switching keyspace during the new connection's blocking USE"""
    from contracts.native.c12 import Conn, mk_pool
    fails = []
    for when in ('while-opening', 'while-selecting'):
        p = mk_pool(None, [])
        p._keyspace, p._is_replacing, p.is_shutdown = 'ks_old', True, False
        done = []

        def switch():
            if not done:
                done.append('started')
                p._set_keyspace_for_all_conns('ks_new', lambda pool, errs: done.append(list(errs)))

        class NewConn(Conn):
            keyspace = None

            def set_keyspace_blocking(self, ks):
                if when == 'while-selecting':
                    switch()
                self.keyspace = ks

        def factory(ep, **kw):
            if when == 'while-opening':
                switch()
            return NewConn('new')
        p._session.cluster.connection_factory = factory
        old = Conn('old')
        old.is_defunct, old.orphaned_threshold_reached = True, False
        p._replace(old)
        c = p._connection
        if c is None or c.keyspace != 'ks_new' or p._keyspace != 'ks_new' or done[1:] != [[]]:
            fails.append('switch to ks_new %s: reported %r, the pool remembers %r, the published connection is on %r'
                         % (when, done[1:], p._keyspace, getattr(c, 'keyspace', None)))
    return {'reproduced': bool(fails), 'detail': '; '.join(fails[:2]) or 'the replacement connection follows the switch'}


def replay_legacy_add(model, obligation):
    """real HostConnectionPool._add_conn_if_under_max with the session switching keyspace during the new connection's blocking USE / on an empty pool"""
    rf.load_cluster()
    import cassandra.pool as pool_mod
    from cassandra.pool import HostConnectionPool
    from contracts.native.c12 import Conn
    fails = []
    for when, remembered in (('while-selecting', 'ks_old'), ('while-opening', 'ks_old'), ('never', None), ('never', 'stale')):
        lp = HostConnectionPool.__new__(HostConnectionPool)
        done = []

        def switch():
            if not done:
                done.append('started')
                sess.keyspace = 'ks_new'
                lp._set_keyspace_for_all_conns('ks_new', lambda pool, errs: done.append(list(errs)))

        class NewConn(Conn):
            keyspace = None

            def set_keyspace_blocking(self, ks):
                if when == 'while-selecting':
                    switch()
                self.keyspace = ks

            def set_keyspace_async(self, ks, cb):
                self.keyspace = ks
                cb(self, None)

        def factory(ep, **kw):
            if when == 'while-opening':
                switch()
            return NewConn('new')
        sess = types.SimpleNamespace(keyspace='ks_old', cluster=types.SimpleNamespace(connection_factory=factory, get_max_connections_per_host=lambda d: 8,
                                                                                         signal_connection_failure=lambda *a, **k: False))
        lp._session, lp.host, lp.host_distance, lp._lock, lp.is_shutdown = sess, types.SimpleNamespace(endpoint='ep'), 0, threading.RLock(), False
        lp.open_count, lp._connections, lp._keyspace, lp._next_trash_allowed_at = 0, [], remembered, 0
        lp._signal_available_conn = lambda: None
        lp.return_connection = lambda conn, **k: None
        lp._add_conn_if_under_max()
        want = 'ks_old' if when == 'never' else 'ks_new'
        got = [c.keyspace for c in lp._connections]
        if got != [want]:
            fails.append('legacy pool (remembered keyspace %r), switch %s: the published connection is on %r, the session on %r' % (remembered, when, got, sess.keyspace))
    return {'reproduced': bool(fails), 'detail': '; '.join(fails[:2]) or 'the added connection follows the session keyspace'}


def replay_misc(model, obligation):
    """the USE handler of a real Connection, the completion of the USE request, and a pool created after the switch"""
    cl = rf.load_cluster()
    fails = []
    if '/set_keyspace_async-result/' in obligation:
        from cassandra.connection import Connection
        from cassandra.protocol import ResultMessage, InvalidRequestException
        for kind in ('result', 'invalid', 'other'):
            c = Connection.__new__(Connection)
            c.lock, c.in_flight, c.max_request_id, c.keyspace, c.endpoint = threading.RLock(), 0, 100, 'old', 'ep'
            c.get_request_id = lambda: 9
            sent, dead, done = [], [], []
            c.send_msg = lambda q, rid, cb, **kw: sent.append((q, rid, cb))
            c.defunct = lambda exc: dead.append(exc) or exc
            c.set_keyspace_async('newks', lambda conn, err: done.append(err))
            if len(sent) != 1:
                fails.append('set_keyspace_async sent %d messages' % len(sent))
                continue
            if kind == 'result':
                reply = ResultMessage.__new__(ResultMessage)
                reply.kind = 3
            elif kind == 'invalid':
                reply = InvalidRequestException(0x2200, 'no such keyspace', None)
            else:
                reply = Exception('weird')
            sent[0][2](reply)
            ok = len(done) == 1 and ((kind == 'result' and c.keyspace == 'newks' and done == [None]) or
                                     (kind == 'invalid' and c.keyspace == 'old' and done[0] is not None and not dead) or
                                     (kind == 'other' and c.keyspace == 'old' and len(dead) == 1 and done[0] is dead[0]))
            if not ok:
                fails.append('USE answered with %s: keyspace %r, callback got %r, defunct calls %d' % (kind, c.keyspace, done, len(dead)))
    elif '/_set_keyspace_completed/' in obligation:
        from cassandra.connection import ConnectionException
        for errors in ({}, {'h': ['e']}):
            log = []
            h1 = rf.Host('h1')
            f = rf.future(cl, rf.Session(log, {h1: rf.Pool(log, h1)}), [h1])
            got = []
            f.add_callbacks(lambda r: got.append(('result', r)), lambda e: got.append(('error', e)))
            f._set_keyspace_completed(errors)
            ok = len(got) == 1 and ((not errors and got[0] == ('result', None)) or (errors and got[0][0] == 'error' and isinstance(got[0][1], ConnectionException)))
            if not ok:
                fails.append('pools reported %r for the USE: the request completed with %r' % (errors, got))
    elif '/new-pool-gets-session-keyspace/' in obligation:
        from cassandra.pool import HostConnection
        from cassandra.policies import HostDistance
        from contracts.native.c12 import Conn
        opened = []

        def factory(ep, **kw):
            opened.append(Conn('new'))
            opened[-1]._on_orphaned_stream_released = None
            return opened[-1]
        class Sess(object):       # the pool keeps a weak proxy of its session
            keyspace = 'current'
            cluster = types.SimpleNamespace(connection_factory=factory, signal_connection_failure=lambda *a, **k: False)
        sess = Sess()
        hp = HostConnection(types.SimpleNamespace(endpoint='ep'), HostDistance.LOCAL, sess)
        if hp._connection is None or hp._connection.keyspace != 'current' or hp._keyspace != 'current':
            fails.append('a pool created while the session is on keyspace "current": its connection is on %r, the pool remembers %r'
                         % (getattr(hp._connection, 'keyspace', None), hp._keyspace))
    return {'reproduced': bool(fails), 'detail': '; '.join(fails[:2]) or 'no disagreement'}
