"""C20 native replay."""
import threading
import types
from contracts.native import rf


def replay(model, obligation):
    cl = rf.load_cluster()
    from cassandra.pool import HostConnection
    fails = []
    # session level: error in the first pool, success in the last
    s = cl.Session.__new__(cl.Session)
    s._lock = threading.RLock()
    pending = []

    class Pool(object):
        def __init__(self, host):
            self.host = host

        def _set_keyspace_for_all_conns(self, ks, cb):
            pending.append((self, cb))
    s._pools = {'a': Pool('a'), 'b': Pool('b')}
    done = []
    s._set_keyspace_for_all_pools('ks', done.append)
    pending[0][1](pending[0][0], [Exception('USE failed on a')])
    pending[1][1](pending[1][0], [])
    if len(done) != 1 or not done[0]:
        fails.append('pool a failed, pool b succeeded: completion callback received %r (errors lost)' % (done,))
    # pool level: no connection at the moment
    p = HostConnection.__new__(HostConnection)
    p.is_shutdown, p._connection, p._keyspace = False, None, 'old'
    got = []
    p._set_keyspace_for_all_conns('ks', lambda pool, errs: got.append(errs))
    if len(got) != 1 or p._keyspace != 'ks':
        fails.append('pool without a connection: completion callback ran %d time(s), remembered keyspace %r' % (len(got), p._keyspace))
    # legacy pool: the USE fails on the connection that reports last
    from cassandra.pool import HostConnectionPool
    lp = HostConnectionPool.__new__(HostConnectionPool)
    asked = []

    class C(object):
        def __init__(self, name):
            self.name = name

        def set_keyspace_async(self, ks, cb):
            asked.append((self, cb))
    lp._connections, lp._keyspace = [C('c0'), C('c1')], 'old'
    lp.return_connection = lambda conn, **k: None
    seen = []
    lp._set_keyspace_for_all_conns('ks', lambda pool, errs: seen.append(list(errs)))
    asked[0][1](asked[0][0], None)
    asked[1][1](asked[1][0], Exception('USE failed on c1'))
    if len(seen) != 1 or len(seen[0]) != 1:
        fails.append('legacy pool, USE fails on the connection that reports last: the completion callback was given %r at the time of the call' % (seen,))
    return {'reproduced': bool(fails), 'detail': '; '.join(fails[:3]) or 'no disagreement'}
