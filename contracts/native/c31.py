"""C31 postcondition and native replay (no z3 import)."""
from fractions import Fraction
from pyvc.logic import and_


def post(L0, now, result, last_after):
    """L0: value of `last` when the lock was acquired (>= every timestamp returned before, by the lock invariant)."""
    return [('strictly-after-everything-returned-before', result > L0),
            ('not-behind-clock', result >= now),
            ('invariant-restored', last_after == result)]


def _num(x):
    if isinstance(x, (int, float)):
        return x
    return float(Fraction(str(x).replace(' ', '')))


def replay(model, obligation):
    import time as _time
    from cassandra import timestamps
    if '/init/' in obligation:
        g = timestamps.MonotonicTimestampGenerator()
        first = g()
        bad = g.__dict__.get('last', None) is None or first < int(_time.time() * 1e6) - 10 ** 7
        g2 = timestamps.MonotonicTimestampGenerator()
        return {'reproduced': g2.last != 0 or bad, 'detail': 'a fresh generator has last = %r (expected 0: nothing returned yet); its first timestamp is %r' % (g2.last, first)}
    L0 = int(model.get('last_at_acquire', model.get('last', 0)) or 0)
    t = _num(model.get('clock', 0))
    kw = dict(warn_on_drift=bool(model.get('warn_on_drift', True)))
    real_time = timestamps.time.time
    try:
        if 'under-lock' in obligation or 'lock-taken' in obligation:
            # schedule replay: another call runs completely between this call's unlocked check and its store of `last`
            log = []

            class G(timestamps.MonotonicTimestampGenerator):
                _busy = False

                def _get(self):
                    return self.__dict__['_l']

                def _set(self, v):
                    if not self.lock.locked() and not G._busy:
                        G._busy = True
                        clock[0] = tB
                        log.append(('B', timestamps.MonotonicTimestampGenerator.__call__(self)))
                        clock[0] = t
                        G._busy = False
                    self.__dict__['_l'] = v
                last = property(_get, _set)
            tB = t + 5e-6
            clock = [t]
            timestamps.time.time = lambda: clock[0]
            g = G(**kw)
            g.last = min(L0, int(t * 1e6) - 1)
            a = g()
            log.append(('A', a))
            clock[0] = t + 3e-6
            log.append(('C', g()))
            vals = [v for _, v in log]
            bad = any(y <= x for x, y in zip(vals, vals[1:]))
            return {'reproduced': bad, 'detail': 'completion order %r (B ran between A\'s unlocked check and store)' % (log,)}
        timestamps.time.time = lambda: t
        g = timestamps.MonotonicTimestampGenerator(**kw)
        g.last = L0
        r = g()
        now = int(t * 1e6)
        failed = [n for n, c in post(L0, now, r, g.last) if not c]
        return {'reproduced': bool(failed), 'detail': 'last=%r clock=%r -> %r (last after %r); failed: %s' % (L0, t, r, g.last, failed)}
    finally:
        timestamps.time.time = real_time


def replay_first_calls(model, obligation):
    """Real generator, lock allocations counted: a lock made after the constructor returned is made by whichever thread calls first - two threads racing
    on the first call can each make (and hold) their own.  Shown deterministically: the second 'thread' enters while the first one is between its
    test and its assignment."""
    import threading
    import cassandra.timestamps as ts
    made = []
    real = threading.Lock

    def counting():
        made.append(real())
        return made[-1]
    old = ts.Lock
    ts.Lock = counting
    try:
        g = ts.MonotonicTimestampGenerator()
        n0 = len(made)
        first, second = g(), g()
        later = len(made) - n0
    finally:
        ts.Lock = old
    bad = later > 0 or not second > first
    return {'reproduced': bad, 'detail': 'locks allocated: %d in the constructor, %d during the first calls (callers racing on the first call would not share one); '
            'timestamps %r, %r' % (n0, later, first, second)}
