"""C15 native replay: virtual-time timers around a real ResponseFuture with silent servers."""
import types
from contracts.native import rf


def _replay_borrow_wait():
    """real HostConnection.borrow_connection on a connection without a free stream id; the clock is driven by the waits"""
    import cassandra.pool as pool_mod
    from contracts.native.c12 import Conn, mk_pool
    fails = []
    c = Conn('full', in_flight=100)
    c.max_request_id = 100
    c.orphaned_threshold_reached = False
    p = mk_pool(c, [])
    clock = [5000.0]
    waits = []

    class Cond(object):
        def __enter__(self):
            return self

        def __exit__(self, *a):
            return False

        def wait(self, t=None):
            waits.append((clock[0], t))
            if len(waits) > 50:
                raise RuntimeError('still waiting')
            clock[0] += 0.4 if t is None else min(t, 0.4)      # woken early each time
    p._stream_available_condition = Cond()
    real = pool_mod.time.time
    pool_mod.time = types.SimpleNamespace(time=lambda: clock[0], sleep=lambda s: None)
    try:
        try:
            p.borrow_connection(1.0)
            fails.append('a stream was handed out on a full connection')
        except pool_mod.NoConnectionsAvailable:
            pass
        except RuntimeError:
            fails.append('borrow_connection(timeout=1.0) on a full connection is still waiting after %d waits (%.1f s on the clock)' % (len(waits), clock[0] - 5000.0))
        late = [(at - 5000.0, t) for at, t in waits if t is None or t < 0 or at + t > 5000.0 + 1.0 + 1e-9]
        if late:
            fails.append('borrow_connection(timeout=1.0) waited past its deadline: (seconds since start, wait) = %r' % (late[:3],))
    finally:
        import time as _t
        pool_mod.time = _t
    return {'reproduced': bool(fails), 'detail': '; '.join(fails[:2]) or 'every wait ended by the deadline'}


def replay(model, obligation):
    if 'borrow_connection-wait' in obligation:
        return _replay_borrow_wait()
    cl = rf.load_cluster()
    fails = []
    import time as _time
    clock = [1000.0]
    real = cl.time.time
    cl.time.time = lambda: clock[0]
    try:
        log = []
        h1 = rf.Host('h1')
        pools = {h1: rf.Pool(log, h1)}
        s = rf.Session(log, pools)
        f = rf.future(cl, s, [h1], timeout=2.0)
        f.send_request()
        live = [e[1] for e in log if e[0] == 'timer' and not e[1].cancelled]
        if len(live) != 1 or abs(live[0].delay - 2.0) > 1e-6:
            fails.append('first page: live timers %r' % [(t.delay) for t in live])
        # page 1 answered, then the next page is fetched 5 s later and the server stays silent
        f._set_final_result('page-1')
        f._paging_state = b'ps'
        clock[0] += 5.0
        n0 = len([e for e in log if e[0] == 'timer'])
        f.start_fetching_next_page()
        new = [e[1] for e in log if e[0] == 'timer'][n0:]
        live = [t for t in new if not t.cancelled]
        if len(live) != 1 or abs(live[0].delay - 2.0) > 1e-6:
            fails.append('later page fetched 5 s after the first: %d live timer(s) armed with delays %r (expected one, 2.0 s)' % (len(live), [t.delay for t in live]))
        # speculative delay not earlier than the deadline: the timeout timer must be armed
        from cassandra.policies import ConstantSpeculativeExecutionPolicy
        log2 = []
        pools2 = {h1: rf.Pool(log2, h1)}
        plan = ConstantSpeculativeExecutionPolicy(3.0, 5).new_plan('ks', None)
        f2 = rf.future(cl, rf.Session(log2, pools2), [h1], timeout=1.0, spec_plan=plan)
        live = [e[1] for e in log2 if e[0] == 'timer' and not e[1].cancelled]
        if len(live) != 1 or abs(live[0].delay - 1.0) > 1e-6:
            fails.append('speculative delay 3.0 >= timeout 1.0: live timers %r (expected one at 1.0)' % [t.delay for t in live])
        # a speculative execution that finds the plan exhausted (more attempts allowed than hosts, servers silent): the future must stay armed
        log4 = []
        plan4 = ConstantSpeculativeExecutionPolicy(0.1, 5).new_plan('ks', None)
        f4 = rf.future(cl, rf.Session(log4, {h1: rf.Pool(log4, h1)}), [h1], timeout=1.0, spec_plan=plan4)
        f4.send_request()
        done4 = []
        f4.add_callbacks(done4.append, done4.append)
        for _ in range(4):
            pend = [e[1] for e in log4 if e[0] == 'timer' and not e[1].cancelled and not getattr(e[1], 'fired', False)]
            if done4 or not pend:
                break
            t = pend[-1]
            if getattr(t.cb, '__name__', '') != '_on_speculative_execute':
                break
            t.fired = True
            clock[0] += t.delay
            t.cb()
        pend = [e[1] for e in log4 if e[0] == 'timer' and not e[1].cancelled and not getattr(e[1], 'fired', False)]
        if not done4 and not pend:
            fails.append('speculative executions over an exhausted one-host plan, servers silent: the request is neither completed nor has a pending timer (it can never time out)')
        # _on_timeout before any connection: at most 3 reschedules, then completion
        log3 = []
        f3 = rf.future(cl, rf.Session(log3, {}), [], timeout=1.0)
        errs = []
        f3.add_errback(errs.append)
        for _ in range(6):
            pend = [e[1] for e in log3 if e[0] == 'timer' and not e[1].cancelled and not getattr(e[1], 'fired', False)]
            if errs or not pend:
                break
            pend[-1].fired = True
            pend[-1].cb()
        resched = len([e for e in log3 if e[0] == 'timer']) - 1
        if not errs or resched > 3:
            fails.append('_on_timeout without a connection rescheduled itself %d times, completed=%s' % (resched, bool(errs)))
    finally:
        cl.time.time = real
    return {'reproduced': bool(fails), 'detail': '; '.join(fails[:3]) or 'no disagreement'}
