"""C09 native replay: stream-id accounting on a real socket-less Connection + HostConnection + ResponseFuture."""
from contracts.native import rf


def _conn(cl, pv=4):
    from cassandra.connection import Connection

    class C(Connection):
        def __init__(self, protocol_version):
            import collections, threading
            self.protocol_version = protocol_version
            self.orphaned_request_ids = set()
            self._requests = {}
            self._continuous_paging_sessions = {}
            self.lock = threading.RLock()
            self._on_orphaned_stream_released = None
            self.user_type_map, self.decompressor = {}, None
            if protocol_version >= 3:
                self.max_request_id = min(self.max_in_flight - 1, (2 ** 15) - 1)
                initial_size = min(300, self.max_in_flight)
                self.request_ids = collections.deque(range(initial_size))
                self.highest_request_id = initial_size - 1
            else:
                self.max_request_id = min(self.max_in_flight, (2 ** 7) - 1)
                self.request_ids = collections.deque(range(self.max_request_id + 1))
                self.highest_request_id = self.max_request_id
    return C(pv)


def replay(model, obligation):
    cl = rf.load_cluster()
    import inspect, collections
    from cassandra.connection import Connection
    fails = []
    # id-pool set-up as written in the real __init__ (executed through a minimal subclass is not possible without sockets):
    src = inspect.getsource(Connection.__init__)
    for pv in (2, 4):
        ns = {'self': type('S', (), {'max_in_flight': Connection.max_in_flight})(), 'protocol_version': pv, 'deque': collections.deque, 'min': min, 'range': range}
        start = src.index('        if protocol_version >= 3:')
        end = src.index('        self.lock = RLock()')
        import textwrap
        exec(textwrap.dedent(src[start:end]), ns)
        s = ns['self']
        limit = 127 if pv < 3 else 32767
        if s.max_request_id > limit:
            fails.append('protocol v%d: max_request_id %d exceeds the protocol maximum %d' % (pv, s.max_request_id, limit))
    # orphaning must not disturb accounting: timeout for a request that is no longer registered
    log = []
    h1 = rf.Host('h1')
    c = _conn(cl)
    pool = rf.Pool(log, h1)
    pool.conn = c
    orig_borrow = pool.borrow_connection

    def borrow(timeout):
        with c.lock:
            c.in_flight += 1
            return c, c.get_request_id()
    pool.borrow_connection = borrow
    c.send_msg = lambda message, request_id, cb=None, **kw: c._requests.__setitem__(request_id, (cb, None, None)) or 1
    s = rf.Session(log, {h1: pool})
    f = rf.future(cl, s, [h1], timeout=1.0)
    f.send_request()
    rid = f._req_id
    # the response arrives and is processed, then a stale timeout fires
    cb = c._requests.pop(rid)[0]
    with c.lock:
        c.request_ids.append(rid)
        c.in_flight -= 1
    f._on_timeout()
    if rid in c.orphaned_request_ids or c.in_flight != 0:
        fails.append('timeout after the response was processed: orphan set %r, in_flight %d (expected empty, 0)' % (c.orphaned_request_ids, c.in_flight))
    # a late response to an orphaned stream: the slot is given back once, the id leaves the orphan set and returns to the free list once
    from cassandra.connection import _Frame
    c2 = _conn(cl)
    c2.msg_received, c2.is_defunct, c2.is_closed = False, False, False
    sid = c2.get_request_id()
    c2.in_flight = 1
    c2.orphaned_request_ids.add(sid)
    free_before = list(c2.request_ids).count(sid)
    try:
        c2.process_msg(_Frame(version=4, flags=0, stream=sid, opcode=8, body_offset=9, end_pos=9), b'')
    except Exception as e:
        fails.append('late response of an orphaned stream raised %r' % (e,))
    if sid in c2.orphaned_request_ids or c2.in_flight != 0 or list(c2.request_ids).count(sid) != free_before + 1:
        fails.append('late response of orphaned stream %d: orphan set %r, in_flight %d (expected 0), id %d is %d times in the free list (expected once)'
                     % (sid, sorted(c2.orphaned_request_ids), c2.in_flight, sid, list(c2.request_ids).count(sid)))
    # a response for a stream that is neither registered nor orphaned (the request's time-out has taken its handler away and has not yet
    # recorded the stream as orphaned): the frame is dropped, the in-flight count is not this frame's to give back
    c3 = _conn(cl)
    c3.msg_received, c3.is_defunct, c3.is_closed = False, False, False
    sid = c3.get_request_id()
    c3.in_flight = 2
    try:
        c3.process_msg(_Frame(version=4, flags=0, stream=sid, opcode=8, body_offset=9, end_pos=9), b'')
    except Exception as e:
        fails.append('response for an unregistered stream raised %r' % (e,))
    if c3.in_flight != 2:
        fails.append('response for stream %d, which is neither registered nor orphaned, with 2 requests in flight: in_flight is now %d (expected 2: the slot belongs to the '
                     'request that is being timed out and is released when its orphaned stream is answered or the connection ends)' % (sid, c3.in_flight))
    return {'reproduced': bool(fails), 'detail': '; '.join(fails[:3]) or 'no disagreement'}


def replay_tracking(model, obligation):
    """A's first attempt used stream 11; its retry uses stream 22; stream 11 is released and reused by request B.
    A's client timeout must orphan A's own stream (22), not remove B's handler."""
    cl = rf.load_cluster()
    log = []
    h1 = rf.Host('h1')
    pool = rf.Pool(log, h1, ids=[11, 22])
    s = rf.Session(log, {h1: pool})
    a = rf.future(cl, s, [h1], timeout=1.0)
    a.send_request()                                   # stream 11
    conn = pool.conn
    conn._requests.pop(11)                             # server answered with an error: stream 11 is free again
    a._retry_task(True, h1)                            # retry on the same host: stream 22
    conn._requests[11] = ('handler-of-request-B', None, None)     # stream 11 reused by another request
    a._on_timeout()
    lost = 11 not in conn._requests
    return {'reproduced': lost, 'detail': 'after A timed out: handlers registered on the connection %r, orphaned ids %r (A is on stream 22, B on 11)'
            % (sorted(conn._requests), sorted(conn.orphaned_request_ids))}
