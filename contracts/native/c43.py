"""C43 native replay."""
import types
from contracts.native import rf


def replay(model, obligation):
    cl = rf.load_cluster()
    fails = []
    cc = cl.ControlConnection.__new__(cl.ControlConnection)
    hosts = {'p1': types.SimpleNamespace(is_up=True), 'p2': types.SimpleNamespace(is_up=False), 'p3': types.SimpleNamespace(is_up=None)}
    cc._cluster = types.SimpleNamespace(endpoint_factory=types.SimpleNamespace(create=lambda row: row['peer']),
                                        metadata=types.SimpleNamespace(get_host=lambda ep: hosts.get(ep)))
    R = lambda names, rows: types.SimpleNamespace(column_names=names, parsed_rows=rows)
    cases = [
        ([('A', 'p1')], 'A', True), ([('B', 'p1')], 'A', False), ([('B', 'p2')], 'A', True), ([('B', 'unknown')], 'A', True),
        ([('B', 'p3')], 'A', False), ([('A', 'p1'), ('A', 'p3')], 'A', True), ([(None, 'p1')], 'A', True), ([('A', 'p1'), ('B', 'p3')], None, False),
    ]
    for peers, local, want in cases:
        r = cc._get_schema_mismatches(R(['schema_version', 'peer'], peers), R(['schema_version'], [(local,)]), 'local')
        if (r is None) != want:
            fails.append('peers %r local %r: agreement=%s expected %s' % (peers, local, r is None, want))
    if 'KF-C43' in obligation:
        cc2 = cl.ControlConnection.__new__(cl.ControlConnection)
        cc2._cluster = types.SimpleNamespace(is_shutdown=False, metadata=types.SimpleNamespace(refresh=lambda *a, **k: None))
        cc2._schema_meta_enabled, cc2._timeout = False, 2.0
        cc2.wait_for_schema_agreement = lambda *a, **k: True
        fut = types.SimpleNamespace(is_schema_agreed=None, session=None, _set_final_result=lambda r: None)
        cl.refresh_schema_and_set_result(cc2, fut, None)
        if fut.is_schema_agreed is not True:
            fails.append('agreement reached with schema metadata disabled: is_schema_agreed = %r' % (fut.is_schema_agreed,))
    return {'reproduced': bool(fails), 'detail': '; '.join(fails[:3]) or 'no disagreement'}
