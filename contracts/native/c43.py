"""C43 native replay."""
import types
from contracts.native import rf


def replay(model, obligation):
    cl = rf.load_cluster()
    fails = []
    cc = cl.ControlConnection.__new__(cl.ControlConnection)
    hosts = {'p1': types.SimpleNamespace(is_up=True), 'p2': types.SimpleNamespace(is_up=False), 'p3': types.SimpleNamespace(is_up=None)}
    cc._cluster = types.SimpleNamespace(endpoint_factory=types.SimpleNamespace(create=lambda row: row['peer']),
                                        metadata=types.SimpleNamespace(get_host=lambda ep: hosts.get(ep)))
    R = lambda names, rows: types.SimpleNamespace(column_names=names, parsed_rows=rows)
    cases = [
        ([('A', 'p1')], 'A', True), ([('B', 'p1')], 'A', False), ([('B', 'p2')], 'A', True), ([('B', 'unknown')], 'A', True),
        ([('B', 'p3')], 'A', False), ([('A', 'p1'), ('A', 'p3')], 'A', True), ([(None, 'p1')], 'A', True), ([('A', 'p1'), ('B', 'p3')], None, False),
    ]
    for peers, local, want in cases:
        r = cc._get_schema_mismatches(R(['schema_version', 'peer'], peers), R(['schema_version'], [(local,)]), 'local')
        if (r is None) != want:
            fails.append('peers %r local %r: agreement=%s expected %s' % (peers, local, r is None, want))
    if 'KF-C43' in obligation:
        cc2 = cl.ControlConnection.__new__(cl.ControlConnection)
        cc2._cluster = types.SimpleNamespace(is_shutdown=False, metadata=types.SimpleNamespace(refresh=lambda *a, **k: None))
        cc2._schema_meta_enabled, cc2._timeout = False, 2.0
        cc2.wait_for_schema_agreement = lambda *a, **k: True
        fut = types.SimpleNamespace(is_schema_agreed=None, session=None, _set_final_result=lambda r: None)
        cl.refresh_schema_and_set_result(cc2, fut, None)
        if fut.is_schema_agreed is not True:
            fails.append('agreement reached with schema metadata disabled: is_schema_agreed = %r' % (fut.is_schema_agreed,))
    return {'reproduced': bool(fails), 'detail': '; '.join(fails[:3]) or 'no disagreement'}


def replay_discounted(model, obligation):
    """Real Cluster.on_down with down events discounted and one session that still has two open connections to the host."""
    cl = rf.load_cluster()
    import threading
    from cassandra.pool import Host
    from cassandra.policies import SimpleConvictionPolicy, HostDistance
    told = []
    host = Host('127.0.0.1', SimpleConvictionPolicy)
    host.set_up()
    c = cl.Cluster.__new__(cl.Cluster)
    c.is_shutdown = False
    c._discount_down_events = True
    c.profile_manager = types.SimpleNamespace(distance=lambda h: HostDistance.LOCAL, on_down=lambda h: told.append('policies'))
    c.control_connection = types.SimpleNamespace(on_down=lambda h: told.append('control'))
    c.sessions = [types.SimpleNamespace(get_pool_state=lambda: {host: {'open_count': 2}}, on_down=lambda h: told.append('session'))]
    c._listeners, c._listener_lock = set(), threading.Lock()
    c._start_reconnector = lambda h, a: told.append('reconnector')
    fn = getattr(cl.Cluster.on_down, '__wrapped__', None) or cl.Cluster.__dict__['on_down'].__wrapped__
    fn(c, host, False)
    bad = host.is_up is not True or bool(told)
    return {'reproduced': bad, 'detail': 'DOWN signal for a host a session still has 2 open connections to (discounted): is_up=%r afterwards, told %r; a peer that still serves '
            'requests but is marked down is left out of the schema-agreement question' % (host.is_up, told)}


def replay_error_path(model, obligation):
    """real refresh_schema_and_set_result when the schema refresh raises"""
    cl = rf.load_cluster()
    results, submitted = [], []
    cc = types.SimpleNamespace(refresh_schema=lambda **k: None)

    def boom(connection, **k):
        raise Exception('connection lost')
    cc._refresh_schema = boom
    fut = types.SimpleNamespace(is_schema_agreed=False, session=types.SimpleNamespace(submit=lambda fn, *a, **k: submitted.append(fn)),
                                _set_final_result=results.append)
    raised = None
    try:
        cl.refresh_schema_and_set_result(cc, fut, None)
    except Exception as e:
        raised = e
    bad = raised is not None or results != [None] or fut.is_schema_agreed is not False or len(submitted) != 1
    return {'reproduced': bad, 'detail': 'schema refresh fails after a schema change: raised %r, request completed %d times, is_schema_agreed %r, refreshes rescheduled %d'
            % (raised, len(results), fut.is_schema_agreed, len(submitted))}
