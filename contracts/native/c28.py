"""C28 native side (bounded): enumerated type trees, an independent printer for CQL / Cassandra marshal notation, the real parsers."""
import itertools
import os
import random
import sys
sys.path.insert(0, os.path.dirname(os.path.dirname(os.path.dirname(os.path.abspath(__file__)))))

SCALARS = {'int': 'Int32Type', 'text': 'UTF8Type', 'blob': 'BytesType', 'uuid': 'UUIDType', 'boolean': 'BooleanType', 'timestamp': 'TimestampType', 'varint': 'IntegerType', 'double': 'DoubleType'}
P = 'org.apache.cassandra.db.marshal.'


def cql(t, frozen=True):
    k = t[0]
    if k in SCALARS:
        return k
    if k == 'frozen':
        return ('frozen<%s>' % cql(t[1], frozen)) if frozen else cql(t[1], frozen)
    if k == 'list' or k == 'set':
        return '%s<%s>' % (k, cql(t[1], frozen))
    if k == 'map':
        return 'map<%s, %s>' % (cql(t[1], frozen), cql(t[2], frozen))
    if k == 'tuple':
        return 'tuple<%s>' % ', '.join(cql(x, frozen) for x in t[1])
    if k == 'vector':
        return 'vector<%s, %d>' % (cql(t[1], frozen), t[2])
    raise ValueError(t)


def cass(t):
    """Cassandra marshal class descriptor (full names); frozen is FrozenType(...), a udt carries keyspace, hex name and hex field names"""
    k = t[0]
    if k in SCALARS:
        return P + SCALARS[k]
    if k == 'frozen':
        return P + 'FrozenType(%s)' % cass(t[1])
    if k == 'reversed':
        return P + 'ReversedType(%s)' % cass(t[1])
    if k == 'list':
        return P + 'ListType(%s)' % cass(t[1])
    if k == 'set':
        return P + 'SetType(%s)' % cass(t[1])
    if k == 'map':
        return P + 'MapType(%s,%s)' % (cass(t[1]), cass(t[2]))
    if k == 'tuple':
        return P + 'TupleType(%s)' % ','.join(cass(x) for x in t[1])
    if k == 'vector':
        return P + 'VectorType(%s, %d)' % (cass(t[1]), t[2])
    if k == 'udt':
        return P + 'UserType(%s,%s,%s)' % (t[1], t[2].encode().hex(), ','.join('%s:%s' % (n.encode().hex(), cass(x)) for n, x in t[3]))
    raise ValueError(t)


def cql_of_cass(t):
    """the CQL name the driver is expected to print for a type parsed from its marshal descriptor"""
    k = t[0]
    if k in SCALARS:
        return {'text': 'text', 'timestamp': 'timestamp'}.get(k, k)
    if k == 'frozen':
        return 'frozen<%s>' % cql_of_cass(t[1])
    if k == 'reversed':
        return cql_of_cass(t[1])
    if k in ('list', 'set'):
        return '%s<%s>' % (k, cql_of_cass(t[1]))
    if k == 'map':
        return 'map<%s, %s>' % (cql_of_cass(t[1]), cql_of_cass(t[2]))
    if k == 'tuple':
        return 'frozen<tuple<%s>>' % ', '.join(cql_of_cass(x) for x in t[1])
    if k == 'vector':
        return 'org.apache.cassandra.db.marshal.VectorType<%s, %d>' % (cql_of_cass(t[1]), t[2])
    if k == 'udt':
        return 'frozen<%s>' % t[2]
    raise ValueError(t)


def sample(t, rng):
    import uuid
    import datetime
    k = t[0]
    if k in SCALARS:
        return {'int': 7, 'text': 'é', 'blob': b'\x00\x01', 'uuid': uuid.UUID(int=5), 'boolean': True, 'timestamp': datetime.datetime(2020, 1, 2, 3, 4, 5), 'varint': -2 ** 70, 'double': 1.5}[k]
    if k in ('frozen', 'reversed'):
        return sample(t[1], rng)
    if k == 'list':
        return [sample(t[1], rng), sample(t[1], rng)]
    if k == 'set':
        return None          # element hashability / ordering is C01's business: sets are sampled as null
    if k == 'map':
        return None
    if k == 'tuple':
        return tuple(sample(x, rng) for x in t[1])
    if k == 'vector':
        e = sample(t[1], rng)
        return None if e is None else [e for _ in range(t[2])]
    if k == 'udt':
        return tuple(sample(x, rng) for _, x in t[3])
    raise ValueError(t)


def _norm(v):
    """what a decoded sample looks like (tuples and udt values come back as tuples / namedtuples comparing equal to tuples, lists stay lists)"""
    return v


def trees(depth, rng, cql_only):
    if depth == 0:
        return [(s,) for s in SCALARS]
    sub = trees(depth - 1, rng, cql_only)
    pick = lambda n: rng.sample(sub, min(n, len(sub)))
    out = list(trees(0, rng, cql_only))
    for x in pick(40):
        out += [('list', x), ('set', x), ('frozen', ('list', x)), ('frozen', ('frozen', ('set', x))), ('vector', x, rng.choice([1, 3]))]
        if not cql_only:
            out += [('reversed', x)]
    for x, y in zip(pick(30), pick(30)):
        out += [('map', x, y), ('frozen', ('map', x, y)), ('tuple', [x, y]), ('tuple', [x]), ('tuple', [x, y, x])]
        if not cql_only:
            out += [('udt', 'ks1', 'address', [('street', x), ('zip_code', y)]), ('udt', 'ks1', 'Tag', [('v', x)])]
    return out


def type_trees(tier, seed):
    from cassandra import cqltypes as T
    rng = random.Random(seed)
    fails, n, seen = [], 0, set()
    depth = 3 if tier == 'quick' else 4
    # CQL strings: parse / print identity up to whitespace, strip_frozen
    for t in trees(depth, rng, True):
        s = cql(t)
        n += 1
        seen.add(s)
        for variant in (s, s.replace(', ', ','), s.replace('<', '< ').replace(', ', ' ,  ')):
            try:
                back = T.python_to_cqltype(T.cqltype_to_python(variant))
                if back.replace(' ', '') != s.replace(' ', ''):
                    fails.append('python_to_cqltype(cqltype_to_python(%r)) = %r' % (variant, back))
                st = T.strip_frozen(variant)
                if st.replace(' ', '') != cql(t, frozen=False).replace(' ', ''):
                    fails.append('strip_frozen(%r) = %r, expected %r' % (variant, st, cql(t, frozen=False)))
            except Exception as e:
                fails.append('%r: %r' % (variant, e))
        if len(fails) > 3:
            break
    # Cassandra marshal descriptors: parse, same CQL name, print back and re-parse to the same class name, same codec on a sample value
    for t in trees(depth, rng, False):
        d = cass(t)
        n += 1
        seen.add(d)
        try:
            cls = T.lookup_casstype(d)
            name = cls.cql_parameterized_type()
            if 'ReversedType' not in d and name.replace(' ', '') != cql_of_cass(t).replace(' ', ''):      # a reversed (clustering order) wrapper is unwrapped by the metadata code, not by the printer
                fails.append('lookup_casstype(%r).cql_parameterized_type() = %r, expected %r' % (d, name, cql_of_cass(t)))
            cls2 = T.lookup_casstype(d)
            if 'VectorType' not in d and 'UserType' not in d:
                # printing the descriptor back is not part of the property (VectorType / UserType.cass_parameterized_type omit the subtype / the names); where it is printed it must re-parse to the same type
                d2 = cls.cass_parameterized_type(full=True)
                cls2 = T.lookup_casstype(d2)
                if cls2.cass_parameterized_type(full=True) != d2 or cls2.cql_parameterized_type() != name:
                    fails.append('descriptor %r re-parses to %r / %r' % (d2, cls2.cass_parameterized_type(full=True), cls2.cql_parameterized_type()))
            v = sample(t, rng)
            if v is not None:
                b1, b2 = cls.serialize(v, 4), cls2.serialize(v, 4)
                if b1 != b2 or cls2.deserialize(b1, 4) != cls.deserialize(b1, 4) or cls.deserialize(b1, 4) != _norm(v):
                    fails.append('type %r: value %r encodes to %r / %r and decodes to %r' % (d, v, b1, b2, cls.deserialize(b1, 4)))
        except Exception as e:
            fails.append('%r: %r' % (d, e))
        if len(fails) > 3:
            break
    return {'name': 'type-trees', 'kind': 'bounded', 'cases': n, 'evaluations': n, 'distinct_nontrivial': len([x for x in seen if '<' in x or '(' in x]),
            'samples': sorted(seen, key=len)[-3:], 'rule': 'distinct = distinct type strings; non-trivial = parameterized (not a bare scalar). CQL string -> python list -> CQL string is the identity up to whitespace; strip_frozen removes exactly the frozen wrappers; marshal descriptor -> class -> descriptor -> class keeps CQL name and codec',
            'bound': '%d type trees of depth <= %d (random sub-tree sampling at each level) over 8 scalars and list/set/map/tuple/frozen/vector/udt/reversed, three whitespace variants each' % (n, depth),
            'violations': fails[:3]}


def replay(model, obligation):
    r = type_trees('quick', 0)
    fails = list(r['violations'])
    from cassandra import cqltypes as T
    for s, want in (('frozen<frozen<list<int>>>', 'list<int>'), ('map<int, frozen<frozen<set<text>>>>', 'map<int, set<text>>')):
        if T.strip_frozen(s) != want:
            fails.append('strip_frozen(%r) = %r' % (s, T.strip_frozen(s)))
    return {'reproduced': bool(fails), 'detail': '; '.join(fails[:2]) or 'no disagreement'}
