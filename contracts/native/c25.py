"""C25 native replay: real Cluster.on_up/on_down/_start_reconnector and _ReconnectionHandler.run over stubs."""
import threading
import types


def replay(model, obligation):
    from contracts.native import rf
    cl = rf.load_cluster()
    from cassandra.pool import Host, _HostReconnectionHandler
    from cassandra.policies import HostDistance
    from cassandra.connection import DefaultEndPoint
    fails = []
    log = []

    def sink(name):
        class S(object):
            def __getattr__(self, ev):
                if ev.startswith('on_'):
                    return lambda *a, **k: log.append(name + '.' + ev)
                raise AttributeError(ev)
        return S()
    host = Host(DefaultEndPoint('10.0.0.1'), lambda h: types.SimpleNamespace(reset=lambda: None, add_failure=lambda e: True))
    sched = types.SimpleNamespace(schedule=lambda delay, fn, *a, **k: log.append(('schedule', delay, fn)))
    c = cl.Cluster.__new__(cl.Cluster)
    c.is_shutdown, c.sessions, c._listeners, c._listener_lock = False, set(), set([sink('listener')]), threading.Lock()
    c.profile_manager = sink('policies')
    c.profile_manager.distance = lambda h: HostDistance.LOCAL
    c.control_connection, c.scheduler = sink('control'), sched
    c.reconnection_policy = types.SimpleNamespace(new_schedule=lambda: iter([1.0, 2.0]))
    c._make_connection_factory = lambda h, *a, **k: (lambda: None)
    c._prepare_all_queries = lambda h: None
    c._discount_down_events = False
    if 'signal_connection_failure' in obligation:
        for verdict in (True, False):
            for addition in (False, True):
                for expect in (None, False, True):
                    h2 = Host(DefaultEndPoint('10.0.0.2'), lambda h: types.SimpleNamespace(reset=lambda: None, add_failure=lambda e: verdict))
                    seen = []
                    c.on_down = lambda h, is_host_addition, expect_host_to_be_down=False: seen.append((h, is_host_addition, expect_host_to_be_down))
                    r = c.signal_connection_failure(h2, Exception('x'), addition) if expect is None else \
                        c.signal_connection_failure(h2, Exception('x'), addition, expect_host_to_be_down=expect)
                    want = [(h2, addition, bool(expect))] if verdict else []
                    if r is not verdict or seen != want:
                        fails.append('conviction %s, is_host_addition=%s, expect_host_to_be_down=%r: returned %r, on_down called with %r'
                                     % (verdict, addition, expect, r, [x[1:] for x in seen]))
        return {'reproduced': bool(fails), 'detail': '; '.join(fails[:2]) or 'down handling runs exactly when the host is convicted, with the caller\'s flags'}
    if 'on_up' in obligation:
        host.is_up = False
        c.on_up(host)
        if not host.is_up or log.count('listener.on_up') != 1:
            fails.append('on_up with no session: host up=%s, listeners told %d times' % (host.is_up, log.count('listener.on_up')))
    if '_start_reconnector' in obligation or 'on_down' in obligation:
        old = types.SimpleNamespace(cancelled=False)
        old.cancel = lambda: setattr(old, 'cancelled', True)
        host._reconnection_handler = old
        c._start_reconnector(host, False)
        if not old.cancelled:
            fails.append('_start_reconnector left the previous reconnection series running next to the new one')
    if 'reconnection-handler' in obligation:
        for delay in (2.0, 0, 0.0):
            l2 = []
            h = _HostReconnectionHandler(host, lambda: (_ for _ in ()).throw(Exception('down')), False, None, None,
                                         types.SimpleNamespace(schedule=lambda d, fn: l2.append(d)), iter([delay]), lambda **k: None, new_handler=None)
            h.run()
            if l2 != [delay]:
                fails.append('failed attempt with next delay %r: scheduled %r' % (delay, l2))
    return {'reproduced': bool(fails), 'detail': '; '.join(fails[:3]) or 'no disagreement'}
