"""C12/C13 native replay on the real HostConnection with socket-less connections."""
import threading
import types
from contracts.native import rf


class Conn(object):
    def __init__(self, name, in_flight=0, orphans=()):
        self.name = name
        self.lock = threading.RLock()
        self.in_flight = in_flight
        self.orphaned_request_ids = set(orphans)
        self.orphaned_threshold_reached = False
        self.is_closed = self.is_defunct = self.signaled_error = False
        self.max_request_id = 100
        self.keyspace = None
        self.closed_with = []

    def close(self):
        self.closed_with.append((self.in_flight, len(self.orphaned_request_ids)))
        self.is_closed = True

    def set_keyspace_blocking(self, ks):
        self.keyspace = ks


def mk_pool(conn, opened, hook=None):
    rf.load_cluster()
    from cassandra.pool import HostConnection
    p = HostConnection.__new__(HostConnection)

    def factory(endpoint, **kw):
        if hook:
            hook()
        c = Conn('new')
        opened.append(c)
        return c
    sess = types.SimpleNamespace(cluster=types.SimpleNamespace(connection_factory=factory, signal_connection_failure=lambda *a, **k: False,
                                                               on_down=lambda *a, **k: None), keyspace=None, submit=lambda fn, *a, **k: None)
    p.host = types.SimpleNamespace(endpoint='ep')
    p.host_distance, p._session = 0, sess
    p._lock = threading.Lock()
    p._stream_available_condition = threading.Condition(p._lock)
    p._is_replacing, p._trash, p._connection, p._keyspace = False, set(), conn, None
    return p


def replay(model, obligation):
    fails = []
    # shutdown must close trashed connections
    opened = []
    cur, t1 = Conn('current'), Conn('trashed', in_flight=2)
    p = mk_pool(cur, opened)
    p._trash = {t1}
    p.shutdown()
    if not t1.is_closed or not cur.is_closed:
        fails.append('after shutdown(): current closed=%s, trashed connection closed=%s' % (cur.is_closed, t1.is_closed))
    opened = []
    t2 = Conn('trashed', in_flight=2)
    p = mk_pool(None, opened)
    p._trash = {t2}
    p.shutdown()
    if not t2.is_closed:
        fails.append('after shutdown() of a pool without a current connection: trashed connection closed=%s' % t2.is_closed)
    # _replace interleaved with shutdown
    if 'shutdown-during-open' in obligation or '_replace' in obligation:
        opened = []
        old = Conn('old')
        p = mk_pool(old, opened, hook=lambda: p.shutdown())
        p._is_replacing = True
        p._replace(old)
        leaked = [c for c in opened if not c.is_closed]
        if leaked:
            fails.append('shutdown() during _replace: the new connection is installed and left open (pool shut down=%s)' % p.is_shutdown)
    return {'reproduced': bool(fails), 'detail': '; '.join(fails[:3]) or 'no disagreement'}
