"""C08 native replay / bounded helpers (no z3 import)."""
import hashlib
from spec import murmur3_spec as S


def md5_token_spec(key):
    if isinstance(key, str):
        key = key.encode('utf-8')
    d = hashlib.md5(key).digest()
    return abs(int.from_bytes(d, 'big', signed=True))     # new BigInteger(md5).abs()


def replay(model, obligation):
    from cassandra import murmur3, metadata
    import random
    r = random.Random(7)
    fails = []
    # concrete search of the top-level postcondition around the counter-model's shape
    tail_len = int(model.get('choice_tail_len', 0) or 0)
    for n in sorted({tail_len, tail_len + 16, 9, 15, 16, 31, 33}):
        for _ in range(40):
            d = bytes(r.choice([r.randrange(256), 0x80, 0xff, 0x7f]) for _ in range(n))
            if murmur3._murmur3(d) != S.hash3_x64_128_h1(d):
                fails.append('murmur3(%s) = %d, Cassandra %d' % (d.hex(), murmur3._murmur3(d), S.hash3_x64_128_h1(d)))
            if metadata.Murmur3Token.hash_fn(d) != S.murmur3_token(d):
                fails.append('Murmur3Token.hash_fn(%s) differs' % d.hex())
    for i in range(2000):
        k = b'k%d' % i
        if metadata.MD5Token.hash_fn(k) != md5_token_spec(k):
            fails.append('MD5Token.hash_fn(%r) = %d, RandomPartitioner %d' % (k, metadata.MD5Token.hash_fn(k), md5_token_spec(k)))
    for x in (0, 1, -1, 2 ** 63, -2 ** 63 - 1, 2 ** 64 + 5, -2 ** 64 - 5, 2 ** 63 - 1, -2 ** 63):
        exp = ((x + 2 ** 63) % 2 ** 64) - 2 ** 63
        if murmur3.truncate_int64(x) != exp:
            fails.append('truncate_int64(%d) = %d, expected %d' % (x, murmur3.truncate_int64(x), exp))
    return {'reproduced': bool(fails), 'detail': '; '.join(fails[:3]) or 'concrete search found no disagreement with Cassandra\'s hash'}
