"""C08 native replay / bounded helpers (no z3 import)."""
import hashlib
from spec import murmur3_spec as S


def md5_token_spec(key):
    if isinstance(key, str):
        key = key.encode('utf-8')
    d = hashlib.md5(key).digest()
    return abs(int.from_bytes(d, 'big', signed=True))     # new BigInteger(md5).abs()


def replay(model, obligation):
    from cassandra import murmur3, metadata
    import random
    r = random.Random(7)
    fails = []
    # concrete search of the top-level postcondition around the counter-model's shape
    tail_len = int(model.get('choice_tail_len', 0) or 0)
    for n in sorted({tail_len, tail_len + 16, 9, 15, 16, 31, 33}):
        for _ in range(40):
            d = bytes(r.choice([r.randrange(256), 0x80, 0xff, 0x7f]) for _ in range(n))
            if murmur3._murmur3(d) != S.hash3_x64_128_h1(d):
                fails.append('murmur3(%s) = %d, Cassandra %d' % (d.hex(), murmur3._murmur3(d), S.hash3_x64_128_h1(d)))
            if metadata.Murmur3Token.hash_fn(d) != S.murmur3_token(d):
                fails.append('Murmur3Token.hash_fn(%s) differs' % d.hex())
    for i in range(2000):
        k = b'k%d' % i
        if metadata.MD5Token.hash_fn(k) != md5_token_spec(k):
            fails.append('MD5Token.hash_fn(%r) = %d, RandomPartitioner %d' % (k, metadata.MD5Token.hash_fn(k), md5_token_spec(k)))
    for x in (0, 1, -1, 2 ** 63, -2 ** 63 - 1, 2 ** 64 + 5, -2 ** 64 - 5, 2 ** 63 - 1, -2 ** 63):
        exp = ((x + 2 ** 63) % 2 ** 64) - 2 ** 63
        if murmur3.truncate_int64(x) != exp:
            fails.append('truncate_int64(%d) = %d, expected %d' % (x, murmur3.truncate_int64(x), exp))
    return {'reproduced': bool(fails), 'detail': '; '.join(fails[:3]) or 'concrete search found no disagreement with Cassandra\'s hash'}


def replay_helpers(model, obligation):
    """rotl64 / fmix of the real module at the counter-model's operand (and at operands congruent to it modulo 2**64: the callers pass ints that
    are not reduced), against the 64-bit reference."""
    from cassandra import murmur3
    M = 2 ** 64
    fails = []

    def val(name):
        v = model.get(name, 0)
        try:
            return int(v, 0) if isinstance(v, str) else int(v)
        except (TypeError, ValueError):
            return 0
    if '/rotl64/' in obligation:
        x0 = val('x') % M
        for x in (x0, x0 - M, x0 + M, 1, M - 1, 0x8000000000000001):
            for r in (27, 31, 33):
                want = ((x % M) << r | (x % M) >> (64 - r)) % M
                got = murmur3.rotl64(x, r) % M
                if got != want:
                    fails.append('rotl64(%#x, %d) = %#x in the low 64 bits, a 64-bit rotation gives %#x' % (x, r, got, want))
    else:
        k0 = val('k') % M
        for k in (k0, k0 - M, k0 + M, 1, M - 1, 0x8000000000000001, 0xdeadbeefcafebabe):
            want = S._fmix(k % M)
            got = murmur3.fmix(k) % M
            if got != want % M:
                fails.append('fmix(%#x) = %#x in the low 64 bits, MurmurHash3 fmix64 gives %#x' % (k, got, want % M))
    return {'reproduced': bool(fails), 'detail': '; '.join(fails[:3]) or 'no disagreement with the 64-bit reference at the model operand'}
