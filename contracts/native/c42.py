"""C42: scenario builder + oracle shared by the contract harness and the native replay (no z3 here)."""
import types

KINDS = ['valid', 'no-address', 'no-host_id', 'no-dc', 'no-rack', 'empty-tokens', 'dup-of-control', 'dup-of-previous']
CONTROL = '10.0.0.100'
PEER_COLS = ['peer', 'rpc_address', 'host_id', 'data_center', 'rack', 'tokens', 'release_version']
LOCAL_COLS = ['cluster_name', 'partitioner', 'tokens', 'data_center', 'rack', 'host_id', 'rpc_address', 'release_version']


def build(pick, max_peers=2, vary=('kinds', 'known', 'stale', 'local')):
    """Returns a scenario: rows of system.peers / system.local and the hosts known before the refresh."""
    s = types.SimpleNamespace()
    s.token_meta = pick('token_meta_enabled', [True, False]) if 'tokmeta' in vary else True
    n = pick('peers', list(range(max_peers + 1)))
    s.peers = []
    s.known = {}          # address -> (dc, rack) known before
    for i in range(n):
        kind = pick('peer%d_kind' % i, KINDS) if 'kinds' in vary else 'valid'
        addr = '10.0.0.%d' % (i + 1)
        if kind == 'dup-of-control':
            addr = CONTROL
        elif kind == 'dup-of-previous':
            addr = s.peers[i - 1]['rpc_address'] if i else CONTROL
        row = dict(peer=addr, rpc_address=addr, host_id='id-%d' % i, data_center='dc1', rack='r%d' % i, tokens=['%d' % (100 * (i + 1))],
                   release_version='4.0')
        if kind == 'no-address':
            row['peer'] = row['rpc_address'] = None
        elif kind == 'no-host_id':
            row['host_id'] = None
        elif kind == 'no-dc':
            row['data_center'] = None
        elif kind == 'no-rack':
            row['rack'] = None
        elif kind == 'empty-tokens':
            row['tokens'] = []
        if not s.token_meta:
            del row['tokens']
        row['kind'] = kind
        s.peers.append(row)
        if kind not in ('dup-of-control', 'dup-of-previous'):
            before = pick('peer%d_before' % i, ['unknown', 'known-same-location', 'known-other-dc', 'known-other-rack'] if 'loc' in vary
                          else ['unknown', 'known-same-location']) if 'known' in vary else 'known-same-location'
            if before != 'unknown':
                s.known['10.0.0.%d' % (i + 1)] = {'known-same-location': ('dc1', 'r%d' % i), 'known-other-dc': ('dcX', 'r%d' % i),
                                                   'known-other-rack': ('dc1', 'rX')}[before]
    if 'stale' in vary and pick('stale_host_known', [False, True]):
        s.known['10.0.0.99'] = ('dc1', 'r9')
    s.local_present = pick('local_row_present', [True, False]) if 'local' in vary else True
    s.local_partitioner = pick('local_partitioner', ['org.apache.cassandra.dht.Murmur3Partitioner', None]) if 'partitioner' in vary \
        else 'org.apache.cassandra.dht.Murmur3Partitioner'
    s.control_before = pick('control_before', ['known-same-location', 'known-other-dc']) if 'loc' in vary else 'known-same-location'
    s.known[CONTROL] = ('dc1', 'rc') if s.control_before == 'known-same-location' else ('dcX', 'rc')
    s.local_row = dict(cluster_name='c', partitioner=s.local_partitioner, tokens=['0'], data_center='dc1', rack='rc', host_id='id-c',
                       rpc_address=CONTROL, release_version='4.0')
    if not s.token_meta:
        del s.local_row['tokens']
    s.force = pick('force_token_rebuild', [False, True]) if 'force' in vary else False
    s.first_build = pick('token_map_never_built', [False, True]) if 'force' in vary else False
    return s


def valid(row):
    return bool((row.get('rpc_address') or row.get('peer')) and row.get('host_id') and row.get('data_center') and row.get('rack')
                and ('tokens' not in row or row.get('tokens')))


def oracle(s):
    """What the property statement demands, computed from the snapshot only."""
    o = types.SimpleNamespace()
    seen = [CONTROL]
    o.rows_used = []
    for row in s.peers:
        if not valid(row):
            continue
        addr = row.get('rpc_address') or row.get('peer')
        if addr in seen:
            continue
        seen.append(addr)
        o.rows_used.append(row)
    o.hosts = set(seen)
    o.announced = sorted(a for a in o.hosts if a not in s.known)
    o.removed = sorted(a for a in s.known if a not in o.hosts)
    o.relocated = sorted([r['rpc_address'] for r in o.rows_used if r['rpc_address'] in s.known and
                          s.known[r['rpc_address']] != (r['data_center'], r['rack'])] +
                         ([CONTROL] if s.local_present and s.known[CONTROL] != ('dc1', 'rc') else []))
    o.location = {r['rpc_address']: (r['data_center'], r['rack']) for r in o.rows_used}
    o.location[CONTROL] = ('dc1', 'rc') if s.local_present else s.known[CONTROL]
    o.partitioner = s.local_partitioner if s.local_present else None
    o.membership_changed = bool(o.announced or o.removed)
    o.must_rebuild = bool(o.partitioner and (o.membership_changed or s.force or s.first_build))
    o.token_map = {}
    if o.partitioner and s.token_meta:
        o.token_map[CONTROL] = ['0']
        for r in o.rows_used:
            o.token_map[r['rpc_address']] = r['tokens']
    return o


def replay(model, obligation):
    from contracts.native import rf
    cl = rf.load_cluster()
    from cassandra.connection import DefaultEndPoint
    from cassandra.metadata import Metadata
    from cassandra.pool import Host
    import re
    hname = obligation.split('/')[1]
    cfg = CONFIGS.get(hname, CONFIGS['membership'])

    def pick(name, options):
        return options[model.get('choice_' + name, 0)]
    s = build(pick, **cfg)
    o = oracle(s)
    log = []
    md = Metadata()
    md.partitioner = None if s.first_build else 'org.apache.cassandra.dht.Murmur3Partitioner'
    rebuilt = []
    md.rebuild_token_map = lambda p, tm: rebuilt.append((p, {h.endpoint.address: t for h, t in tm.items()}))
    for addr, (dc, rack) in s.known.items():
        md.add_or_return_host(Host(DefaultEndPoint(addr, 9042), lambda h: None, dc, rack))
    pm = types.SimpleNamespace(on_down=lambda h: log.append(('lbp-down', h.endpoint.address, (h.datacenter, h.rack))),
                               on_up=lambda h: log.append(('lbp-up', h.endpoint.address, (h.datacenter, h.rack))))
    cluster = types.SimpleNamespace(metadata=md, conviction_policy_factory=lambda h: None, profile_manager=pm,
                                    endpoint_factory=types.SimpleNamespace(create=lambda row: DefaultEndPoint(row.get('rpc_address') or row.get('peer'), 9042)),
                                    on_add=lambda h, refresh_nodes=True: log.append(('announce', h.endpoint.address)),
                                    on_remove=lambda h: log.append(('remove', h.endpoint.address)))
    cluster.add_host = types.MethodType(cl.Cluster.add_host, cluster)
    cluster.remove_host = types.MethodType(cl.Cluster.remove_host, cluster)
    cc = cl.ControlConnection.__new__(cl.ControlConnection)
    cc._cluster, cc._token_meta_enabled, cc._timeout = cluster, s.token_meta, 2.0
    conn = types.SimpleNamespace(endpoint=DefaultEndPoint(CONTROL, 9042))
    R = lambda cols, rows: types.SimpleNamespace(column_names=cols, parsed_rows=[tuple(r.get(c) for c in cols) for r in rows])
    pcols = [c for c in PEER_COLS if s.token_meta or c != 'tokens']
    lcols = [c for c in LOCAL_COLS if s.token_meta or c != 'tokens']
    cc._refresh_node_list_and_token_map(conn, preloaded_results=[R(pcols, s.peers), R(lcols, [s.local_row] if s.local_present else [])],
                                        force_token_rebuild=s.force)
    fails = []
    hosts = set(h.endpoint.address for h in md.all_hosts())
    if hosts != o.hosts:
        fails.append('known hosts %s, expected %s' % (sorted(hosts), sorted(o.hosts)))
    if sorted(e[1] for e in log if e[0] == 'announce') != o.announced:
        fails.append('announced %s, expected %s' % ([e[1] for e in log if e[0] == 'announce'], o.announced))
    if sorted(e[1] for e in log if e[0] == 'remove') != o.removed:
        fails.append('removed %s, expected %s' % ([e[1] for e in log if e[0] == 'remove'], o.removed))
    for a in o.relocated:
        if a in hosts and (('lbp-down', a, s.known[a]) not in log or ('lbp-up', a, o.location[a]) not in log):
            fails.append('location change of %s not delivered to the policies as down(old)/up(new): %s' % (a, [e for e in log if e[1] == a]))
    if o.must_rebuild and [r for r in rebuilt] != [(o.partitioner, o.token_map)]:
        fails.append('token map rebuilds %s, expected one with %s' % (rebuilt, o.token_map))
    if 'KF-C42' in obligation:
        # tokens of a known host change, membership unchanged
        log[:] = []
        del rebuilt[:]
        md2 = md
        md2.partitioner = 'org.apache.cassandra.dht.Murmur3Partitioner'
        rows = [dict(peer='10.0.0.1', rpc_address='10.0.0.1', host_id='id-0', data_center='dc1', rack='r0', tokens=['100'], release_version='4.0')]
        for h in list(md2.all_hosts()):
            md2.remove_host(h)
        md2.add_or_return_host(Host(DefaultEndPoint(CONTROL, 9042), lambda h: None, 'dc1', 'rc'))
        md2.add_or_return_host(Host(DefaultEndPoint('10.0.0.1', 9042), lambda h: None, 'dc1', 'r0'))
        local = dict(s.local_row, partitioner='org.apache.cassandra.dht.Murmur3Partitioner', tokens=['0'])
        cc._token_meta_enabled = True
        cc._refresh_node_list_and_token_map(conn, preloaded_results=[R(PEER_COLS, rows), R(LOCAL_COLS, [local])])
        rows[0]['tokens'] = ['777']
        del rebuilt[:]
        cc._refresh_node_list_and_token_map(conn, preloaded_results=[R(PEER_COLS, rows), R(LOCAL_COLS, [local])])
        if not rebuilt:
            fails.append('tokens of 10.0.0.1 changed from [100] to [777] with unchanged membership: token map not rebuilt')
    return {'reproduced': bool(fails), 'detail': '; '.join(fails[:3]) or 'no disagreement'}


CONFIGS = {
    'membership': dict(max_peers=2, vary=('kinds', 'known', 'stale', 'local')),
    'membership[3-peers]': dict(max_peers=3, vary=('kinds', 'known')),
    'location': dict(max_peers=2, vary=('known', 'loc', 'local')),
    'token-map': dict(max_peers=2, vary=('known', 'stale', 'force', 'partitioner', 'tokmeta', 'local')),
}
