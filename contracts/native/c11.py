"""C11 native side (bounded, E-ASYNCIO probe): several threads push through the real AsyncioConnection.push / _push_msg / handle_write on a real event loop over a socket pair."""
import os
import sys
sys.path.insert(0, os.path.dirname(os.path.dirname(os.path.dirname(os.path.abspath(__file__)))))


def threads_on_a_real_loop(tier, seed):
    import asyncio
    import random
    import socket
    import threading
    from cassandra.io.asyncioreactor import AsyncioConnection
    rng = random.Random(seed)
    fails, n = [], 0
    rounds = 3 if tier == 'quick' else 20
    for rnd in range(rounds):
        loop = asyncio.new_event_loop()
        t = threading.Thread(target=loop.run_forever, daemon=True)
        t.start()
        a, b = socket.socketpair()
        a.setblocking(False)
        c = object.__new__(AsyncioConnection)
        c._loop, c._loop_thread, c._socket, c.out_buffer_size, c.is_defunct = loop, t, a, 4096, False

        async def mk():
            c._write_queue = asyncio.Queue()
            c._write_queue_lock = asyncio.Lock()
        asyncio.run_coroutine_threadsafe(mk(), loop).result(5)
        writer = asyncio.run_coroutine_threadsafe(c.handle_write(), loop)
        nthreads, per = 3, 50
        sizes = [1, 10, 4095, 4096, 4097, 8191, 8192, 8193, 12000]
        msgs = {tid: [bytes([tid]) + i.to_bytes(2, 'big') + bytes([tid]) * (rng.choice(sizes) - 1) for i in range(per)] for tid in range(nthreads)}
        total = sum(len(m) for ms in msgs.values() for m in ms)
        received = bytearray()

        def reader():
            b.settimeout(5)
            try:
                while len(received) < total:
                    chunk = b.recv(1 << 16)
                    if not chunk:
                        break
                    received.extend(chunk)
            except socket.timeout:
                pass
        rt = threading.Thread(target=reader)
        rt.start()
        ths = [threading.Thread(target=lambda tid=tid: [c.push(m) for m in msgs[tid]]) for tid in range(nthreads)]
        for th in ths:
            th.start()
        for th in ths:
            th.join()
        rt.join()
        # pushes made ON the loop thread (reactor callbacks do this): a multi-chunk message followed by a small one must stay in that order
        tail_msgs = [b'\xfe' * 9000, b'\xfd' * 10, b'\xfc' * 4097, b'\xfb']
        got_tail = bytearray()

        def tail_reader():
            b.settimeout(5)
            try:
                while len(got_tail) < sum(map(len, tail_msgs)):
                    ch = b.recv(1 << 16)
                    if not ch:
                        break
                    got_tail.extend(ch)
            except socket.timeout:
                pass
        tr = threading.Thread(target=tail_reader)
        tr.start()
        loop.call_soon_threadsafe(lambda: [c.push(m) for m in tail_msgs])
        tr.join()
        n += len(tail_msgs)
        if bytes(got_tail) != b''.join(tail_msgs):
            fails.append('round %d: messages pushed from the loop thread arrived reordered or damaged (%d of %d bytes, first differing offset %d)' % (
                rnd, len(got_tail), sum(map(len, tail_msgs)), next((i for i, (x, y) in enumerate(zip(got_tail, b''.join(tail_msgs))) if x != y), min(len(got_tail), sum(map(len, tail_msgs))))))
        writer.cancel()
        loop.call_soon_threadsafe(loop.stop)
        t.join(2)
        a.close()
        b.close()
        n += nthreads * per
        # split the stream back into messages: each starts with (thread id, 2-byte sequence number) and continues with thread-id bytes
        data = bytes(received)
        if len(data) != total:
            fails.append('round %d: %d bytes pushed, %d reached the socket' % (rnd, total, len(data)))
            continue
        pos, nxt = 0, {tid: 0 for tid in range(nthreads)}
        ok = True
        while pos < len(data) and ok:
            tid = data[pos]
            if tid not in nxt or nxt[tid] >= per:
                ok = False
                break
            m = msgs[tid][nxt[tid]]
            if data[pos:pos + len(m)] != m:
                ok = False
                break
            pos += len(m)
            nxt[tid] += 1
        if not ok:
            fails.append('round %d: the stream is not an interleaving of whole messages in per-thread order (at byte %d)' % (rnd, pos))
    return {'name': 'threads-on-a-real-event-loop', 'kind': 'bounded', 'cases': n, 'evaluations': n, 'distinct_nontrivial': n,
            'rule': 'E-ASYNCIO probe: the bytes read from the peer socket are whole messages, in each thread\'s push order, nothing lost or duplicated',
            'bound': '%d rounds x 3 threads x 50 messages of sizes around the 4096-byte chunk threshold, real asyncio loop, socket pair' % rounds, 'violations': fails[:3]}


def replay(model, obligation):
    r = threads_on_a_real_loop('quick', 0)
    return {'reproduced': bool(r['violations']), 'detail': '; '.join(r['violations'][:2]) or 'no disagreement on the real event loop'}
