"""C19 native replay."""
from contracts.native import rf


def replay(model, obligation):
    cl = rf.load_cluster()
    from cassandra.protocol import ResultMessage, PrepareMessage, PreparedQueryNotFound, RESULT_KIND_PREPARED
    from cassandra.query import PreparedStatement
    h = obligation.split('/')[1]
    fails = []
    log = []
    h1, h2 = rf.Host('h1'), rf.Host('h2')
    if h == '_execute_after_prepare':
        pools = {h1: rf.Pool(log, h1), h2: rf.Pool(log, h2)}
        s = rf.Session(log, pools)
        ps = PreparedStatement([], b'id-A', [], 'SELECT * FROM t', None, 4, [], None)
        f = rf.future(cl, s, [h2], prepared_statement=ps)
        done = []
        f.add_errback(lambda e: done.append(e))
        resp = ResultMessage(RESULT_KIND_PREPARED)
        resp.query_id, resp.column_metadata, resp.result_metadata_id = b'id-B', [], None
        f._execute_after_prepare(h1, pools[h1].conn, pools[h1], resp)
        sends = [e for e in log if e[0] == 'send']
        if sends or len(done) != 1:
            fails.append('re-prepare returned a different id: errbacks run %d time(s), messages sent afterwards: %r' % (len(done), [(e[1], type(e[2]).__name__) for e in sends]))
    elif h == '_reprepare':
        for first_id in (0, 7):
            log[:] = []
            pools = {h1: rf.Pool(log, h1, ids=[first_id]), h2: rf.Pool(log, h2)}
            s = rf.Session(log, pools)
            f = rf.future(cl, s, [h2])
            pm = PrepareMessage(query='q', keyspace=None)
            f._reprepare(pm, h1, pools[h1].conn, pools[h1])
            sends = [(e[1].name, type(e[2]).__name__) for e in log if e[0] == 'send']
            if sends != [('h1', 'PrepareMessage')]:
                fails.append('PREPARE on stream id %d: messages sent %r (expected only the PREPARE to h1)' % (first_id, sends))
    else:
        for pv in (3, 4, 5, 66):
            for ks_stmt, ks_conn in ((None, None), ('a', 'a'), ('a', 'b'), ('a', None)):
                log[:] = []
                pools = {h1: rf.Pool(log, h1)}
                ps = PreparedStatement([], b'id-A', [], 'SELECT * FROM t', ks_stmt, pv, [], None)
                s = rf.Session(log, pools, protocol_version=pv, prepared={b'id-A': ps})
                f = rf.future(cl, s, [])
                f.prepared_statement = ps
                f._connection = pools[h1].conn
                pools[h1].conn.keyspace = ks_conn
                resp = PreparedQueryNotFound(code=0x2500, message='x', info=b'id-A')
                f._set_result(h1, pools[h1].conn, pools[h1], resp)
                subs = [e for e in log if e[0] == 'submit']
                carries = pv in (5, 6, 66)
                mismatch = (not carries) and ks_stmt and ks_conn != ks_stmt
                if mismatch:
                    if subs or not isinstance(f._final_exception, ValueError):
                        fails.append('pv=%d keyspace mismatch (%r vs %r): submitted %d, exception %r' % (pv, ks_stmt, ks_conn, len(subs), f._final_exception))
                    continue
                if len(subs) != 1:
                    fails.append('pv=%d: %d continuations' % (pv, len(subs)))
                    continue
                pm = subs[0][2][0]
                want_ks = ks_stmt if carries else None
                if pm.query != 'SELECT * FROM t' or pm.keyspace != want_ks or subs[0][2][1] is not h1:
                    fails.append('pv=%d stmt ks %r conn ks %r: PREPARE(query=%r, keyspace=%r) to %r (expected keyspace %r)' % (pv, ks_stmt, ks_conn, pm.query, pm.keyspace, subs[0][2][1], want_ks))
    return {'reproduced': bool(fails), 'detail': '; '.join(fails[:3]) or 'no disagreement'}


def replay_remembers(model, obligation):
    """PreparedStatement.from_message on the real class, for statements with and without bind markers"""
    import types
    from cassandra.query import PreparedStatement
    fails = []
    col = types.SimpleNamespace(keyspace_name='ks', table_name='tb', name='a', type=None)
    for label, cols in (('no bind markers ([])', []), ('no bind markers (None)', None), ('one bind marker', [col])):
        for pv in (4, 5):
            tok = {k: object() for k in ('query_id', 'query', 'keyspace', 'result_metadata', 'result_metadata_id', 'cep')}
            ps = PreparedStatement.from_message(tok['query_id'], cols, None, types.SimpleNamespace(keyspaces={}), tok['query'], tok['keyspace'], pv,
                                                tok['result_metadata'], tok['result_metadata_id'], tok['cep'])
            got = dict(query_id=ps.query_id is tok['query_id'], query_string=ps.query_string is tok['query'], keyspace=ps.keyspace is tok['keyspace'],
                       protocol_version=ps.protocol_version == pv, result_metadata=ps.result_metadata is tok['result_metadata'],
                       result_metadata_id=ps.result_metadata_id is tok['result_metadata_id'], column_encryption_policy=ps.column_encryption_policy is tok['cep'])
            lost = sorted(k for k, ok in got.items() if not ok)
            if lost:
                fails.append('statement with %s, protocol v%d: from_message does not hand on %s' % (label, pv, ', '.join(lost)))
    return {'reproduced': bool(fails), 'detail': '; '.join(fails[:2]) or 'every argument reaches the statement on both paths'}
