"""C21 native replay: the real policies over plain host objects."""
import types


class H(object):
    def __init__(self, name, dc, address=None, up=True):
        self.name, self.datacenter, self.address, self.is_up = name, dc, address or ('10.0.0.' + name[-1]), up
        self.endpoint = 'ep-' + name

    def __repr__(self):
        return self.name


def replay(model, obligation):
    from cassandra.policies import DCAwareRoundRobinPolicy, RoundRobinPolicy, WhiteListRoundRobinPolicy, HostDistance
    U = [H('a1', 'dc1'), H('b2', 'dc1'), H('c3', 'dc2'), H('d4', 'dc2'), H('f5', None)]
    fails = []
    cl = types.SimpleNamespace(endpoints_resolved=[])
    # populate in every order keeps every host
    import itertools
    for hs in ([U[0], U[2], U[1]], [U[2], U[0], U[3], U[1]], U, U[::-1], U[::2] + U[1::2]):
        p = DCAwareRoundRobinPolicy('dc1', used_hosts_per_remote_dc=2)
        p.populate(cl, hs)
        live = set(h for v in p._dc_live_hosts.values() for h in v)
        if live != set(hs):
            fails.append('DCAware populate(%s) keeps only %s' % (hs, sorted(live, key=repr)))
            break
    # event effects and plan
    p = DCAwareRoundRobinPolicy('dc1', used_hosts_per_remote_dc=1)
    p.populate(cl, [])
    for h in U:
        p.on_up(h)
    p.on_down(U[1])
    p.on_down(U[1])
    plan = list(p.make_query_plan())
    want = {U[0], U[4], U[2]}
    if set(plan) != {h for h in U if h is not U[1] and p.distance(h) != HostDistance.IGNORED} or len(plan) != len(set(plan)) or plan[-1].datacenter != 'dc2':
        fails.append('DCAware plan after events: %s' % plan)
    d = dict(p._dc_live_hosts)
    p.on_down(H('zz', 'dc9'))
    if dict(p._dc_live_hosts) != d:
        fails.append('on_down of an unknown host changed the live view')
    p.on_down(U[2]); p.on_down(U[3])
    if 'dc2' in p._dc_live_hosts and not p._dc_live_hosts['dc2']:
        fails.append('empty tuple left for dc2')
    # an event of another thread completing right before on_down takes the policy lock must survive
    p = DCAwareRoundRobinPolicy('dc1', used_hosts_per_remote_dc=1)
    p.populate(cl, [])
    for h in U[:2] + [U[4]]:
        p.on_up(h)
    real = p._hosts_lock

    class L(object):
        fired = False

        def __enter__(self_):
            if not self_.fired:
                self_.fired = True
                p._hosts_lock = real
                p.on_down(U[1])
                p._hosts_lock = self_
            return real.__enter__()

        def __exit__(self_, *a):
            return real.__exit__(*a)
    p._hosts_lock = L()
    p.on_down(U[0])
    left = set(h for v in p._dc_live_hosts.values() for h in v)
    if left != {U[4]}:
        fails.append('on_down(a1) overlapping on_down(b2): live view %s, expected [f5]' % sorted(left, key=repr))
    r = RoundRobinPolicy()
    r.populate(None, U[:3])
    r.on_down(U[0]); r.on_add(U[3])
    if set(r.make_query_plan()) != {U[1], U[2], U[3]}:
        fails.append('RoundRobin plan %s' % list(r.make_query_plan()))
    w = WhiteListRoundRobinPolicy.__new__(WhiteListRoundRobinPolicy)
    RoundRobinPolicy.__init__(w)
    w._allowed_hosts, w._allowed_hosts_resolved = ('name-a', 'name-c'), [U[0].address, U[2].address]
    w.populate(None, U)
    w.on_up(U[1]); w.on_add(U[3]); w.on_down(U[0]); w.on_up(U[0])
    if set(w.make_query_plan()) != {U[0], U[2]}:
        fails.append('WhiteList plan %s with allowed %s' % (list(w.make_query_plan()), [U[0], U[2]]))
    return {'reproduced': bool(fails), 'detail': '; '.join(fails[:3]) or 'no disagreement'}
