"""C08 - partition tokens equal Cassandra's.

murmur3: the Python code never truncates intermediates, so it is verified in low-64 mode (A-BITS): every
intermediate is tracked modulo 2**64 as a 64-bit vector and compared with MurmurHash.hash3_x64_128 transcribed from
Cassandra (spec/murmur3_spec.py).  Body loop: inductive invariant (h1, h2) == G(i), with G the fold of the spec round
function over the blocks (uninterpreted, unfolded at i).  Tail: all 16 tail lengths unrolled (complete).
"""
import hashlib
import z3
from pyvc.engine import harness
from pyvc import sym
from pyvc.sym import SLow, SInt, SBytes
from pyvc.interp import SObj
from spec import murmur3_spec as S
from contracts import varint_common as V

LEVEL = 'proof'
TRUSTED = ['A-BITS: truncation modulo 2**64 is a homomorphism for + * ^ | & << and for (x >> s) & m with m < 2**(64-s) on Python ints (the engine refuses anything else)',
           'body_and_tail: its contract (little-endian signed words, signed tail bytes, length) is what the _murmur3 harness stubs it with; discharged by the body_and_tail harness for 0..2 whole blocks x every tail length under E-STRUCT (struct.unpack_from incl. a negative offset; single-byte codes read the same in native mode), longer keys by the repetition of the format string (stated bound) and the bounded stand-in',
           'E-MD5: hashlib.md5(key).digest() is an arbitrary 16-byte string for the proof; real digests in the bounded stand-in',
           'induction over the number of 16-byte blocks is carried by the loop invariant over the uninterpreted fold G'] + V.LEMMAS[1:2]
EXPLANATION = 'bit-vector (low-64) symbolic execution of the real _murmur3/rotl64/fmix against the transcribed Java; truncate_int64 and token normalisation over mathematical ints'

MM = 'cassandra.murmur3.'
G1 = z3.Function('murmur_state_h1', z3.IntSort(), z3.BitVecSort(64))
G2 = z3.Function('murmur_state_h2', z3.IntSort(), z3.BitVecSort(64))
BLK = z3.Function('block_word', z3.IntSort(), z3.BitVecSort(64))


class Blocks(object):
    """body: the tuple of little-endian signed 64-bit words of the 16-byte blocks (2*nblocks of them)."""

    def __init__(self, nblocks):
        self.nblocks = nblocks


@harness('C08', 'truncate_int64', functions=[MM + 'truncate_int64'], native='contracts.native.c08:replay')
def truncate(vc):
    """ensures truncate_int64(x) == ((x + 2^63) mod 2^64) - 2^63 (the signed 64-bit value of x's low 64 bits) for EVERY integer x"""
    x = vc.int('x')
    r = vc.call(MM + 'truncate_int64', x)
    vc.check('post/signed-low-64', r == ((x + (1 << 63)) % (1 << 64)) - (1 << 63))
    vc.check('post/in-int64', sym.and_(r >= -(1 << 63), r < (1 << 63)))
    vc.must_fail('selfcheck/identity', r == x)


@harness('C08', 'rotl64', functions=[MM + 'rotl64'], native='contracts.native.c08:replay_helpers')
def rotl(vc):
    """ensures low64(rotl64(x, r)) == rotate-left of low64(x) for the rotation counts used (27, 31, 33), any int x"""
    x = SLow(z3.BitVec('x', 64))
    for r in (27, 31, 33):
        out = vc.call(MM + 'rotl64', x, r)
        vc.check('post/rotl-%d' % r, sym.SBool(out.t == z3.RotateLeft(x.t, r)))
    vc.must_fail('selfcheck/rotl-is-shift', sym.SBool(vc.call(MM + 'rotl64', x, 31).t == (x.t << 31)))


@harness('C08', 'fmix', functions=[MM + 'fmix'], native='contracts.native.c08:replay_helpers')
def fmix(vc):
    """ensures low64(fmix(k)) == MurmurHash.fmix(low64(k))"""
    k = SLow(z3.BitVec('k', 64))
    out = vc.call(MM + 'fmix', k)
    vc.check('post/fmix', sym.SBool(out.t == S.z_fmix(k.t)))


@harness('C08', '_murmur3', functions=[MM + '_murmur3', MM + 'rotl64', MM + 'fmix'], native='contracts.native.c08:replay')
def murmur(vc):
    """for any number of 16-byte blocks (loop invariant) and each tail length 0..15 (unrolled): low64 of the driver's h1 before
    truncation == hash3_x64_128(data).h1; truncate_int64 by its contract"""
    ctx = vc.ctx
    nblocks = vc.int('nblocks')
    vc.assume(nblocks >= 0)
    tl = vc.choice('tail_len', list(range(16)))
    tail_bv = [z3.BitVec('tail%d' % j, 8) for j in range(tl)]
    tail = tuple(SLow(z3.SignExt(56, b)) for b in tail_bv)      # struct 'b': signed bytes, as ints
    total = 16 * nblocks + tl
    st = {}

    class Body(object):
        pass

    def body_and_tail(data):
        return (BODY, tail, total)
    vc.stub(MM + 'body_and_tail', body_and_tail)
    BODY = _BodySeq(nblocks)

    def trunc(x):
        st['h1'] = x
        return SLow.of(x).signed()
    vc.stub(MM + 'truncate_int64', trunc)

    def inv(L):
        i = L._i                      # completed iterations == blocks consumed
        it = sym.as_int_term(i)
        if L._phase == 'step':
            # definitional unfolding of the fold at the block just consumed
            j = it - 1
            n1, n2 = S.z_round(G1(j), G2(j), BLK(2 * j), BLK(2 * j + 1))
            ctx.assume(z3.And(G1(it) == n1, G2(it) == n2), silent=True)
        if L._phase == 'init':
            ctx.assume(z3.And(G1(0) == 0, G2(0) == 0), silent=True)
        return [('h1-is-fold', sym.SBool(SLow.of(L.h1).t == G1(it))),
                ('h2-is-fold', sym.SBool(SLow.of(L.h2).t == G2(it)))]
    lowvar = lambda name: (lambda c: SLow(z3.BitVec(c.fresh_name('h_' + name), 64)))
    nb = sym.as_int_term(nblocks)

    def on_exit(L):
        # all blocks consumed: the state is the spec's fold over all nblocks blocks
        st['x1'], st['x2'] = SLow.of(L.h1).t, SLow.of(L.h2).t
        return [('all-blocks-consumed', L._i == nblocks),
                ('state-is-fold-of-all-blocks', sym.SBool(z3.And(st['x1'] == G1(nb), st['x2'] == G2(nb))))]
    vc.loop(MM + '_murmur3', 0, invariant=inv, havoc={n: lowvar(n) for n in ('h1', 'h2', 'k1', 'k2')}, on_exit=on_exit)
    res = vc.call(MM + '_murmur3', vc.bytes('data'))
    # tail + finalisation: spec applied to the loop-exit state (== the fold state by the on-exit obligation)
    want = S.z_tail_and_final(st['x1'], st['x2'], tail_bv, z3.Int2BV(sym.as_int_term(total), 64))
    vc.check('post/h1-equals-cassandra', sym.SBool(SLow.of(st['h1']).t == want))
    vc.check('post/result-is-signed-h1', res == SInt(z3.BV2Int(want, is_signed=True)))


class _BodySeq(object):
    """The words of the body as a sequence value for the interpreter (len == 2*nblocks, item i == word i)."""

    def __init__(self, nblocks):
        self.nblocks = nblocks


def _install_bodyseq_models():
    from pyvc import libmodels, interp
    orig_len = libmodels.lookup_model(len)

    def _len(ctx, x):
        if isinstance(x, _BodySeq):
            return 2 * x.nblocks
        return orig_len(ctx, x)
    libmodels._MODELS_BY_ID[id(len)] = (len, _len)
    orig_get = interp.Interp.get_item

    def get_item(self, o, k):
        if isinstance(o, _BodySeq):
            return SLow(BLK(sym.as_int_term(k)))
        return orig_get(self, o, k)
    interp.Interp.get_item = get_item


_install_bodyseq_models()


@harness('C08', 'Murmur3Token.hash_fn', functions=['cassandra.metadata.Murmur3Token.hash_fn'], native='contracts.native.c08:replay')
def m3token(vc):
    """ensures hash_fn(key) == h1, except Long.MIN_VALUE which Murmur3Partitioner normalises to Long.MAX_VALUE"""
    from cassandra import metadata
    h = vc.int('h1')
    vc.assume(sym.and_(h >= -(1 << 63), h < (1 << 63)))
    vc.stub(metadata.murmur3, lambda key: h)
    r = vc.call('cassandra.metadata.Murmur3Token.hash_fn', vc.bytes('key'))
    vc.check('post/normalised', r == sym.ite(h == -(1 << 63), (1 << 63) - 1, h))


@harness('C08', 'MD5Token.hash_fn', functions=['cassandra.metadata.MD5Token.hash_fn', 'cassandra.marshal.varint_unpack'],
         native='contracts.native.c08:replay')
def md5token(vc):
    """ensures hash_fn(key) == abs(signed big-endian value of the 16-byte MD5 digest) (RandomPartitioner: new BigInteger(md5).abs())"""
    from cassandra import metadata
    ctx = vc.ctx
    digest = [vc.int('d%d' % i) for i in range(16)]
    for d in digest:
        vc.assume(sym.and_(d >= 0, d < 256))
    dbytes = SBytes(z3.Concat(*[z3.Unit(d.t) for d in digest]))

    class H(object):
        def digest(self):
            return dbytes
    vc.stub(metadata.md5, lambda key: H())

    def hexvalue(interp, node, m):
        t = interp.eval(V.ast_parse_expr(m.group(1)))
        return V.le_of(ctx, V.rev_of(ctx, t))
    vc.abstract_expr('cassandra.marshal.varint_unpack', r"int\(''\.join\(\('%02x' % i for i in (\w+)\)\), 16\)", hexvalue)
    r = vc.call('cassandra.metadata.MD5Token.hash_fn', vc.bytes('key'))
    u = digest[0]
    for d in digest[1:]:
        u = u * 256 + d
    signed = sym.ite(digest[0] >= 128, u - (1 << 128), u)
    vc.check('post/abs-of-signed-digest', r == abs(signed))
    vc.must_fail('selfcheck/unsigned', r == u)


def bounded_hash(tier, seed):
    """End to end on the real functions (body_and_tail included): _murmur3 / hash_fn vs the transcribed Java; MD5 vs BigInteger.abs."""
    import random
    from cassandra import murmur3, metadata
    from contracts.native import c08 as N
    rng = random.Random(seed * 31 + 5)
    per = 60 if tier == 'quick' else 2000
    bad = []
    n = 0
    seen = set()
    for ln in range(0, 65):
        for _ in range(per):
            d = bytes(rng.choice([rng.randrange(256), 0x80, 0xff, 0x00, 0x7f]) for _ in range(ln))
            n += 1
            seen.add(d)
            if murmur3._murmur3(d) != S.hash3_x64_128_h1(d) or metadata.Murmur3Token.hash_fn(d) != S.murmur3_token(d):
                bad.append({'key_hex': d.hex(), 'driver': murmur3._murmur3(d), 'cassandra': S.hash3_x64_128_h1(d)})
            body, tail, total = murmur3.body_and_tail(d)
            exp_body = tuple(int.from_bytes(d[8 * i:8 * i + 8], 'little', signed=True) for i in range(2 * (ln // 16)))
            exp_tail = tuple(b - 256 if b >= 128 else b for b in d[16 * (ln // 16):])
            if tuple(body) != exp_body or tuple(tail) != exp_tail or total != ln:
                bad.append({'key_hex': d.hex(), 'body_and_tail': 'differs from little-endian signed words / signed tail bytes'})
    lead = {}
    i = 0
    while len(lead) < 256 and i < 200000:
        k = b'%d' % i
        i += 1
        dg = hashlib.md5(k).digest()
        if dg[0] not in lead:
            lead[dg[0]] = k
    for k in list(lead.values()) + [b'', 'é'.encode('utf-8'), 'text-key']:
        n += 1
        if metadata.MD5Token.hash_fn(k) != N.md5_token_spec(k):
            bad.append({'key': repr(k), 'driver': metadata.MD5Token.hash_fn(k), 'random_partitioner': N.md5_token_spec(k)})
    return {'name': 'bounded_hash', 'evaluations': n, 'distinct_nontrivial': len(seen) + len(lead),
            'rule': 'every key length 0..64 x %d random keys biased to 0x80/0xff/0x00 bytes (murmur3 + body_and_tail probe); one MD5 key per possible leading digest byte; distinct = distinct keys' % per,
            'samples': ['313233 -> -7468325962851647638'], 'violations': bad[:3], 'bound': 'key lengths <= 64'}


BOUNDED = [bounded_hash]


@harness('C08', 'body_and_tail', functions=[MM + 'body_and_tail'], native='contracts.native.c08:replay')
def body_tail(vc):
    """the splitter the hash loop is stubbed with in the `_murmur3` harness, now discharged instead of assumed: for keys of 0, 1 or 2 whole 16-byte blocks
    followed by every tail length 0..15 (the format strings are built by repetition from those two numbers; stated bound) with symbolic content:
    ensures body is the consecutive 8-byte words of the key read little-endian and signed, tail is the last len % 16 bytes - and only those - read as signed
    bytes in order, and the length is the key's length"""
    nb = vc.choice('whole_blocks', [0, 1, 2])
    tl = vc.choice('tail_len', list(range(16)))
    n = 16 * nb + tl
    bs = [vc.int('key_byte_%d' % i) for i in range(n)]
    for b in bs:
        vc.assume(sym.and_(b >= 0, b <= 255))
    units = [z3.Unit(b.t) for b in bs]
    data = SBytes(z3.Empty(sym.ByteSeq) if n == 0 else (units[0] if n == 1 else z3.Concat(*units)))
    body, tail, total = vc.call(MM + 'body_and_tail', data)
    vc.check('post/length', total == n)
    byte = lambda i: bs[i]
    vc.check('post/body-has-two-words-per-block', len(body) == 2 * nb)
    for w in range(min(len(body), 2 * nb)):
        u = 0
        for j in range(8):
            u = u + byte(8 * w + j) * (256 ** j)
        signed = sym.ite(u >= 2 ** 63, u - 2 ** 64, u)
        vc.check('post/word-%d-is-the-little-endian-signed-word-at-its-offset' % w, body[w] == signed)
    vc.check('post/tail-has-len-mod-16-bytes', len(tail) == tl)
    for j in range(min(len(tail), tl)):
        b = byte(16 * nb + j)
        vc.check('post/tail-bytes-are-the-last-bytes-in-order-signed', tail[j] == sym.ite(b >= 128, b - 256, b))
