"""C33 - driver collection types behave as their mathematical models.

SortedSet: the representation is a strictly ascending list; the abstract view is the set of its elements.
  * _find_insertion is verified for a list of ANY length by a loop invariant (bisect-left postcondition in its quantifier-free form
    `(r == 0 or a[r-1] < x) and (r == n or a[r] >= x)`, which together with sortedness is the insertion point; termination by hi - lo);
  * every public operation is verified against the set-algebra result over the WHOLE view for all element values, with the sizes of the operand
    sets unrolled (0..3 / 0..2): representation invariant preserved, view' == op(view, args), nothing else changed.
Elements are mathematical integers standing for 'any single comparable type': the code inspects elements only through < == != >= on pairs
(A-ORDER: any finite totally ordered set embeds in the integers; the TypeError fall-back for incomparable elements is outside the precondition).
OrderedMap: keys are identified by their serialized form (an injective function of the key's equivalence class, E-PICKLE / the CQL encoding);
operations are verified against an insertion-ordered association list.
"""
import os
import itertools
import z3
from pyvc.engine import harness
from pyvc import sym
from pyvc.interp import SObj, PyExc, exc_class, get_attr

LEVEL = 'proof'
TRUSTED = ['A-ORDER: elements are modelled as mathematical integers with their usual order (the code compares elements only pairwise with < == != >=; incomparable elements / the TypeError fall-back of _find_insertion are outside the precondition)',
           'sizes of the operand sets/maps are unrolled (SortedSet operands 0..3 and 0..2 elements, OrderedMap up to 3 entries) - element values are symbolic; _find_insertion itself is proved for lists of any length',
           'E-PICKLE / CQL key encoding: _serialize_key is an injective function on key equivalence classes (keys are modelled by the integer that identifies their class; hashability of the key itself is never used by the code: only the serialized form is hashed)']
EXPLANATION = 'representation-invariant + abstract-view postconditions on the real SortedSet / OrderedMap methods; binary search by loop invariant'

U = 'cassandra.util.'
TIER = os.environ.get('VERIF_TIER', 'quick')


def nth(a, i):
    """spec-level a[i] (a total function: unconstrained out of range, always guarded by a range condition where it is used)"""
    return sym.SInt(a.t[sym.as_int_term(i)])


@harness('C33', 'SortedSet._find_insertion', functions=[U + 'SortedSet._find_insertion'], native='contracts.native.c33:replay')
def find_insertion(vc):
    """requires _items any integer list (any length)  ensures 0 <= r <= n and (r == 0 or a[r-1] < x) and (r == n or a[r] >= x); loop invariant
    0 <= lo <= hi <= n and (lo == 0 or a[lo-1] < x) and (hi == n or a[hi] >= x); variant hi - lo"""
    from cassandra.util import SortedSet
    a = vc.intseq('items')
    x = vc.int('x')
    n = a.length()

    def inv(v):
        lo, hi = v.lo, v.hi
        return [('bounds', sym.and_(lo >= 0, lo <= hi, hi <= n)),
                ('left-of-lo-is-smaller', sym.or_(lo == 0, nth(a, lo - 1) < x)),
                ('from-hi-on-not-smaller', sym.or_(hi == n, nth(a, hi) >= x))]
    vc.loop(U + 'SortedSet._find_insertion', 0, invariant=inv, decreases=lambda v: v.hi - v.lo)
    s = vc.obj(SortedSet, _items=a)
    r = vc.call(U + 'SortedSet._find_insertion', s, x)
    vc.check('post/in-range', sym.and_(r >= 0, r <= n))
    vc.check('post/predecessor-is-smaller', sym.or_(r == 0, nth(a, r - 1) < x))
    vc.check('post/element-at-r-is-not-smaller', sym.or_(r == n, nth(a, r) >= x))
    vc.must_fail('selfcheck/always-at-the-end', r == n)


# ---------------------------------------------------------------------------
# SortedSet operations over the whole view, operand sizes unrolled, element values symbolic

def mem(v, lst):
    return sym.or_(*[v == e for e in lst]) if lst else False


def ascending(lst):
    return sym.and_(*[a < b for a, b in zip(lst, lst[1:])]) if len(lst) > 1 else True


def mk_set(vc, name, n):
    """a SortedSet in a state satisfying its representation invariant: n symbolic elements, strictly ascending"""
    from cassandra.util import SortedSet
    els = [vc.int('%s%d' % (name, i)) for i in range(n)]
    vc.assume(ascending(els))
    return vc.obj(SortedSet, _items=list(els)), els


def items_of(vc, s):
    it = get_attr(vc.ctx, s, '_items')
    return list(it) if isinstance(it, list) else None


def check_view(vc, name, got, expected, candidates):
    """got (a concrete-length list of symbolic elements) is strictly ascending and its element set is exactly {c in candidates | expected(c)}"""
    ok = isinstance(got, list)
    vc.check(name + '/is-a-list-representation', ok)
    if not ok:
        return
    vc.check(name + '/strictly-ascending', ascending(got))
    vc.check(name + '/only-expected-elements', sym.and_(*[sym.and_(mem(g, candidates), expected(g)) for g in got]) if got else True)
    vc.check(name + '/every-expected-element-present', sym.and_(*[sym.implies(expected(c), mem(c, got)) for c in candidates]) if candidates else True)


SIZES_A = [0, 1, 2, 3] if TIER == 'quick' else [0, 1, 2, 3, 4]
SIZES_B = [0, 1, 2] if TIER == 'quick' else [0, 1, 2, 3]

BINARY = {
    'union': lambda ina, inb: sym.or_(ina, inb), 'intersection': lambda ina, inb: sym.and_(ina, inb), 'difference': lambda ina, inb: sym.and_(ina, sym.not_(inb)),
    'symmetric_difference': lambda ina, inb: sym.or_(sym.and_(ina, sym.not_(inb)), sym.and_(inb, sym.not_(ina))),
    '__or__': lambda ina, inb: sym.or_(ina, inb), '__and__': lambda ina, inb: sym.and_(ina, inb), '__sub__': lambda ina, inb: sym.and_(ina, sym.not_(inb)),
    '__xor__': lambda ina, inb: sym.or_(sym.and_(ina, sym.not_(inb)), sym.and_(inb, sym.not_(ina))),
    '__ior__': lambda ina, inb: sym.or_(ina, inb), '__iand__': lambda ina, inb: sym.and_(ina, inb), '__isub__': lambda ina, inb: sym.and_(ina, sym.not_(inb)),
    '__ixor__': lambda ina, inb: sym.or_(sym.and_(ina, sym.not_(inb)), sym.and_(inb, sym.not_(ina))),
}


def _mk_binary(op):
    @harness('C33', 'SortedSet.' + op, functions=[U + 'SortedSet.' + n for n in (op, '_intersect', '_diff', 'add', 'copy', '__contains__', '_find_insertion', 'union', 'difference',
                                                                                 'intersection', 'symmetric_difference')], native='contracts.native.c33:replay')
    def h(vc):
        na, nb = vc.choice('size_a', SIZES_A), vc.choice('size_b', SIZES_B)
        a, ea = mk_set(vc, 'a', na)
        b, eb = mk_set(vc, 'b', nb)
        r = vc.call(U + 'SortedSet.' + op, a, b)
        inplace = op.startswith('__i')
        from cassandra.util import SortedSet
        vc.check('post/returns-a-SortedSet', isinstance(r, SObj) and r.cls is SortedSet and (r is a) == inplace)
        exp = BINARY[op]
        check_view(vc, 'post/result', items_of(vc, r), lambda v: exp(mem(v, ea), mem(v, eb)), ea + eb)
        # frame: the operands are unchanged (the left one too unless the operation is in place)
        if not inplace:
            vc.check('frame/left-operand-unchanged', items_of(vc, a) is not None and len(items_of(vc, a)) == na and sym.and_(*[x == y for x, y in zip(items_of(vc, a), ea)]) is not False)
            vc.check('frame/result-does-not-share-the-operand-list', get_attr(vc.ctx, r, '_items') is not get_attr(vc.ctx, a, '_items'))
        vc.check('frame/right-operand-unchanged', len(items_of(vc, b)) == nb and (nb == 0 or sym.and_(*[x == y for x, y in zip(items_of(vc, b), eb)])))
    h.__doc__ = ('requires a, b SortedSets satisfying the representation invariant (|a| in %s, |b| in %s, any element values)  ensures the result is a SortedSet whose list is '
                 'strictly ascending and whose element set is exactly %s(a, b); operands unchanged%s' % (SIZES_A, SIZES_B, op.strip('_'), ' (a updated in place)' if op.startswith('__i') else ''))
    return h


for _op in BINARY:
    _mk_binary(_op)


NARY = {'union': lambda ia, ib, ic: sym.or_(ia, ib, ic), 'intersection': lambda ia, ib, ic: sym.and_(ia, ib, ic),
        'difference': lambda ia, ib, ic: sym.and_(ia, sym.not_(ib), sym.not_(ic))}


def _mk_nary(op):
    @harness('C33', 'SortedSet.%s(b, c)' % op, functions=[U + 'SortedSet.' + n for n in (op, '_intersect', '_diff', 'add', 'copy', '__contains__', '_find_insertion', '__len__')], native='contracts.native.c33:replay')
    def h(vc):
        na, nb, nc = vc.choice('size_a', SIZES_A[:3] if TIER == 'quick' else SIZES_A[:4]), vc.choice('size_b', SIZES_B), vc.choice('size_c', SIZES_B)
        a, ea = mk_set(vc, 'a', na)
        b, eb = mk_set(vc, 'b', nb)
        c, ec = mk_set(vc, 'c', nc)
        r = vc.call(U + 'SortedSet.' + op, a, b, c)
        exp = NARY[op]
        check_view(vc, 'post/result', items_of(vc, r) if isinstance(r, SObj) else None, lambda v: exp(mem(v, ea), mem(v, eb), mem(v, ec)), ea + eb + ec)
        vc.check('frame/operands-unchanged', all(len(items_of(vc, s)) == len(e) and (not e or sym.and_(*[x == y for x, y in zip(items_of(vc, s), e)]) is not False)
                                                 for s, e in ((a, ea), (b, eb), (c, ec))))
    h.__doc__ = 'requires three SortedSets  ensures a.%s(b, c) is exactly the %s of all three over the whole view; operands unchanged' % (op, op)
    return h


for _op in NARY:
    _mk_nary(_op)


@harness('C33', 'SortedSet.element-operations', functions=[U + 'SortedSet.' + n for n in ('add', 'remove', 'pop', '__contains__', 'clear', 'copy', '__len__', '__iter__', '__getitem__', '_find_insertion')], native='contracts.native.c33:replay')
def element_ops(vc):
    """requires a SortedSet satisfying the representation invariant (0..3/4 elements, any values) and any element x
    ensures  x in s <=> x is an element;  add: view' == view + {x};  remove: present -> view' == view - {x}, absent -> KeyError and unchanged;
    pop: returns the maximum, view' == view - {max}, empty -> KeyError;  clear: view' == {};  copy: equal view, independent list;  len == |view|;
    iteration ascending"""
    from cassandra.util import SortedSet
    n = vc.choice('size', SIZES_A)
    op = vc.choice('operation', ['contains', 'add', 'remove', 'pop', 'clear', 'copy', 'len-iter'])
    s, els = mk_set(vc, 'e', n)
    x = vc.int('x')
    if op == 'contains':
        r = vc.call(U + 'SortedSet.__contains__', s, x)
        vc.check('contains/iff-element', sym.lift(r) == mem(x, els) if not isinstance(r, bool) or els else r == bool(mem(x, els)))
        check_view(vc, 'contains/unchanged', items_of(vc, s), lambda v: True, els)
    elif op == 'add':
        vc.call(U + 'SortedSet.add', s, x)
        check_view(vc, 'add/view-plus-x', items_of(vc, s), lambda v: True, els + [x])
    elif op == 'remove':
        k, r = vc.call_catch(U + 'SortedSet.remove', s, x)
        present = vc.ctx.branch(sym.as_bool_term(mem(x, els))) if els else False
        if present:
            vc.check('remove/present-succeeds', k == 'ok')
            check_view(vc, 'remove/view-minus-x', items_of(vc, s), lambda v: v != x, els)
        else:
            vc.check('remove/absent-raises-KeyError', k == 'exc' and issubclass(exc_class(r), KeyError))
            check_view(vc, 'remove/absent-unchanged', items_of(vc, s), lambda v: True, els)
    elif op == 'pop':
        k, r = vc.call_catch(U + 'SortedSet.pop', s)
        if n == 0:
            vc.check('pop/empty-raises-KeyError', k == 'exc' and issubclass(exc_class(r), KeyError))
        else:
            vc.check('pop/returns-the-maximum', k == 'ok' and sym.and_(r == els[-1]))
            check_view(vc, 'pop/view-minus-maximum', items_of(vc, s), lambda v: v != els[-1], els)
    elif op == 'clear':
        vc.call(U + 'SortedSet.clear', s)
        vc.check('clear/empty', items_of(vc, s) == [])
    elif op == 'copy':
        c = vc.call(U + 'SortedSet.copy', s)
        check_view(vc, 'copy/equal-view', items_of(vc, c), lambda v: True, els)
        vc.check('copy/independent-list', get_attr(vc.ctx, c, '_items') is not get_attr(vc.ctx, s, '_items') and c is not s)
        vc.call(U + 'SortedSet.add', c, x)
        check_view(vc, 'copy/original-unaffected-by-changes-to-the-copy', items_of(vc, s), lambda v: True, els)
    else:
        vc.check('len/cardinality', vc.call(U + 'SortedSet.__len__', s) == n)
        it = list(vc.call(U + 'SortedSet.__iter__', s))
        vc.check('iter/ascending-enumeration-of-the-view', len(it) == n and ascending(it) is not False and (n == 0 or sym.and_(*[a == b for a, b in zip(it, els)])))
        if n:
            vc.check('getitem/by-rank', sym.and_(vc.call(U + 'SortedSet.__getitem__', s, 0) == els[0], vc.call(U + 'SortedSet.__getitem__', s, n - 1) == els[-1]))


@harness('C33', 'SortedSet.__init__', functions=[U + 'SortedSet.__init__', U + 'SortedSet.update', U + 'SortedSet.add', U + 'SortedSet._find_insertion'], native='contracts.native.c33:replay')
def init(vc):
    """requires any list of 0..4 elements in any order, duplicates allowed  ensures the new set's list is strictly ascending and its element set is exactly the given elements"""
    from cassandra.util import SortedSet
    n = vc.choice('size', [0, 1, 2, 3, 4] if TIER == 'quick' else [0, 1, 2, 3, 4, 5])
    xs = [vc.int('x%d' % i) for i in range(n)]
    s = vc.call(SortedSet, list(xs))
    check_view(vc, 'init/view-is-the-given-elements', items_of(vc, s), lambda v: True, xs)
    s2 = vc.call(SortedSet)
    vc.check('init/default-empty', items_of(vc, s2) == [])


CMP = {'issubset': lambda sub, sup, eq: sub, 'issuperset': lambda sub, sup, eq: sup, 'isdisjoint': None, '__eq__': lambda sub, sup, eq: eq, '__ne__': lambda sub, sup, eq: sym.not_(eq),
       '__le__': lambda sub, sup, eq: sub, '__lt__': lambda sub, sup, eq: sym.and_(sub, sym.not_(eq)), '__ge__': lambda sub, sup, eq: sup, '__gt__': lambda sub, sup, eq: sym.and_(sup, sym.not_(eq))}


@harness('C33', 'SortedSet.comparisons', functions=[U + 'SortedSet.' + n for n in list(CMP) + ['_intersect', '__len__', '__contains__']], native='contracts.native.c33:replay')
def comparisons(vc):
    """requires two SortedSets  ensures issubset / issuperset / isdisjoint / == / != / <= / < / >= / > return exactly the set-theoretic relation of the two views
    (also == / != against a plain list of distinct elements)"""
    na, nb = vc.choice('size_a', SIZES_A[:3]), vc.choice('size_b', SIZES_A[:3])
    op = vc.choice('relation', list(CMP) + ['eq-list'])
    a, ea = mk_set(vc, 'a', na)
    b, eb = mk_set(vc, 'b', nb)
    sub = sym.and_(*[mem(x, eb) for x in ea]) if ea else True
    sup = sym.and_(*[mem(x, ea) for x in eb]) if eb else True
    eq = sym.and_(sub, sup)
    disj = sym.and_(*[sym.not_(mem(x, eb)) for x in ea]) if ea and eb else True
    if op == 'eq-list':
        r = vc.call(U + 'SortedSet.__eq__', a, list(reversed(eb)))
        want = eq
    else:
        r = vc.call(U + 'SortedSet.' + op, a, b)
        want = disj if op == 'isdisjoint' else CMP[op](sub, sup, eq)
    rb = r if isinstance(r, bool) else sym.lift(r)
    wb = want if isinstance(want, bool) else sym.lift(want)
    vc.check(op + '/is-the-set-relation', rb == wb if not (isinstance(rb, bool) and isinstance(wb, bool)) else rb is wb)


# ---------------------------------------------------------------------------
# OrderedMap against an insertion-ordered association list; keys identified by their serialized form

def _ser_stub(vc):
    """_serialize_key: an injective function of the key's identity class (E-PICKLE / CQL encoding); keys are symbolic integers naming their class"""
    ser = z3.Function('serialize_key', z3.IntSort(), z3.IntSort())
    inv = z3.Function('serialize_key_inverse', z3.IntSort(), z3.IntSort())

    def stub(self, key):
        kt = sym.as_int_term(key)
        vc.ctx.assume(inv(ser(kt)) == kt, silent=True)
        return sym.SInt(ser(kt))
    vc.stub(U + 'OrderedMap._serialize_key', stub)
    return lambda k: sym.SInt(ser(sym.as_int_term(k)))


def mk_map(vc, n, ser):
    """an OrderedMap in a state satisfying its invariant: n entries with pairwise distinct keys, _index[ser(key_i)] == i"""
    from cassandra.util import OrderedMap
    from pyvc.libmodels import SymKey
    ks = [vc.int('key%d' % i) for i in range(n)]
    vs = [vc.int('value%d' % i) for i in range(n)]
    for i in range(n):
        for j in range(i + 1, n):
            vc.assume(ks[i] != ks[j])
    for k in ks:
        vc.ctx.assume(z3.Function('serialize_key_inverse', z3.IntSort(), z3.IntSort())(ser(k).t) == k.t, silent=True)
    index = {SymKey(ser(k)): i for i, k in enumerate(ks)}
    return vc.obj(OrderedMap, _items=[(k, v) for k, v in zip(ks, vs)], _index=index), ks, vs


def check_map(vc, name, m, want, ser):
    """the map's state is exactly the association list `want` = [(key, value)] in order, and the index invariant holds"""
    from pyvc.libmodels import dict_find_key, MISSING
    items = get_attr(vc.ctx, m, '_items')
    index = get_attr(vc.ctx, m, '_index')
    ok = isinstance(items, list) and len(items) == len(want) and all(isinstance(e, tuple) and len(e) == 2 for e in items)
    vc.check(name + '/entry-count-and-shape', ok)
    if not ok:
        return
    vc.check(name + '/entries-in-insertion-order', sym.and_(*[sym.and_(e[0] == w[0], e[1] == w[1]) for e, w in zip(items, want)]) if want else True)
    vc.check(name + '/index-has-one-entry-per-key', isinstance(index, dict) and len(index) == len(want))
    for i, (k, v) in enumerate(want):
        kk = dict_find_key(vc.ctx, index, ser(k))
        vc.check('%s/index-of-entry-%d' % (name, i), kk is not MISSING and sym.and_(index[kk] == i) is not False and (index[kk] == i if isinstance(index[kk], int) else sym.and_(index[kk] == i)))


@harness('C33', 'OrderedMap', functions=[U + 'OrderedMap.' + n for n in ('__init__', '_insert', '__getitem__', '__delitem__', '__iter__', '__len__', '__eq__', 'popitem')], native='contracts.native.c33:replay')
def ordered_map(vc):
    """requires an OrderedMap satisfying its invariant (0..3 entries, any keys / values) and a key k (possibly equal to an existing key)
    ensures  m[k] = v: existing key -> value replaced in place, new key -> appended;  m[k]: the value or KeyError;  del m[k]: entry removed, order of the others kept,
    index re-based, absent -> KeyError and unchanged;  popitem: last entry or KeyError;  iteration: keys in insertion order;  len;  == another OrderedMap iff same
    entries in the same order;  construction from a list of pairs (later duplicates overwrite in place)"""
    from cassandra.util import OrderedMap
    ser = _ser_stub(vc)
    n = vc.choice('entries', [0, 1, 2, 3])
    op = vc.choice('operation', ['set', 'get', 'del', 'popitem', 'iter-len', 'eq', 'init'])
    m, ks, vs = mk_map(vc, n, ser)
    base = list(zip(ks, vs))
    k, v = vc.int('k'), vc.int('v')
    # which existing entry (if any) has key k
    pos = None
    for i in range(n):
        if vc.ctx.branch((k == ks[i]).t):
            pos = i
            break
    if op == 'set':
        vc.call(U + 'OrderedMap._insert', m, k, v)
        want = [(kk, v if i == pos else vv) for i, (kk, vv) in enumerate(base)] if pos is not None else base + [(k, v)]
        check_map(vc, 'set', m, want, ser)
    elif op == 'get':
        kind, r = vc.call_catch(U + 'OrderedMap.__getitem__', m, k)
        if pos is None:
            vc.check('get/absent-raises-KeyError', kind == 'exc' and issubclass(exc_class(r), KeyError))
        else:
            vc.check('get/value-of-the-key', kind == 'ok' and sym.and_(r == vs[pos]))
        check_map(vc, 'get/unchanged', m, base, ser)
    elif op == 'del':
        kind, r = vc.call_catch(U + 'OrderedMap.__delitem__', m, k)
        if pos is None:
            vc.check('del/absent-raises-KeyError', kind == 'exc' and issubclass(exc_class(r), KeyError))
            check_map(vc, 'del/absent-unchanged', m, base, ser)
        else:
            vc.check('del/succeeds', kind == 'ok')
            check_map(vc, 'del/entry-removed-others-keep-order', m, base[:pos] + base[pos + 1:], ser)
    elif op == 'popitem':
        kind, r = vc.call_catch(U + 'OrderedMap.popitem', m)
        if n == 0:
            vc.check('popitem/empty-raises-KeyError', kind == 'exc' and issubclass(exc_class(r), KeyError))
        else:
            vc.check('popitem/returns-the-last-entry', kind == 'ok' and isinstance(r, tuple) and sym.and_(r[0] == ks[-1], r[1] == vs[-1]))
            check_map(vc, 'popitem/last-entry-removed', m, base[:-1], ser)
    elif op == 'iter-len':
        it = list(vc.call(U + 'OrderedMap.__iter__', m))
        vc.check('iter/keys-in-insertion-order', len(it) == n and (n == 0 or sym.and_(*[a == b for a, b in zip(it, ks)])))
        vc.check('len/number-of-entries', vc.call(U + 'OrderedMap.__len__', m) == n)
    elif op == 'eq':
        other = vc.obj(OrderedMap, _items=[(kk, vv) for kk, vv in base[::-1]] if vc.choice('other', ['reversed', 'same']) == 'reversed' else list(base), _index={})
        r = vc.call(U + 'OrderedMap.__eq__', m, other)
        oi = get_attr(vc.ctx, other, '_items')
        want = sym.and_(*[sym.and_(a[0] == b[0], a[1] == b[1]) for a, b in zip(base, oi)]) if n else True
        rb = r if isinstance(r, bool) else sym.lift(r)
        vc.check('eq/same-entries-in-the-same-order', (rb == want) if not (isinstance(rb, bool) and isinstance(want, bool)) else rb is want)
    else:
        # construction from pairs: the existing entries followed by (k, v) - a repeated key overwrites in place
        m2 = vc.call(OrderedMap, base + [(k, v)])
        want = [(kk, v if i == pos else vv) for i, (kk, vv) in enumerate(base)] if pos is not None else base + [(k, v)]
        check_map(vc, 'init/pairs-in-order-duplicates-overwrite-in-place', m2, want, ser)
