"""C05 - incoming frames (v1-v4 headers) are reassembled exactly under any TCP chunking.

Representation invariant of a connection's read side (non-checksummed path):
    io_buffer.content == the received-but-not-yet-delivered bytes, write position == its end,
    _current_frame is None or the parsed header of the frame at the start of the content (complete header, incomplete body).
One iteration of the process_io_buffer loop is verified for ANY content satisfying the invariant: either nothing is
delivered and nothing changes (no complete frame at the front) or exactly the first frame is handed to process_msg with its
exact header fields and body and exactly its bytes are removed.  By induction over reads and iterations the delivered
sequence is the frame parse of the concatenated reads, independent of how they were split.
"""
import z3
from pyvc.engine import harness, PathAbort
from pyvc import sym
from pyvc.sym import SInt, SBytes, SBool
from pyvc.interp import SObj, PyExc
from pyvc.libmodels import MBytesIO, _M, LockModel

LEVEL = 'proof'
TRUSTED = ['E-STRUCT, E-BYTESIO', 'A-AFFINITY: reads of one connection are processed by one thread',
           'induction over reads/iterations (history clause) is a meta-argument over the discharged step contract + representation invariant',
           'precondition: the server sends frames of a protocol version this driver supports with non-negative body length (otherwise the connection is defuncted - checked)']
EXPLANATION = 'inductive loop invariant + step postcondition on the real process_io_buffer/_read_frame_header; handle_pushed and process_msg dispatch by postcondition'

CQ = 'cassandra.connection.Connection.'


def _header_spec(C):
    """Spec parse of a frame header at the start of byte string C (native protocol v1-v4 section 2): returns dict of terms."""
    t = C.t
    b = lambda i: t[i]
    version = b(0) % 128
    v3 = version >= 3
    hs = z3.If(v3, z3.IntVal(9), z3.IntVal(8))
    flags = b(1)
    stream = z3.If(v3, sym.bytes_to_int_be(t, z3.IntVal(2), 2, True), z3.If(b(2) >= 128, b(2) - 256, b(2)))
    op = z3.If(v3, b(4), b(3))
    ln = z3.If(v3, sym.bytes_to_int_be(t, z3.IntVal(5), 4, True), sym.bytes_to_int_be(t, z3.IntVal(4), 4, True))
    return dict(version=version, header_size=hs, flags=flags, stream=stream, opcode=op, body_len=ln)


def _setup(vc, st):
    from cassandra.connection import Connection, _ConnectionIOBuffer, _Frame
    ctx = vc.ctx
    conn = vc.obj(Connection, _is_checksumming_enabled=False, is_defunct=False)
    iob = vc.obj(_ConnectionIOBuffer, _io_buffer=MBytesIO(b'', 0), _cql_frame_buffer=None, _connection=conn, _segment_consumed=False)
    conn.attrs['_io_buffer'] = iob
    conn.attrs['_current_frame'] = None
    st['delivered'] = []
    st['defunct'] = []
    vc.stub(CQ + 'process_msg', lambda self_, header, body: st['delivered'].append((header, body)))
    vc.stub(CQ + 'defunct', lambda self_, exc: st['defunct'].append(exc))

    def havoc_heap(c):
        C = c.fresh_bytes('buffered')
        st['C'] = C
        st['delivered'][:] = []
        iob.attrs['_io_buffer'] = MBytesIO(C, C.length())
        # supported version + sane length in the buffered header, when present (else the connection is defuncted)
        n = C.length()
        for i in range(9):
            c.assume(z3.Implies(n.t > i, z3.And(C.t[i] >= 0, C.t[i] < 256)), silent=True)
        if c.branch(c.fresh_bool('has_current_frame').t):
            h = _header_spec(C)
            c.assume(z3.And(n.t >= h['header_size'], h['body_len'] >= 0,
                            z3.Or(*[h['version'] == v for v in (1, 2, 3, 4, 5, 6, 0x41, 0x42)])), silent=True)
            conn.attrs['_current_frame'] = vc.obj(_Frame, version=SInt(h['version']), flags=SInt(h['flags']), stream=SInt(h['stream']),
                                                  opcode=SInt(h['opcode']), body_offset=SInt(h['header_size']),
                                                  end_pos=SInt(h['body_len'] + h['header_size']))
            st['had_frame'] = True
        else:
            conn.attrs['_current_frame'] = None
            st['had_frame'] = False
    return conn, iob, havoc_heap


def _first_frame_facts(C):
    h = _header_spec(C)
    n = C.length().t
    supported = z3.Or(*[h['version'] == v for v in (1, 2, 3, 4, 5, 6, 0x41, 0x42)])
    complete_header = z3.And(n >= 1, n >= h['header_size'])
    complete = z3.And(complete_header, n >= h['header_size'] + h['body_len'])
    return h, n, supported, complete_header, complete


@harness('C05', 'process_io_buffer-step', functions=[CQ + 'process_io_buffer', CQ + '_read_frame_header',
                                                    'cassandra.connection._ConnectionIOBuffer.reset_cql_frame_buffer',
                                                    'cassandra.connection._ConnectionIOBuffer.reset_io_buffer'],
         native='contracts.native.c05:replay')
def step(vc):
    """for ANY buffered bytes C (valid version, non-negative length): a loop iteration that continues delivered exactly the first
    frame of C (header fields + exact body) and left C minus that frame; the call returns only when no complete frame is at
    the front, with the buffer unchanged and nothing delivered since the last loop head"""
    st = {}
    conn, iob, havoc_heap = _setup(vc, st)
    ctx = vc.ctx

    def inv(L):
        if L._phase in ('init', 'assume'):
            return []
        # phase 'step': one iteration completed and the loop continues
        C = st['C']
        h, n, supported, complete_header, complete = _first_frame_facts(C)
        out = [('continues-only-after-delivering', len(st['delivered']) == 1)]
        if len(st['delivered']) == 1:
            hd, body = st['delivered'][0]
            hs, bl = h['header_size'], h['body_len']
            vc.cover('delivery-path-reachable')
            out += [('frame-was-complete', SBool(complete)),
                    ('header-version', hd.attrs['version'] == SInt(h['version'])),
                    ('header-flags', hd.attrs['flags'] == SInt(h['flags'])),
                    ('header-stream', hd.attrs['stream'] == SInt(h['stream'])),
                    ('header-opcode', hd.attrs['opcode'] == SInt(h['opcode'])),
                    ('exact-body', sym.lift(body) == SBytes(z3.SubSeq(C.t, hs, bl))),
                    ('rest-kept', sym.lift(iob.attrs['_io_buffer'].content) == SBytes(z3.SubSeq(C.t, hs + bl, n - hs - bl))),
                    ('write-position-at-end', iob.attrs['_io_buffer'].pos == sym.lift(iob.attrs['_io_buffer'].content).length()),
                    ('no-current-frame', conn.attrs['_current_frame'] is None)]
        return out
    vc.loop(CQ + 'process_io_buffer', 0, invariant=inv, havoc={'__heap__': havoc_heap})
    vc.call(CQ + 'process_io_buffer', conn)
    # the call returned from inside the loop
    C = st['C']
    h, n, supported, complete_header, complete = _first_frame_facts(C)
    if st['defunct']:
        vc.check('defunct/only-on-bad-header', SBool(z3.And(n >= 1, z3.Or(z3.Not(supported), z3.And(complete_header, h['body_len'] < 0)))))
        return
    vc.assume(SBool(z3.Implies(n >= 1, supported)))
    vc.assume(SBool(z3.Implies(complete_header, h['body_len'] >= 0)))
    vc.cover('return-path-reachable')
    vc.check('return/nothing-delivered', len(st['delivered']) == 0)
    vc.must_fail('selfcheck/returns-only-on-empty-buffer', n == 0)
    vc.check('return/only-when-no-complete-frame', SBool(z3.Not(complete)))
    vc.check('return/buffer-unchanged', sym.lift(iob.attrs['_io_buffer'].content) == C)
    vc.check('return/write-position-at-end', iob.attrs['_io_buffer'].pos == C.length())
    cf = conn.attrs['_current_frame']
    if cf is None:
        vc.check('return/no-frame-only-without-complete-header', SBool(z3.Not(complete_header)) if not st['had_frame'] else False)
    else:
        vc.check('return/current-frame-is-the-front-header',
                 sym.and_(SBool(complete_header), cf.attrs['version'] == SInt(h['version']), cf.attrs['stream'] == SInt(h['stream']),
                          cf.attrs['flags'] == SInt(h['flags']), cf.attrs['opcode'] == SInt(h['opcode']),
                          cf.attrs['body_offset'] == SInt(h['header_size']), cf.attrs['end_pos'] == SInt(h['header_size'] + h['body_len'])))


@harness('C05', 'handle_pushed', functions=[CQ + 'handle_pushed'], native='contracts.native.c05:replay_dispatch')
def pushed(vc):
    """ensures a server-pushed event is given to every watcher registered for its event type (in order, once each), to no
    other watcher, and a raising watcher does not stop the others"""
    from cassandra.connection import Connection
    calls = []
    raises = vc.bool('first_watcher_raises')

    def w1(args):
        calls.append(('w1', args))
        if vc.ctx.branch(raises.t):
            raise PyExc(SObj(Exception, {'args': ('boom',)}))

    def w2(args):
        calls.append(('w2', args))

    def other(args):
        calls.append(('other', args))
    conn = vc.obj(Connection, _push_watchers={'STATUS_CHANGE': [_M(w1), _M(w2)], 'SCHEMA_CHANGE': [_M(other)]})
    et = vc.choice('event_type', ['STATUS_CHANGE', 'SCHEMA_CHANGE', 'TOPOLOGY_CHANGE'])
    args = vc.opaque('event_args')
    resp = vc.obj(Connection, event_type=et, event_args=args)
    vc.call(CQ + 'handle_pushed', conn, resp)
    want = {'STATUS_CHANGE': ['w1', 'w2'], 'SCHEMA_CHANGE': ['other'], 'TOPOLOGY_CHANGE': []}[et]
    vc.check('post/exactly-the-watchers-of-that-type', [c[0] for c in calls] == want)
    vc.check('post/with-the-event-args', all(c[1] is args for c in calls))


@harness('C05', 'process_msg-dispatch', functions=[CQ + 'process_msg'], native='contracts.native.c05:replay_dispatch')
def dispatch(vc):
    """ensures a decoded response with stream id >= 0 goes to the callback registered under that stream id (exactly once, the
    decoded message), and one with a negative stream id goes to handle_pushed and to no request callback"""
    from cassandra.connection import Connection
    from pyvc.libmodels import SymKey
    ctx = vc.ctx
    sid = vc.int('stream_id')
    other = vc.int('other_stream_id')
    vc.assume(sym.and_(other >= 0, other != sid))
    log = []
    decoded = vc.opaque('decoded_message', 'Msg')

    def decoder(*a, **k):
        return decoded
    conn = vc.obj(Connection, _continuous_paging_sessions={}, lock=LockModel('lock'), orphaned_request_ids=set(),
                  in_flight=vc.int('in_flight'), _on_orphaned_stream_released=None, request_ids=[],
                  user_type_map={}, decompressor=None, is_unsupported_proto_version=False, msg_received=False)
    pushed_frame = ctx.branch((sid < 0).t)
    # request ids are never negative (C09): a pushed frame finds no handler of its own registered
    conn.attrs['_requests'] = {SymKey(other): (_M(lambda r: log.append(('other', r))), _M(decoder), None)}
    if not pushed_frame:
        conn.attrs['_requests'][SymKey(sid)] = (_M(lambda r: log.append(('cb', r))), _M(decoder), None)
    vc.stub(CQ + 'handle_pushed', lambda self_, r: log.append(('pushed', r)))
    vc.stub(CQ + 'defunct', lambda self_, exc: log.append(('defunct', exc)))
    import cassandra.connection as cc
    vc.stub(cc.ProtocolHandler.decode_message, decoder)
    header = vc.obj(Connection, stream=sid, version=4, flags=0, opcode=8)
    vc.call(CQ + 'process_msg', conn, header, vc.bytes('body'))
    if pushed_frame:
        vc.check('post/pushed-to-watchers-only', log == [('pushed', decoded)])
        vc.check('post/no-request-id-released', conn.attrs['request_ids'] == [])
    else:
        vc.check('post/own-callback-once', log == [('cb', decoded)])
        vc.check('post/stream-id-released', len(conn.attrs['request_ids']) == 1 and conn.attrs['request_ids'][0] is sid)
        vc.check('post/request-forgotten', len(conn.attrs['_requests']) == 1)
    vc.check('post/other-requests-handler-stays', any(True for k in conn.attrs['_requests']))
    vc.check('post/msg_received-flag', conn.attrs['msg_received'] is True)
