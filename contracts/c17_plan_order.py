"""C17 - hosts are tried in query-plan order and exhaustion is reported."""
import z3
from pyvc.engine import harness
from pyvc import sym
from pyvc.interp import SObj, PyExc, exc_class, GenList
from contracts import rf_common as R

LEVEL = 'proof'
TRUSTED = ['A-AFFINITY: the plan iterator is consumed by one thread at a time', 'A-EXEC, A-LOG',
           'callee contracts of pool.borrow_connection / Connection.send_msg (contracts/rf_common.py)',
           'bounded dimension: plans of up to 3 hosts x 6 pool states each are enumerated (the loop is unrolled); the per-host step is state-independent']
EXPLANATION = 'postconditions over a ghost log on the real send_request/_query/_retry_task/_make_query_plan/start_fetching_next_page'

RF = R.RF
STATES = ['ok', 'missing', 'shutdown', 'busy', 'borrow-error', 'send-error']


def _world(vc, hosts, states):
    return R.World(vc, hosts,
                   pool_state={h: s for h, s in zip(hosts, states) if s in ('missing', 'shutdown')},
                   borrow={h: {'busy': 'busy', 'borrow-error': 'error'}.get(s, 'ok') for h, s in zip(hosts, states)},
                   send={h: ('raise' if s == 'send-error' else 'ok') for h, s in zip(hosts, states)})


@harness('C17', 'send_request', functions=[RF + 'send_request', RF + '_query'], native='contracts.native.c17:replay')
def send_request(vc):
    """for every plan of up to 3 hosts and every per-host pool state: hosts are tried in plan order, each at most once; the first
    usable host gets exactly the message and its request id is remembered (0 included); every skipped host has its reason in
    _errors; NoHostAvailable(with all reasons) only after the whole plan was tried (and only when asked to report it)"""
    from cassandra import OperationTimedOut
    from cassandra.cluster import NoHostAvailable
    n = vc.choice('plan_length', [0, 1, 2, 3])
    hosts = [R.Host('h%d' % i) for i in range(n)]
    states = [vc.choice('state_h%d' % i, STATES) for i in range(n)]
    world = _world(vc, hosts, states)
    rid0 = vc.choice('first_request_id', [0, 5])
    world.new_request_id = lambda host: rid0
    session = R.Session(world, 4)
    fut = R.make_future(vc, world, session, hosts)
    report = vc.choice('error_no_hosts', [True, False])
    r = vc.call(RF + 'send_request', fut, error_no_hosts=report)
    tried = [e[1] for e in world.log if e[0] == 'borrow'] if True else None
    # hosts examined = all hosts up to and including the first usable one
    first_ok = next((i for i, s in enumerate(states) if s == 'ok'), None)
    examined = hosts if first_ok is None else hosts[:first_ok + 1]
    want_borrows = [h for h, s in zip(examined, [states[hosts.index(h)] for h in examined]) if s not in ('missing', 'shutdown')]
    vc.check('post/borrow-order-is-plan-order-each-once', tried == want_borrows)
    sends = world.sends()
    if first_ok is not None:
        vc.check('ok/returns-true', r is True)
        vc.check('ok/exactly-one-message-to-first-usable-host', len(sends) == 1 and sends[0][1] is hosts[first_ok] and sends[0][2] is fut.attrs['message'])
        vc.check('ok/request-id-remembered', fut.attrs['_req_id'] == rid0 and fut.attrs['_req_id'] is not None)
        vc.check('ok/not-completed', fut.ghost['completions'] == [])
        vc.check('ok/attempted-hosts', fut.attrs['attempted_hosts'] == [hosts[first_ok]])
        vc.check('ok/rest-of-plan-untouched', list(fut.attrs['query_plan'].items[fut.attrs['query_plan'].pos:]) == hosts[first_ok + 1:])
    else:
        vc.check('exhausted/returns-false', r is False)
        vc.check('exhausted/nothing-sent', sends == [])
        if report:
            comps = fut.ghost['completions']
            vc.check('exhausted/NoHostAvailable-once', len(comps) == 1 and comps[0][0] == 'exception' and issubclass(exc_class(comps[0][1]), NoHostAvailable))
            if len(comps) == 1:
                errs = comps[0][1].attrs.get('errors') if isinstance(comps[0][1], SObj) else getattr(comps[0][1], 'errors', None)
                vc.check('exhausted/lists-every-host', errs is not None and all(h in errs for h in hosts) and len(errs) == len(hosts))
        else:
            vc.check('exhausted/not-completed-when-not-asked', fut.ghost['completions'] == [])
    skipped = examined[:-1] if first_ok is not None else examined
    vc.check('post/every-skipped-host-has-a-reason', all(h in fut.attrs['_errors'] for h in skipped))
    if n == 3 and first_ok == 1:
        vc.must_fail('selfcheck/sent-to-first-host', len(sends) == 1 and sends[0][1] is hosts[0])


@harness('C17', '_retry_task', functions=[RF + '_retry_task', RF + '_query', RF + 'send_request'], native='contracts.native.c17:replay')
def retry_task(vc):
    """ensures a retry on the same host re-sends to that host only (request id 0 counts as sent); otherwise, or when that host is not
    usable, the request goes to the next host of the plan; an already failed future sends nothing"""
    h1, h2 = R.Host('h1'), R.Host('h2')
    s1 = vc.choice('state_h1', STATES)
    world = _world(vc, [h1, h2], [s1, 'ok'])
    rid0 = vc.choice('request_id', [0, 5])
    world.new_request_id = lambda host: rid0
    session = R.Session(world, 4)
    fut = R.make_future(vc, world, session, [h2])
    reuse = vc.choice('reuse_connection', [True, False])
    failed = vc.choice('already_failed', [False, True])
    if failed:
        fut.attrs['_final_exception'] = SObj(Exception, {'args': ('x',)})
    vc.call(RF + '_retry_task', fut, reuse, h1)
    sends = [e[1] for e in world.sends()]
    if failed:
        vc.check('failed/nothing-sent', sends == [])
    elif reuse and s1 == 'ok':
        vc.check('reuse/same-host-only', sends == [h1])
    else:
        vc.check('next/next-host-of-plan', sends == [h2])


@harness('C17', 'query-plan', functions=[RF + '_make_query_plan', RF + 'start_fetching_next_page'], native='contracts.native.c17:replay')
def query_plan(vc):
    """ensures an explicitly targeted host is the whole plan - for the first request and for every later page - and otherwise the
    plan is exactly the load-balancing policy's plan, consumed lazily in order"""
    h1, h2, hx = R.Host('h1'), R.Host('h2'), R.Host('hx')
    world = _world(vc, [h1, h2, hx], ['ok', 'ok', 'ok'])
    session = R.Session(world, 4)
    fut = R.make_future(vc, world, session, [])
    targeted = vc.choice('targeted', [True, False])
    fut.attrs['_host'] = hx if targeted else None
    calls = []

    class LB(object):
        def make_query_plan(self, keyspace, query):
            calls.append((keyspace, query))
            return [h1, h2]
    fut.attrs['_load_balancer'] = LB()
    which = vc.choice('entry', ['_make_query_plan', 'start_fetching_next_page'])
    if which == 'start_fetching_next_page':
        fut.attrs['_paging_state'] = b'ps'
        fut.attrs['_spec_execution_plan'] = _NoSpec()
    vc.call(RF + which, fut)
    if which == '_make_query_plan':
        plan = fut.attrs['query_plan']
        items = list(plan.items[plan.pos:]) if isinstance(plan, GenList) else list(plan)
        vc.check('post/plan', items == ([hx] if targeted else [h1, h2]))
    else:
        sends = [e[1] for e in world.sends()]
        vc.check('page/sent-to-target-or-first-of-plan', sends == ([hx] if targeted else [h1]))
        vc.check('page/carries-paging-state', fut.attrs['message'].attrs['paging_state'] == b'ps')


@harness('C17', 'constructor', functions=[RF + '__init__', RF + '_make_query_plan'], native='contracts.native.c17:replay')
def constructor(vc):
    """ensures a future constructed with host=h starts out with the plan [h] - the first attempt of a targeted request goes to the target, the
    load-balancing policy is not asked - and one constructed without a target with exactly the policy's plan for (session keyspace, query); the
    message, the timeout and the retry policy it was given are the ones the attempts will read"""
    import threading
    from cassandra.cluster import ResponseFuture
    h1, h2, hx = R.Host('h1'), R.Host('h2'), R.Host('hx')
    world = _world(vc, [h1, h2, hx], ['ok', 'ok', 'ok'])
    session = R.Session(world, 4)
    targeted = vc.choice('targeted', [True, False])
    calls = []

    class LB(object):
        def make_query_plan(self, keyspace, query):
            calls.append((keyspace, query))
            return [h1, h2]
    lb_from = vc.choice('load_balancer', ['argument', 'cluster-default'])
    lb = LB()
    if lb_from == 'cluster-default':
        session.cluster._default_load_balancing_policy = lb
    fut = vc.obj(ResponseFuture)
    vc.stub(RF + '_start_timer', lambda self_: None)
    msg, query, rp = object(), object(), object()
    vc.call(RF + '__init__', fut, session, msg, query, 2.5, retry_policy=rp, load_balancer=(lb if lb_from == 'argument' else None),
            host=(hx if targeted else None))
    plan = fut.attrs.get('query_plan')
    items = list(plan.items[plan.pos:]) if isinstance(plan, GenList) else list(plan)
    vc.check('post/first-plan-is-the-target-alone-or-the-policy-plan', items == ([hx] if targeted else [h1, h2]))
    vc.check('post/policy-not-consulted-for-a-targeted-request', calls == ([] if targeted else [(session.keyspace, query)]))
    vc.check('post/target-remembered-for-later-pages', fut.attrs.get('_host') is (hx if targeted else None))
    vc.check('post/message-timeout-policy-kept', fut.attrs.get('message') is msg and fut.attrs.get('timeout') == 2.5 and fut.attrs.get('_retry_policy') is rp)
    vc.check('post/nothing-attempted-yet', fut.attrs.get('attempted_hosts') == [] and fut.attrs.get('_errors') == {} and world.sends() == [])


class _NoSpec(object):
    def next_execution(self, host):
        return -1


SE = 'cassandra.cluster.Session.'


@harness('C17', 'target-forwarded', functions=[SE + 'execute', SE + 'execute_async', SE + '_create_response_future'], native='contracts.native.c17:replay')
def target_forwarded(vc):
    """the explicitly targeted host (and every other per-request argument) given to Session.execute / execute_async reaches the ResponseFuture that
    _make_query_plan reads it from: ensures execute -> execute_async -> _create_response_future -> ResponseFuture(host=...) hand on exactly the caller's
    query, parameters, trace flag, payload (+ the execute_as entry), timeout, profile, paging state and target host, for the synchronous and the asynchronous entry"""
    from cassandra.cluster import Session
    from contracts import c46_options as C46
    entry = vc.choice('entry', ['execute', 'execute_async', '_create_response_future'])
    tok = {k: C46._Obj(k) for k in ('query', 'parameters', 'timeout', 'profile', 'paging_state', 'host')}
    if entry == '_create_response_future':
        C46._TARGET = tok['host']
        try:
            out = C46.create_future(vc, vary=())
        finally:
            C46._TARGET = None
        if out is None or out[1]['result'][0] != 'ok':
            return
        vc.check('future/constructed-with-the-target', out[0].get('host') is tok['host'])
        return
    seen = {}

    class Fut(object):
        def send_request(self):
            seen['sent'] = seen.get('sent', 0) + 1

        def result(self):
            return 'ROWS'

    def crf(self_, query, parameters=None, trace=False, custom_payload=None, timeout=None, execution_profile=None, paging_state=None, host=None):
        seen.update(query=query, parameters=parameters, trace=trace, custom_payload=custom_payload, timeout=timeout, profile=execution_profile,
                    paging_state=paging_state, host=host)
        return Fut()
    vc.stub(SE + '_create_response_future', crf)
    vc.stub(SE + '_on_request', lambda self_, f: None)
    sess = vc.obj(Session, client_protocol_handler='HANDLER')
    as_user = vc.choice('execute_as', [None, 'alice'])
    trace = vc.choice('trace', [False, True])
    payload = {'k': b'v'}
    kw = dict(parameters=tok['parameters'], timeout=tok['timeout'], trace=trace, custom_payload=payload, execution_profile=tok['profile'],
              paging_state=tok['paging_state'], host=tok['host'], execute_as=as_user)
    vc.call(SE + entry, sess, tok['query'], **kw)
    vc.check('forwarded/target-host', seen.get('host') is tok['host'])
    vc.check('forwarded/query-parameters-timeout-profile-paging-state',
             all(seen.get(k) is tok[k] for k in ('query', 'parameters', 'timeout', 'profile', 'paging_state')) and seen.get('trace') is trace)
    cp = seen.get('custom_payload') or {}
    vc.check('forwarded/payload-with-proxy-user', cp.get('k') == b'v' and (cp.get('ProxyExecute') == b'alice' if as_user else 'ProxyExecute' not in cp))
    vc.check('forwarded/sent-once', seen.get('sent') == 1)
