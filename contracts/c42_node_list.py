"""C42 - node-list refreshes make cluster metadata mirror the system tables."""
import os
from pyvc.engine import harness
from pyvc import sym
from pyvc.interp import SObj, PyExc
from pyvc.libmodels import LockModel, _M, unwrap_key
from contracts.native import c42 as N

LEVEL = 'proof'
TRUSTED = ['rows matter only through presence/absence and equality of address, host id, datacenter, rack, tokens: every combination of the 8 row kinds x '
           'previously known / unknown / known elsewhere is enumerated symbolically (choice variables), for snapshots of up to 2 peers (3 peers: membership harness in the thorough tier); the per-row step is independent of the number of rows',
           'history clause: each refresh is verified from an ARBITRARY prior host set (known/unknown per address + a stale host), so a sequence of snapshots is a composition of single-refresh contracts',
           'callee contracts: Cluster.on_add / on_remove announce exactly once per call (C13/C45 cover what they do), Metadata.rebuild_token_map (C26), the endpoint factory maps equal addresses to equal endpoints',
           'A-LOG']
EXPLANATION = 'postconditions over a ghost notification log on the real ControlConnection._refresh_node_list_and_token_map, _is_valid_peer, _update_location_info, Cluster.add_host/remove_host and Metadata.add_or_return_host/remove_host/get_host/all_hosts'

CC = 'cassandra.cluster.ControlConnection.'
KF = 'KF-C42-token-change-without-membership-change'
TIER = os.environ.get('VERIF_TIER', 'quick')


class Result(object):
    def __init__(self, cols, rows):
        self.column_names = cols
        self.parsed_rows = [tuple(r.get(c) for c in cols) for r in rows]


def _run(vc, s, log, rebuilt):
    from cassandra.cluster import ControlConnection, Cluster
    from cassandra.metadata import Metadata
    from cassandra.pool import Host
    from cassandra.connection import DefaultEndPoint
    hosts = {}
    for addr, (dc, rack) in s.known.items():
        ep = DefaultEndPoint(addr, 9042)
        hosts[ep] = vc.obj(Host, endpoint=ep, _datacenter=dc, _rack=rack, host_id=None, conviction_policy=None, lock=LockModel('Host.lock'))
    md = vc.obj(Metadata, _hosts=hosts, _hosts_lock=LockModel('Metadata._hosts_lock'), cluster_name=None,
                partitioner=None if s.first_build else 'org.apache.cassandra.dht.Murmur3Partitioner', token_map=None)

    class PM(object):
        def on_down(self, h):
            log.append(('lbp-down', h.attrs['endpoint'].address, (h.attrs['_datacenter'], h.attrs['_rack'])))

        def on_up(self, h):
            log.append(('lbp-up', h.attrs['endpoint'].address, (h.attrs['_datacenter'], h.attrs['_rack'])))

    class EPF(object):
        def create(self, row):
            return DefaultEndPoint(row.get('rpc_address') or row.get('peer'), 9042)
    cluster = vc.obj(Cluster, metadata=md, conviction_policy_factory=_M(lambda h: None, 'conviction_policy_factory'), profile_manager=PM(),
                     endpoint_factory=EPF())
    vc.stub('cassandra.cluster.Cluster.on_add', lambda self_, h, refresh_nodes=True: log.append(('announce', h.attrs['endpoint'].address, refresh_nodes)))
    vc.stub('cassandra.cluster.Cluster.on_remove', lambda self_, h: log.append(('remove', h.attrs['endpoint'].address)))
    vc.stub('cassandra.metadata.Metadata.rebuild_token_map',
            lambda self_, p, tm: rebuilt.append((p, {unwrap_key(h).attrs['endpoint'].address: t for h, t in tm.items()})))
    cc = vc.obj(ControlConnection, _cluster=cluster, _token_meta_enabled=s.token_meta, _timeout=2.0)

    class Conn(object):
        endpoint = DefaultEndPoint(N.CONTROL, 9042)
    pcols = [c for c in N.PEER_COLS if s.token_meta or c != 'tokens']
    lcols = [c for c in N.LOCAL_COLS if s.token_meta or c != 'tokens']
    vc.call(CC + '_refresh_node_list_and_token_map', cc, Conn(),
            preloaded_results=[Result(pcols, s.peers), Result(lcols, [s.local_row] if s.local_present else [])], force_token_rebuild=s.force)
    return md


def _membership_checks(vc, s, o, md, log):
    hosts_after = set(ep.address for ep in md.attrs['_hosts'])
    vc.check('post/known-hosts-are-control-plus-valid-distinct-peers', hosts_after == o.hosts)
    vc.check('post/new-hosts-announced-exactly-once', sorted(e[1] for e in log if e[0] == 'announce') == o.announced)
    vc.check('post/vanished-hosts-removed-exactly-once', sorted(e[1] for e in log if e[0] == 'remove') == o.removed)
    vc.check('post/hosts-keyed-by-their-endpoint', all(h.attrs['endpoint'] == ep for ep, h in md.attrs['_hosts'].items()))
    for row in o.rows_used:
        h = [x for ep, x in md.attrs['_hosts'].items() if ep.address == row['rpc_address']]
        vc.check('post/host-attributes-from-its-row', len(h) == 1 and h[0].attrs['host_id'] == row['host_id'] and
                 (h[0].attrs['_datacenter'], h[0].attrs['_rack']) == (row['data_center'], row['rack']))


def _rebuild_checks(vc, s, o, rebuilt):
    if o.must_rebuild:
        vc.check('post/token-map-rebuilt-once-when-membership-changed', len(rebuilt) == 1)
        if len(rebuilt) == 1:
            vc.check('post/rebuilt-from-the-tokens-of-exactly-the-found-hosts', rebuilt[0] == (o.partitioner, o.token_map))
    else:
        vc.check('post/at-most-one-rebuild', len(rebuilt) <= 1)
    if not o.partitioner:
        vc.check('post/no-rebuild-without-partitioner', rebuilt == [])


def _mk(name, doc):
    cfg = N.CONFIGS[name]

    @harness('C42', name, functions=[CC + '_refresh_node_list_and_token_map', CC + '_is_valid_peer', CC + '_update_location_info',
                                     'cassandra.cluster.Cluster.add_host', 'cassandra.cluster.Cluster.remove_host',
                                     'cassandra.metadata.Metadata.add_or_return_host', 'cassandra.metadata.Metadata.remove_host',
                                     'cassandra.metadata.Metadata.get_host', 'cassandra.metadata.Metadata.all_hosts',
                                     'cassandra.metadata._NodeInfo.get_broadcast_rpc_address'],
             native='contracts.native.c42:replay')
    def h(vc):
        s = N.build(vc.choice, **cfg)
        o = N.oracle(s)
        log, rebuilt = [], []
        md = _run(vc, s, log, rebuilt)
        _membership_checks(vc, s, o, md, log)
        _rebuild_checks(vc, s, o, rebuilt)
        if name == 'location':
            for a in o.relocated:
                ev = [e for e in log if e[0].startswith('lbp') and e[1] == a]
                vc.check('post/location-change-reaches-policies-as-down(old)-then-up(new)',
                         ev == [('lbp-down', a, s.known[a]), ('lbp-up', a, o.location[a])])
            vc.check('post/no-policy-churn-for-unchanged-hosts', sorted(set(e[1] for e in log if e[0].startswith('lbp'))) == o.relocated)
            if o.relocated and o.partitioner:
                vc.check('post/rebuilt-when-a-peer-moved-datacenter-or-rack', len(rebuilt) == 1 or o.relocated == [N.CONTROL])
        if name == 'membership' and len(s.peers) == 2:
            vc.must_fail('selfcheck/nothing-ever-announced', not [e for e in log if e[0] == 'announce'])
    h.__doc__ = doc
    return h


_mk('membership', 'for every snapshot of up to 2 peer rows of every kind (valid, missing address/host id/dc/rack/tokens, duplicate of the control node or of '
    'the previous row) over every prior host set: ensures hosts == {control} + valid distinct peers; new hosts announced once; vanished hosts removed once')
if TIER != 'quick':
    _mk('membership[3-peers]', 'the same for 3 peer rows (thorough tier)')
_mk('location', 'ensures a datacenter/rack change of a known host (peer or control node) reaches the load-balancing policies as on_down(host at old location) '
    'then on_up(host at new location), and only for hosts whose location changed')
_mk('token-map', 'ensures the token map is rebuilt exactly once from the tokens of exactly the found hosts whenever membership changed, a rebuild was forced or '
    'none was built yet (given a partitioner); never without a partitioner')


@harness('C42', 'token-change', functions=[CC + '_refresh_node_list_and_token_map'], native='contracts.native.c42:replay')
def token_change(vc):
    """ensures the token map is rebuilt when the tokens of a known host changed and membership did not"""
    s = N.build(lambda name, opts: {'peers': 1}.get(name, opts[0]), max_peers=1, vary=())
    s.known['10.0.0.1'] = ('dc1', 'r0')
    s.peers[0]['tokens'] = ['777']      # the token map in use was built from ['100']
    log, rebuilt = [], []
    _run(vc, s, log, rebuilt)
    vc.check('KF:%s/rebuilt-when-only-tokens-changed' % KF, len(rebuilt) == 1)
