"""C41 - protocol negotiation only steps down and terminates."""
import weakref
import z3
from pyvc.engine import harness, PathAbort
from pyvc import sym, frames
from pyvc.interp import SObj, PyExc, make_exception
from contracts.native import c41 as N

LEVEL = 'proof'
TRUSTED = ['A-TYPES: protocol versions are ints',
           'A-LOG', 'the part of ControlConnection._try_connect after the negotiation loop is cut (not relevant to the property)',
           'A-AFFINITY: process_msg runs on the event-loop thread; Connection.factory waits on connected_event, which defunct() sets']
EXPLANATION = 'symbolic execution of get_lower_supported / protocol_downgrade / the _try_connect negotiation loop (inductive invariant + variant) / Connection.factory / process_msg flag ordering'


@harness('C41', 'get_lower_supported', functions=['cassandra.ProtocolVersion.get_lower_supported'],
         native='contracts.native.c41:replay')
def lower(vc):
    """ensures result == max{v supported, non-beta, v < previous} or 0 when there is none, for every int previous_version"""
    p = vc.int('previous_version')
    r = vc.call('cassandra.ProtocolVersion.get_lower_supported', p)
    for n, c in N.post_lower(p, r):
        vc.check('post/' + n, c)
    vc.must_fail('selfcheck/never-zero', sym.not_(N.eq(r, 0)))


def _cluster(vc):
    from cassandra.cluster import Cluster
    v = vc.int('protocol_version')
    vc.assume(N.in_(v, N.SUPPORTED))
    return vc.obj(Cluster, _protocol_version_explicit=vc.bool('explicit'), protocol_version=v), v


@harness('C41', 'protocol_downgrade', functions=['cassandra.cluster.Cluster.protocol_downgrade'],
         native='contracts.native.c41:replay')
def downgrade(vc):
    """ensures explicit => raises DriverException, version unchanged; else version' == next lower non-beta < previous,
    or raises (unchanged) when that is below the minimum"""
    from cassandra import DriverException
    self, v0 = _cluster(vc)
    prev = vc.int('previous_version')
    vc.assume(N.in_(prev, N.SUPPORTED))
    kind, val = vc.call_catch('cassandra.cluster.Cluster.protocol_downgrade', self, vc.opaque('endpoint'), prev)
    explicit = self.attrs['_protocol_version_explicit']
    v1 = self.attrs['protocol_version']
    lower = sym.SInt(z3.IntVal(0))
    for cand in sorted(N.NONBETA):
        lower = sym.ite(cand < prev, cand, lower)
    if kind == 'exc':
        vc.check('raises/is-DriverException', vc.exc_is(val, DriverException))
        vc.check('raises/only-when-explicit-or-exhausted', sym.or_(explicit, lower < N.MIN_SUPPORTED))
        vc.check('raises/version-unchanged', v1 == v0)
    else:
        vc.check('post/not-explicit', sym.not_(explicit))
        vc.check('post/next-lower-nonbeta', v1 == lower)
        vc.check('post/steps-down', v1 < prev)
        vc.check('post/at-least-min', v1 >= N.MIN_SUPPORTED)


@harness('C41', 'try_connect_loop', functions=['cassandra.cluster.ControlConnection._try_connect'])
def try_connect(vc):
    """negotiation loop of _try_connect against ANY server behaviour: invariant MIN <= version <= initial version,
    variant: version strictly decreases on every iteration that does not leave the loop; callee protocol_downgrade by contract"""
    from cassandra.cluster import ControlConnection, Cluster
    from cassandra import DriverException
    from cassandra.connection import ProtocolVersionUnsupported
    from cassandra.protocol import ProtocolException
    ctx = vc.ctx
    cluster, v0 = _cluster(vc)
    st = {'downgrades': 0}

    def factory(self_, endpoint, *a, **k):
        # arbitrary server: accept, reject the version, report a (beta or other) protocol error
        outcome = ctx.fresh_int('server_outcome', register=False)
        if ctx.branch(outcome.t == 0):
            return vc.obj(ControlConnection, _marker='connection')
        if ctx.branch(outcome.t == 1):
            raise PyExc(SObj(ProtocolVersionUnsupported, {'args': ('x',), 'startup_version': self_.attrs['protocol_version']}))
        beta = ctx.fresh_bool('is_beta_error', register=False)
        raise PyExc(SObj(ProtocolException, {'args': ('x',), 'is_beta_protocol_error': beta, 'message': 'm'}))
    vc.stub('cassandra.cluster.Cluster.connection_factory', factory)

    def downgrade_contract(self_, endpoint, previous_version):
        vc.check('pre@protocol_downgrade/previous-is-current', previous_version == self_.attrs['protocol_version'])
        st['downgrades'] += 1
        if ctx.branch(ctx.fresh_bool('downgrade_raises', register=False).t):
            raise PyExc(make_exception(ctx, DriverException, ['cannot downgrade'], {}))
        nv = ctx.fresh_int('new_version', register=False)
        ctx.assume(sym.and_(N.in_(nv, N.NONBETA), nv < previous_version, nv >= N.MIN_SUPPORTED,
                            sym.not_(self_.attrs['_protocol_version_explicit'])), silent=True)
        self_.attrs['protocol_version'] = nv
    vc.stub('cassandra.cluster.Cluster.protocol_downgrade', downgrade_contract)

    def havoc_heap(c):
        nv = c.fresh_int('version_at_loop_head', register=False)
        cluster.attrs['protocol_version'] = nv
    vc.loop('cassandra.cluster.ControlConnection._try_connect', 0,
            invariant=lambda L: [('version-never-above-initial', cluster.attrs['protocol_version'] <= v0),
                                 ('version-at-least-min', cluster.attrs['protocol_version'] >= N.MIN_SUPPORTED)],
            havoc={'__heap__': havoc_heap},
            decreases=lambda L: cluster.attrs['protocol_version'])

    def after_loop(*a, **k):
        vc.check('post/connected-at-version-not-above-initial', cluster.attrs['protocol_version'] <= v0)
        raise PathAbort('rest of _try_connect is outside the property')
    vc.stub(weakref.proxy, after_loop)
    host = vc.obj(ControlConnection, endpoint=vc.opaque('endpoint'))
    cc = vc.obj(ControlConnection, _cluster=cluster, _is_shutdown=vc.bool('is_shutdown'))
    kind, val = vc.call_catch('cassandra.cluster.ControlConnection._try_connect', cc, host)
    # leaving by exception: the version never went up
    vc.check('raises/version-not-above-initial', cluster.attrs['protocol_version'] <= v0)


@harness('C41', 'factory', functions=['cassandra.connection.Connection.factory'])
def factory(vc):
    """ensures: a connection whose handshake was rejected for its protocol version makes factory raise
    ProtocolVersionUnsupported carrying exactly the version that was requested"""
    from cassandra.connection import Connection, ProtocolVersionUnsupported
    ctx = vc.ctx
    pv = vc.int('protocol_version')
    unsupported = vc.bool('is_unsupported_proto_version')
    has_error = vc.bool('has_error')

    class Ev(object):
        def wait(self, t=None):
            return None

        def is_set(self):
            return True

    def cls(endpoint, *a, **k):
        err = SObj(Exception, {'args': ('boom',)}) if ctx.branch(has_error.t) else None
        return vc.obj(Connection, protocol_version=k['protocol_version'], last_error=err,
                      is_unsupported_proto_version=unsupported, connected_event=Ev())
    from pyvc.libmodels import _M
    kind, val = vc.call_catch(Connection.factory.__func__, _M(cls), vc.opaque('endpoint'), 5.0, protocol_version=pv)
    if kind == 'exc':
        vc.check('raises/only-on-error', has_error)
        if vc.exc_is(val, ProtocolVersionUnsupported):
            vc.check('raises/unsupported-flagged', unsupported)
            vc.check('raises/startup-version-is-requested', val.attrs['startup_version'] == pv)
        else:
            vc.check('raises/other-error-only-when-not-flagged', sym.not_(unsupported))
    else:
        vc.check('post/returned-only-without-error', sym.not_(has_error))


@harness('C41', 'process_msg_flag_order', functions=['cassandra.connection.Connection.process_msg'],
         native='contracts.native.c41:replay')
def process_msg(vc):
    """ensures: when the server answers 'unsupported protocol version', is_unsupported_proto_version is already True
    at the moment defunct() runs (defunct sets connected_event, which releases the thread blocked in factory)"""
    from cassandra.connection import Connection
    from cassandra.protocol import ProtocolException
    from pyvc.libmodels import LockModel, _M
    ctx = vc.ctx
    sid = vc.int('stream_id')
    vc.assume(sid >= 0)
    msg = vc.str('message')
    seen = {}
    resp = SObj(ProtocolException, {'message': msg, 'args': (), 'code': 10, 'info': None})

    def decoder(*a, **k):
        return resp

    def callback(r):
        return None
    self = vc.obj(Connection, _continuous_paging_sessions={}, lock=LockModel('lock'), orphaned_request_ids=set(),
                  in_flight=vc.int('in_flight'), _on_orphaned_stream_released=None, request_ids=[],
                  user_type_map={}, decompressor=None, is_unsupported_proto_version=False, msg_received=False)
    self.attrs['_requests'] = {}
    from pyvc.libmodels import SymKey
    self.attrs['_requests'][SymKey(sid)] = (_M(callback), _M(decoder), None)

    def defunct(self_, exc):
        seen['flag'] = self_.attrs['is_unsupported_proto_version']
        seen['n'] = seen.get('n', 0) + 1
    vc.stub('cassandra.connection.Connection.defunct', defunct)
    header = vc.obj(Connection, stream=sid, version=4, flags=0, opcode=0)
    vc.call('cassandra.connection.Connection.process_msg', self, header, vc.bytes('body'))
    is_unsupp = msg.contains('unsupported protocol version')
    vc.check('post/defunct-called-once', seen.get('n', 0) == 1)
    vc.check('post/flag-set-before-defunct', sym.implies(is_unsupp, seen.get('flag', False) is True or seen.get('flag', False)))
    vc.check('post/flag-iff-unsupported', self.attrs['is_unsupported_proto_version'] == is_unsupp
             if sym.is_sym(self.attrs['is_unsupported_proto_version']) else
             sym.SBool(z3.BoolVal(bool(self.attrs['is_unsupported_proto_version']))) == is_unsupp)


@harness('C41', 'frame', functions=[])
def frame(vc):
    """frame: Cluster.protocol_version is assigned only by Cluster.__init__ and Cluster.protocol_downgrade"""
    ok, bad, sites = frames.frame_ok('protocol_version', {
        'cassandra/cluster.py::Cluster.__init__', 'cassandra/cluster.py::Cluster.protocol_downgrade'},
        files=['cassandra/cluster.py'])
    vc.check('frame/protocol_version', ok, note=str(bad))


@harness('C41', 'explicit-version-recorded', functions=['cassandra.cluster.Cluster.__init__'], native='contracts.native.c41:replay')
def explicit_recorded(vc):
    """"never stepping down from a version the user fixed" needs the constructor to remember THAT the user fixed one.  The statements of
    Cluster.__init__ that mention protocol_version / _protocol_version_explicit, executed for every int the caller may pass and for the argument left
    out: ensures an argument that was given is the cluster's version and marks it explicit - also when it equals the class default - and an argument
    left out leaves the default version, not explicit"""
    from cassandra.cluster import Cluster, _NOT_SET
    given = vc.choice('protocol_version_argument', ['given', 'left-out'])
    v = vc.int('protocol_version')
    self = vc.obj(Cluster)
    vc.exec_slices('cassandra.cluster.Cluster.__init__', r'_protocol_version_explicit|self\.protocol_version\b',
                   dict(self=self, protocol_version=(v if given == 'given' else _NOT_SET)))
    explicit = self.attrs.get('_protocol_version_explicit', Cluster._protocol_version_explicit)
    now = self.attrs.get('protocol_version', Cluster.protocol_version)
    if given == 'given':
        vc.check('given/marked-explicit-whatever-the-number', explicit if sym.is_sym(explicit) else explicit is True,
                 note='also for the class default %r' % (Cluster.protocol_version,))
        vc.check('given/is-the-cluster-version', now == v)
    else:
        vc.check('left-out/not-explicit', explicit is False)
        vc.check('left-out/class-default-version', now == Cluster.protocol_version)
