"""C32 - concurrent execution returns one ordered result per statement."""
import os
from pyvc.engine import harness, PathAbort
from pyvc import sym
from pyvc.interp import SObj, PyExc, exc_class, make_exception, call_value
from pyvc.libmodels import LockModel, _M

LEVEL = 'proof'
TRUSTED = ['E-COND: threading.Condition = re-entrant lock + wait/notify; a waiter resumes only after a notify() issued by a completion that ran on another thread while the lock was free (no spurious wake-ups assumed) '
           '(completions are delivered, in every possible order, at the points where the calling thread does not hold the lock: inside wait() and right after execute() '
           'released the lock); a wait with nothing left to arrive is a hang and is reported',
           'A-ATOMIC: list.append / heap operations are atomic (GIL); regions under the condition lock are atomic',
           'callee contract of Session.execute_async + ResponseFuture.add_callbacks: raises synchronously, or runs the callback/errback immediately when already complete, or exactly once later',
           'E-FUTURE: concurrent.futures.Future accepts one set_result/set_exception and raises InvalidStateError on a second',
           'bounded dimension: up to 3 statements (thorough: 4) x 5 behaviours each x concurrency 1..n+1 x fail-fast x all completion orders are enumerated; executions are independent, so longer inputs repeat verified steps',
           'the recursion guard (max_error_recursion = 100 -> Session.submit) is covered with the limit patched to 2']
EXPLANATION = 'postconditions over ghost started/finished sets on the real execute_concurrent / execute_concurrent_async and the three executor classes, explored under every completion schedule'

KINDS = ['async-ok', 'async-error', 'sync-raise', 'sync-ok', 'sync-error']
TIER = os.environ.get('VERIF_TIER', 'quick')


class Hang(Exception):
    pass


class World(object):
    def __init__(self, vc, kinds):
        self.vc, self.kinds = vc, kinds
        self.pending = []           # (idx, FutureStub) started, not yet completed
        self.started, self.finished = [], []
        self.max_inflight = 0
        self.submitted = []
        self.deliveries = 0

    def note_start(self, idx):
        self.started.append(idx)
        self.max_inflight = max(self.max_inflight, len(self.started) - len(self.finished))

    def deliver_one(self, label):
        """run the completion of one pending execution (chosen arbitrarily) as another thread would, with the lock free"""
        if self.submitted:
            fn, a, k = self.submitted.pop(0)
            call_value(self.vc.ctx, fn, list(a), dict(k))
            return True
        if not self.pending:
            return False
        self.deliveries += 1
        i = self.vc.choice('%s_%d_delivers_pending' % (label, self.deliveries), list(range(len(self.pending)))) if len(self.pending) > 1 else 0
        idx, fut = self.pending.pop(i)
        fut.complete()
        return True


class FutureStub(object):
    _col_names = _col_types = None
    has_more_pages = False
    _continuous_paging_session = None

    def __init__(self, world, idx, kind):
        self.world, self.idx, self.kind = world, idx, kind
        self.cb = None

    def add_callbacks(self, callback, errback, callback_args=(), callback_kwargs=None, errback_args=(), errback_kwargs=None):
        self.cb = (callback, callback_args, errback, errback_args)
        if self.kind.startswith('sync'):
            self.complete()
        else:
            self.world.pending.append((self.idx, self))

    def complete(self):
        w = self.world
        w.finished.append(self.idx)
        callback, cargs, errback, eargs = self.cb
        if self.kind.endswith('ok'):
            call_value(w.vc.ctx, callback, [['row-of-%d' % self.idx]] + list(cargs), {})
        else:
            call_value(w.vc.ctx, errback, [w.error(self.idx)] + list(eargs), {})

    def clear_callbacks(self):
        pass


class Session(object):
    def __init__(self, world):
        self.world = world
        self.errors = {}

    def execute_async(self, statement, params, timeout=None, execution_profile=None, **kw):
        w = self.world
        idx = statement
        w.note_start(idx)
        kind = w.kinds[idx]
        if kind == 'sync-raise':
            w.finished.append(idx)
            raise PyExc(w.error(idx))
        return FutureStub(w, idx, kind)

    def submit(self, fn, *a, **k):
        self.world.submitted.append((fn, a, k))
        self.world.submit_count = getattr(self.world, 'submit_count', 0) + 1


class Cond(object):
    """threading.Condition (E-COND)"""

    def __init__(self, world):
        self.world, self.depth, self.notified = world, 0, 0
        self.first_release_done = False

    def __enter__(self):
        self.depth += 1
        return self

    def __exit__(self, *a):
        self.depth -= 1
        if self.depth == 0 and not self.first_release_done:
            self.first_release_done = True
            w = self.world
            if w.early == 'all-before-results-are-collected':
                while w.deliver_one('early'):
                    pass
        return False

    def acquire(self):
        self.depth += 1

    def release(self):
        self.depth -= 1

    def notify(self, n=1):
        self.notified += 1

    def notify_all(self):
        self.notified += 1

    def wait(self, timeout=None):
        w = self.world
        n0 = self.notified
        d, self.depth = self.depth, 0
        try:
            # the waiter sleeps until some completion notifies it; completions that do not notify leave it asleep
            while self.notified == n0:
                if not w.deliver_one('wait'):
                    raise PyExc(make_exception(w.vc.ctx, Hang, ['caller waits forever: nothing left that could notify'], {}))
        finally:
            self.depth = d


class PyFuture(object):
    """concurrent.futures.Future (E-FUTURE)"""

    def __init__(self):
        self.sets = []

    def done(self):
        return bool(self.sets)

    def set_result(self, r):
        if self.sets:
            import concurrent.futures
            self.sets.append(('rejected-result', r))
            raise PyExc(concurrent.futures.InvalidStateError('already done'))
        self.sets.append(('result', r))

    def set_exception(self, e):
        if self.sets:
            import concurrent.futures
            self.sets.append(('rejected-exception', e))
            raise PyExc(concurrent.futures.InvalidStateError('already done'))
        self.sets.append(('exception', e))


def _world(vc, nmax):
    n = vc.choice('statements', list(range(1, nmax + 1)))
    kinds = [vc.choice('statement%d' % i, KINDS) for i in range(n)]
    w = World(vc, kinds)
    errs = {}

    def error(idx):
        if idx not in errs:
            errs[idx] = SObj(Exception, {'args': ('statement %d failed' % idx,)})
        return errs[idx]
    w.error, w.errs = error, errs
    w.early = vc.choice('completions_arrive', ['only-while-waiting', 'all-before-results-are-collected'])
    conc = vc.choice('concurrency', list(range(1, n + 2)))
    ff = vc.choice('raise_on_first_error', [True, False])
    cond = Cond(w)
    vc.stub('threading.Condition', lambda *a: cond)
    return w, n, kinds, conc, ff, cond


def _expected(w, n, kinds):
    return [(k.endswith('ok'), i) for i, k in enumerate(kinds)]


def _check_results(vc, w, n, kinds, res, prefix):
    ok = len(res) == n
    for i, r in enumerate(res[:n]):
        if isinstance(r, SObj):
            r = (r.attrs['success'], r.attrs['result_or_exc'])
        if kinds[i].endswith('ok'):
            good = r[0] is True and isinstance(r[1], SObj) and list(r[1].attrs['_current_rows']) == ['row-of-%d' % i]
        else:
            good = r[0] is False and r[1] is w.errs.get(i)
        ok = ok and good
    vc.check(prefix + '/exactly-one-result-per-statement-in-input-order', ok)


@harness('C32', 'execute_concurrent[list]', functions=['cassandra.concurrent.execute_concurrent', 'cassandra.concurrent._ConcurrentExecutor.execute',
                                                       'cassandra.concurrent._ConcurrentExecutor._execute_next', 'cassandra.concurrent._ConcurrentExecutor._execute',
                                                       'cassandra.concurrent.ConcurrentExecutorListResults._put_result',
                                                       'cassandra.concurrent.ConcurrentExecutorListResults._results'], native='contracts.native.c32:replay')
def list_results(vc):
    """for every statement count up to 3 (thorough: 4), behaviour per statement (completes/fails later on another thread, raises
    synchronously, completes/fails synchronously), concurrency, fail-fast setting and completion order: ensures the call returns
    exactly one (success, result-or-error) per statement in input order; never more than `concurrency` statements in flight; with
    fail-fast it raises the first failure that occurred; it never waits forever"""
    w, n, kinds, conc, ff, cond = _world(vc, 3 if TIER == 'quick' else 4)
    kind, r = vc.call_catch('cassandra.concurrent.execute_concurrent', Session(w), [(i, None) for i in range(n)], concurrency=conc, raise_on_first_error=ff)
    vc.check('post/never-waits-forever', not (kind == 'exc' and issubclass(exc_class(r), Hang)))
    if kind == 'exc' and issubclass(exc_class(r), Hang):
        return
    vc.check('post/at-most-concurrency-in-flight', w.max_inflight <= conc)
    failures = [i for i in w.finished if not kinds[i].endswith('ok')]
    if ff and failures:
        vc.check('fail-fast/raises-the-first-failure', kind == 'exc' and r is w.errs[failures[0]])
    elif ff:
        vc.check('fail-fast/no-failure-no-raise', kind == 'ok')
        _check_results(vc, w, n, kinds, list(r), 'post')
    else:
        vc.check('post/returns-normally', kind == 'ok')
        if kind == 'ok':
            _check_results(vc, w, n, kinds, list(r), 'post')
            vc.check('post/every-statement-executed-exactly-once', sorted(w.started) == list(range(n)) and sorted(w.finished) == list(range(n)))
    vc.check('post/lock-released', cond.depth == 0)
    if n == 3 and not ff:
        vc.must_fail('selfcheck/nothing-executed', w.started == [])


@harness('C32', 'execute_concurrent[generator]', functions=['cassandra.concurrent.ConcurrentExecutorGenResults._put_result',
                                                            'cassandra.concurrent.ConcurrentExecutorGenResults._results'], native='contracts.native.c32:replay')
def gen_results(vc):
    """the same for results_generator=True: the generator yields the results strictly in input order (raising the first failed one in
    input order when fail-fast), keeps at most `concurrency` in flight, and ends after the last statement"""
    w, n, kinds, conc, ff, cond = _world(vc, 3)
    kind, g = vc.call_catch('cassandra.concurrent.execute_concurrent', Session(w), [(i, None) for i in range(n)], concurrency=conc, raise_on_first_error=ff,
                            results_generator=True)
    vc.check('post/returns-a-generator', kind == 'ok')
    if kind != 'ok':
        return
    from pyvc.interp import Interp, Frame
    out, err = [], None
    try:
        for x in Interp(vc.ctx, Frame({})).iter_values(g):
            out.append(x)
    except PyExc as e:
        err = e.value
    vc.check('post/never-waits-forever', not (err is not None and issubclass(exc_class(err), Hang)))
    if err is not None and issubclass(exc_class(err), Hang):
        return
    vc.check('post/at-most-concurrency-in-flight', w.max_inflight <= conc)
    first_bad = next((i for i, k in enumerate(kinds) if not k.endswith('ok')), None)
    if ff and first_bad is not None:
        vc.check('fail-fast/raises-the-first-failed-statement-in-input-order', err is w.errs.get(first_bad))
        _check_results(vc, w, first_bad, kinds, out, 'fail-fast/before-the-failure')
    else:
        vc.check('post/no-error', err is None)
        _check_results(vc, w, n, kinds, out, 'post')


@harness('C32', 'execute_concurrent_async', functions=['cassandra.concurrent.execute_concurrent_async',
                                                       'cassandra.concurrent.ConcurrentExecutorFutureResults._put_result'], native='contracts.native.c32:replay')
def async_results(vc):
    """ensures the future returned by execute_concurrent_async is completed exactly once, after the last statement finished, with the
    ordered results (or, fail-fast, with the first failure); no second completion is even attempted"""
    w, n, kinds, conc, ff, cond = _world(vc, 3)
    pf = PyFuture()
    vc.stub('concurrent.futures.Future', lambda: pf)
    kind, r = vc.call_catch('cassandra.concurrent.execute_concurrent_async', Session(w), [(i, None) for i in range(n)], concurrency=conc, raise_on_first_error=ff)
    hang = kind == 'exc' and issubclass(exc_class(r), Hang)
    if os.environ.get('DBG') and not (kind == 'ok' and r is pf):
        print('DBG', kinds, conc, ff, w.early, kind, r, getattr(r, 'attrs', None), pf.sets)
    vc.check('post/returns-the-future-without-waiting-forever', kind == 'ok' and r is pf)
    if kind != 'ok':
        return
    escaped = []
    for _ in range(20):
        try:
            if not w.deliver_one('after-return'):
                break
        except PyExc as e:
            escaped.append(e.value)       # the exception would surface in the thread that delivered the response
    vc.check('post/no-exception-escapes-into-the-response-thread', escaped == [])
    done = [s for s in pf.sets if s[0] in ('result', 'exception')]
    vc.check('post/future-completed-exactly-once', len(done) == 1)
    vc.check('post/no-second-completion-attempted', len(pf.sets) == 1)
    vc.check('post/at-most-concurrency-in-flight', w.max_inflight <= conc)
    if len(done) != 1:
        return
    failures = [i for i in w.finished if not kinds[i].endswith('ok')]
    if ff and failures:
        vc.check('fail-fast/future-fails-with-the-first-failure', done[0][0] == 'exception' and done[0][1] is w.errs[failures[0]])
    else:
        vc.check('post/future-holds-results', done[0][0] == 'result')
        if done[0][0] == 'result':
            _check_results(vc, w, n, kinds, list(done[0][1]), 'post')
        vc.check('post/completed-only-after-every-statement-finished', sorted(w.finished) == list(range(n)))


@harness('C32', 'recursion-guard', functions=['cassandra.concurrent._ConcurrentExecutor._execute'], native='contracts.native.c32:replay')
def recursion_guard(vc):
    """ensures that when every execution raises synchronously (each failure starting the next statement from inside the handler) and
    the nesting limit is reached (limit patched from 100 to 2), the remaining failures are handed to Session.submit and still
    produce exactly one result per statement, in order"""
    import cassandra.concurrent as cmod
    n = 4
    kinds = ['sync-raise'] * n
    w = World(vc, kinds)
    errs = {}
    w.error = lambda idx: errs.setdefault(idx, SObj(Exception, {'args': ('statement %d failed' % idx,)}))
    w.errs = errs
    w.early = 'only-while-waiting'
    cond = Cond(w)
    vc.stub('threading.Condition', lambda *a: cond)
    real = cmod._ConcurrentExecutor.max_error_recursion
    cmod._ConcurrentExecutor.max_error_recursion = 2
    try:
        kind, r = vc.call_catch('cassandra.concurrent.execute_concurrent', Session(w), [(i, None) for i in range(n)],
                                concurrency=vc.choice('concurrency', [1, 2]), raise_on_first_error=False)
    finally:
        cmod._ConcurrentExecutor.max_error_recursion = real
    vc.check('post/returns-normally', kind == 'ok')
    if kind == 'ok':
        _check_results(vc, w, n, kinds, list(r), 'post')
    vc.check('post/deferred-through-submit-and-all-run', getattr(w, 'submit_count', 0) >= 1 and w.submitted == [])
