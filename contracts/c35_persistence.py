"""C35 - cqlengine persists exactly the model state.

Oracle: CQL's assignment semantics on ONE cell (spec.cql_apply below): `c = v`, set `c = c + s` / `c = c - s`, list `c = l + c` / `c = c + l`, map `c[k] = v`,
`DELETE c[k]`, `DELETE c`, counter `c = c +/- n`.  Clause level: for every (previous, new) pair over a small universe the operations a clause RENDERS, with the
operands it BINDS, applied to `previous` must give `new`.  Flow level (bounded stand-in, native): the real DMLQuery.save/update/delete and ModelQuerySet.update run
against a recording session; the recorded statement objects are applied to an in-memory table with the same cell semantics and the row must equal the instance.
"""
import itertools
import os
import re
from pyvc.engine import harness
from pyvc.interp import get_attr

LEVEL = 'other'
TRUSTED = ['the cell-level CQL semantics of spec cql_apply (Cassandra collection operations: set union / difference, list prepend / append, map put / key delete, counter increment); '
           'server-side behaviour beyond one cell (timestamps / TTL resolution, LWT outcomes, tombstone ordering) is outside the model',
           'bounded: clause level - every (previous, new) pair of sets over 3 elements, lists of length <= 3 over 3 elements, maps over 2 keys x 2 values, counters -3..3; '
           'flow level - operation sequences of length <= 2 (thorough 3) on one model with partition + clustering key, scalar, static, set, list, map columns over small value domains',
           'parametricity in element values (the clause code only compares elements for equality and sorts map keys)']
EXPLANATION = 'cell-semantics postconditions on the real Set/List/Map/CounterUpdateClause and MapDeleteClause (_analyze + rendered text + bound operands) for all small (previous, new) pairs, BaseValueManager.changed/deleted; bounded model-operation sequences through the real DMLQuery / ModelQuerySet against an in-memory table'

S = 'cassandra.cqlengine.statements.'
TIER = os.environ.get('VERIF_TIER', 'quick')
PH = re.compile(r'%\((\d+)\)s')


def apply_rendered(cell, text, ctx, field='f'):
    """CQL cell semantics of the comma-separated SET operations in `text` (operands from ctx); returns the new cell value"""
    for frag in [x for x in text.split(', ') if x]:
        m = re.fullmatch(r'"%s" = %%\((\d+)\)s' % field, frag)
        if m:
            cell = ctx[m.group(1)]
            continue
        m = re.fullmatch(r'"%s" = "%s" \+ %%\((\d+)\)s' % (field, field), frag)
        if m:
            v = ctx[m.group(1)]
            cell = (set(cell or set()) | set(v)) if isinstance(v, (set, frozenset)) else (list(cell or []) + list(v))
            continue
        m = re.fullmatch(r'"%s" = "%s" - %%\((\d+)\)s' % (field, field), frag)
        if m:
            v = ctx[m.group(1)]
            if isinstance(cell, dict):
                cell = {k: x for k, x in cell.items() if k not in v}
            else:
                cell = set(cell or set()) - set(v)
            continue
        m = re.fullmatch(r'"%s" = %%\((\d+)\)s \+ "%s"' % (field, field), frag)
        if m:
            cell = list(ctx[m.group(1)]) + list(cell or [])
            continue
        m = re.fullmatch(r'"%s"\[%%\((\d+)\)s\] = %%\((\d+)\)s' % field, frag)
        if m:
            cell = dict(cell or {})
            cell[ctx[m.group(1)]] = ctx[m.group(2)]
            continue
        m = re.fullmatch(r'"%s" = "%s" ([+-]) %%\((\d+)\)s' % (field, field), frag)
        raise ValueError('unknown operation %r' % frag)
    return cell


def empty_is_null(v):
    """Cassandra stores an empty collection as null"""
    return None if v in (None, set(), [], {}) else v


def _render(vc, clause, k=0):
    q = S + type(clause).__name__ + '.'
    vc.call(q + 'set_context_id', clause, k)
    n = vc.call(q + 'get_context_size', clause)
    ctx = {}
    vc.call(q + 'update_context', clause, ctx)
    return n, ctx, vc.call(q + '__unicode__', clause)


SETS = [frozenset(c) for r in range(4) for c in itertools.combinations('abc', r)]
LISTS = [list(p) for r in range(4) for p in itertools.product('abc', repeat=r)] if TIER != 'quick' else [list(p) for r in range(4) for p in itertools.product('ab', repeat=r)] + [['a', 'b', 'c'], ['c', 'a'], ['b', 'c']]
MAPS = [dict(zip(ks, vs)) for r in range(3) for ks in itertools.combinations('xy', r) for vs in itertools.product([1, 2], repeat=r)]


@harness('C35', 'set-update-clause', functions=[S + 'SetUpdateClause.' + m for m in ('_analyze', 'get_context_size', 'update_context', '__unicode__')], native='contracts.native.c35:replay')
def set_clause(vc):
    """for every previous in {None} + P({a,b,c}) and every new value in P({a,b,c}): ensures the rendered SET operations applied to previous give exactly the new value
    (empty == null), additions and removals are disjoint from what is already / no longer there, and nothing is rendered when nothing changed"""
    from cassandra.cqlengine.statements import SetUpdateClause
    p = vc.choice('previous', [None] + SETS)
    v = vc.choice('value', SETS)
    c = SetUpdateClause('f', set(v), previous=None if p is None else set(p))
    n, ctx, text = _render(vc, c)
    got = apply_rendered(None if p is None else set(p), text, ctx)
    vc.check('set/rendered-operations-give-the-new-value', empty_is_null(got) == empty_is_null(set(v)))
    if p is not None and set(p) == set(v):
        vc.check('set/unchanged-renders-nothing', text == '' and n == 0)
    for frag in text.split(', '):
        m = re.fullmatch(r'"f" = "f" \+ %\((\d+)\)s', frag)
        if m:
            vc.check('set/additions-are-exactly-the-new-elements', ctx[m.group(1)] == set(v) - set(p or ()))
        m = re.fullmatch(r'"f" = "f" - %\((\d+)\)s', frag)
        if m:
            vc.check('set/removals-are-exactly-the-dropped-elements', ctx[m.group(1)] == set(p or ()) - set(v))
    if p == frozenset('ab') and v == frozenset('bc'):
        vc.must_fail('selfcheck/partial-update-renders-a-plain-assignment', re.fullmatch(r'"f" = %\(0\)s', text) is not None)


@harness('C35', 'list-update-clause', functions=[S + 'ListUpdateClause.' + m for m in ('_analyze', 'get_context_size', 'update_context', '__unicode__')], native='contracts.native.c35:replay')
def list_clause(vc):
    """for every previous in {None} + lists of length <= 3 and every new list of length <= 3: ensures the rendered operations (assignment, or prepend / append around the old list)
    applied to previous give exactly the new list (empty == null)"""
    from cassandra.cqlengine.statements import ListUpdateClause
    p = vc.choice('previous', [None] + LISTS)
    v = vc.choice('value', LISTS)
    c = ListUpdateClause('f', list(v), previous=None if p is None else list(p))
    n, ctx, text = _render(vc, c)
    got = apply_rendered(None if p is None else list(p), text, ctx)
    vc.check('list/rendered-operations-give-the-new-value', empty_is_null(got) == empty_is_null(list(v)))
    if p is not None and list(p) == list(v):
        vc.check('list/unchanged-renders-nothing', text == '' and n == 0)


@harness('C35', 'map-update-and-delete-clauses', functions=[S + 'MapUpdateClause.' + m for m in ('_analyze', 'get_context_size', 'update_context', '__unicode__', 'is_assignment')] +
         [S + 'MapDeleteClause.' + m for m in ('_analyze', 'get_context_size', 'update_context', '__unicode__')], native='contracts.native.c35:replay')
def map_clauses(vc):
    """for every previous in {None} + maps over keys {x,y} x values {1,2} and every new map: ensures the puts rendered by MapUpdateClause followed by the key deletes rendered by
    MapDeleteClause (what DMLQuery.update + _delete_null_columns emit) turn previous into exactly the new map; puts are only new or changed keys, deletes only vanished keys"""
    from cassandra.cqlengine.statements import MapUpdateClause, MapDeleteClause
    p = vc.choice('previous', [None] + MAPS)
    v = vc.choice('value', MAPS)
    u = MapUpdateClause('f', dict(v), previous=None if p is None else dict(p))
    n, ctx, text = _render(vc, u)
    cell = apply_rendered(None if p is None else dict(p), text, ctx) if n else (None if p is None else dict(p))
    d = MapDeleteClause('f', dict(v), None if p is None else dict(p))
    n2, ctx2, text2 = _render(vc, d, 10)
    ok = True
    for frag in [x for x in text2.split(', ') if x]:
        m = re.fullmatch(r'"f"\[%\((\d+)\)s\]', frag)
        ok = ok and m is not None
        if m:
            key = ctx2[m.group(1)]
            vc.check('map/deleted-key-is-a-vanished-key', key in (p or {}) and key not in v)
            cell = {k: x for k, x in (cell or {}).items() if k != key}
    vc.check('map/delete-fragments-well-formed', ok)
    vc.check('map/puts-then-key-deletes-give-the-new-value', empty_is_null(cell) == empty_is_null(dict(v)))
    for a, b in re.findall(r'"f"\[%\((\d+)\)s\] = %\((\d+)\)s', text):
        vc.check('map/put-is-a-new-or-changed-key-with-its-value', v.get(ctx[a]) == ctx[b] and (p is None or p.get(ctx[a]) != ctx[b]))


@harness('C35', 'counter-clause-and-value-manager', functions=[S + 'CounterUpdateClause.' + m for m in ('update_context', '__unicode__')] +
         ['cassandra.cqlengine.columns.BaseValueManager.changed', 'cassandra.cqlengine.columns.BaseValueManager.deleted'], native='contracts.native.c35:replay')
def counter_and_manager(vc):
    """counter: for previous, new in -3..3 (and previous None): ensures the rendered `c = c +/- n` applied to previous gives new.  value manager: changed <=> value != previous (or
    explicitly set); deleted <=> value is null and previous was not"""
    from cassandra.cqlengine.statements import CounterUpdateClause
    from cassandra.cqlengine.columns import BaseValueManager, Integer
    p = vc.choice('previous', [None, -3, -1, 0, 2, 3])
    v = vc.choice('value', [-3, -1, 0, 2, 3])
    c = CounterUpdateClause('f', v, previous=p)
    vc.call(S + 'CounterUpdateClause.set_context_id', c, 0)
    ctx = {}
    vc.call(S + 'CounterUpdateClause.update_context', c, ctx)
    text = vc.call(S + 'CounterUpdateClause.__unicode__', c)
    m = re.fullmatch(r'"f" = "f" ([+-]) %\(0\)s', text)
    vc.check('counter/rendered-as-an-increment-or-decrement', m is not None)
    if m:
        vc.check('counter/applied-to-previous-gives-the-new-value', (p or 0) + (ctx['0'] if m.group(1) == '+' else -ctx['0']) == v and ctx['0'] >= 0)
    col = Integer()
    mgr = BaseValueManager(None, col, p)
    vc.call('cassandra.cqlengine.columns.BaseValueManager.reset_previous_value', mgr)
    new = None if v == 0 else v
    vc.call('cassandra.cqlengine.columns.BaseValueManager.setval', mgr, new)
    ch = vc.call(BaseValueManager.changed.fget, mgr)
    de = vc.call(BaseValueManager.deleted.fget, mgr)
    vc.check('manager/changed-iff-the-assigned-value-differs-from-the-loaded-one', bool(ch) == (new != p))
    vc.check('manager/deleted-iff-assigned-null', bool(de) == (new is None))
    untouched = BaseValueManager(None, col, p)
    vc.call('cassandra.cqlengine.columns.BaseValueManager.reset_previous_value', untouched)
    vc.check('manager/untouched-scalar-is-neither-changed-nor-deleted', not vc.call(BaseValueManager.changed.fget, untouched) and not (vc.call(BaseValueManager.deleted.fget, untouched) and p is not None))

def model_operation_sequences(tier, seed):
    from contracts.native import c35
    return c35.flows(tier, seed)


BOUNDED = [model_operation_sequences]


# Saving through a BatchQuery persists the model state only if every statement of the batch keeps its own values when the statements are renumbered into one
# parameter dictionary: that is C37's contract on BaseCQLStatement.update_context_id / BatchQuery.execute.  It is re-discharged here (same harnesses) so that a
# change to the renumbering fails this property too.
from contracts import c37_placeholders as _C37
_S = 'cassandra.cqlengine.statements.'
harness('C35', 'batched-statements-keep-their-own-values', functions=['cassandra.cqlengine.query.BatchQuery.execute'], native='contracts.native.c37:replay')(_C37.batch)
harness('C35', 'renumbered-statements-keep-their-own-values', functions=[_S + 'BaseCQLStatement.update_context_id', _S + 'UpdateStatement.update_context_id', _S + 'DeleteStatement.update_context_id'],
        native='contracts.native.c37:replay')(_C37.statements)
