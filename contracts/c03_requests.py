"""C03 - request frames conform to the native protocol specification."""
import os
import z3
from pyvc.engine import harness
from pyvc import sym
from pyvc.sym import SBytes
from pyvc.interp import SObj, PyExc, exc_class
from pyvc.libmodels import MBytesIO, _M, _bio_method
from spec import cser
from spec import native_protocol as NP

LEVEL = 'proof'
TRUSTED = ['spec/native_protocol.py (independent strict request parser) and the body layouts below are transcribed from native_protocol_v1..v5.spec and the DSE extensions',
           'E-STRUCT (struct.Struct pack = big-endian two\'s complement on the type\'s range), E-BYTESIO, E-CODEC (utf-8 encoding of names is opaque: names are concrete ASCII here)',
           'A-TYPES: field types as Session._create_response_future passes them (C46): consistency levels 0..10, fetch_size/timestamp ints in range, keyspace None or a non-empty str, '
           'values are None / UNSET / bytes; keyspace/timestamp are only requested on versions that carry them except where the statement lists a rejection',
           'deductive part: numeric fields, byte strings (query text, ids, paging state, values) are symbolic with arbitrary length; the NUMBER of values / batch entries is unrolled (0..2); '
           'the literal "an independent parser reads back exactly the fields" is checked natively on every option combination (bounded stand-in, exhaustive in option presence)',
           'compression is an opaque function (identity-like stub) applied to the whole body below v5']
EXPLANATION = 'body == spec layout postconditions on the real write_* primitives, _write_header/encode_message and every request message send_body/_write_query_params; rejection (raises UnsupportedOperation) obligations; bounded end-to-end parse-back'

PR = 'cassandra.protocol.'
VERSIONS = (1, 2, 3, 4, 5, 6, 0x41, 0x42)
TIER = os.environ.get('VERIF_TIER', 'quick')


from contracts.wire_common import cat, B, s_short, s_int, s_uint, s_long, s_bytes, s_short_bytes, s_string, same


def s_value(v):
    from cassandra.query import UNSET_VALUE
    if v is None:
        return s_int(-1)
    if v is UNSET_VALUE:
        return s_int(-2)
    return s_bytes(v)


@harness('C03', 'primitives', functions=[PR + n for n in ('write_byte', 'write_short', 'write_int', 'write_uint', 'write_long', 'write_string', 'write_longstring',
                                                          'write_value', 'write_stringlist', 'write_stringmap', 'write_bytesmap', 'write_consistency_level')],
         native='contracts.native.c03:replay')
def primitives(vc):
    """ensures every notation writer appends exactly the spec encoding: [byte] [short] [int] [long] big-endian, [string] = [short] n + n
    bytes, [long string]/[bytes] = [int] n + n bytes, [value] with -1 for null and -2 for 'not set', lists and maps = [short] count +
    entries in order"""
    from cassandra.query import UNSET_VALUE
    b, sh, i, u, lg = vc.int('byte'), vc.int('short'), vc.int('int'), vc.int('uint'), vc.int('long')
    vc.assume(sym.and_(b >= 0, b <= 255, sh >= 0, sh <= 65535, cser.in_signed_range(i, 4), cser.in_unsigned_range(u, 4), cser.in_signed_range(lg, 8)))
    data = B(vc, 'data')
    vc.assume(data.length() <= 65535)
    for fn, arg, want in (('write_byte', b, cser.be_unsigned(b, 1)), ('write_short', sh, s_short(sh)), ('write_consistency_level', sh, s_short(sh)),
                          ('write_int', i, s_int(i)), ('write_uint', u, s_uint(u)), ('write_long', lg, s_long(lg)),
                          ('write_string', data, s_short_bytes(data)), ('write_string', 'ks_1', s_short(4) + b'ks_1'), ('write_string', KS, s_short(5) + KS.encode('utf8')),
                          ('write_longstring', 'SELECT \u00e9', s_int(9) + 'SELECT \u00e9'.encode('utf8')),
                          ('write_longstring', data, s_bytes(data)), ('write_value', data, s_bytes(data)), ('write_value', None, s_int(-1)),
                          ('write_value', UNSET_VALUE, s_int(-2)),
                          ('write_stringlist', ['a', 'bc'], s_short(2) + s_short(1) + b'a' + s_short(2) + b'bc'),
                          ('write_stringmap', {'K': 'v'}, s_short(1) + s_short(1) + b'K' + s_short(1) + b'v')):
        f = MBytesIO(b'prefix', 6)
        k, r = vc.call_catch(PR + fn, f, arg)
        vc.check('%s/accepts-every-value-of-the-notation' % fn, k == 'ok')
        if k == 'ok':
            same(vc, '%s/appends-the-spec-encoding' % fn, f.content, cat(b'prefix', want))
    f = MBytesIO(b'', 0)
    vc.call(PR + 'write_bytesmap', f, {'k': data, 'n': None})
    same(vc, 'write_bytesmap/appends-the-spec-encoding', f.content, cat(s_short(2), s_short(1), b'k', s_bytes(data), s_short(1), b'n', s_int(-1)))


@harness('C03', 'frame-header', functions=[PR + '_ProtocolHandler.encode_message', PR + '_ProtocolHandler._write_header'], native='contracts.native.c03:replay')
def header(vc):
    """for every protocol version, stream id, tracing / beta / custom-payload / compression setting and ANY body the message writes:
    ensures frame == header ++ body' with header.version == pv (request direction), header.length == len(body'), stream and opcode as
    requested, flags == exactly {compression iff a compressor is in use below v5 and the body is non-empty, tracing, custom payload,
    beta}; body' == [bytes map payload] ++ body, compressed as a whole when flagged; a custom payload below v4 is rejected"""
    from cassandra.protocol import _ProtocolHandler
    from cassandra import UnsupportedOperation
    pv = vc.choice('protocol_version', list(VERSIONS))
    stream = vc.int('stream_id')
    vc.assume(sym.and_(stream >= -1, stream <= (127 if pv < 3 else 32767)))
    body = B(vc, 'message_body', 2 ** 28)     # the protocol's maximum frame body is 256 MB
    tracing = vc.choice('tracing', [False, True])
    beta = vc.choice('allow_beta', [False, True])
    payload = vc.choice('custom_payload', [None, 'one-entry'])
    comp = vc.choice('compressor', [None, 'on'])
    pl = {'k': b'v'} if payload else None

    class Msg(object):
        opcode = 0x07
        custom_payload = pl

        def send_body(self_, f, v):
            _bio_method(vc.ctx, f, 'write')(body)
    Msg.tracing = tracing
    compressed = B(vc, 'compressed_body', 2 ** 28)
    compressor = _M(lambda b: compressed, 'compressor') if comp else None
    kind, r = vc.call_catch(_ProtocolHandler.__dict__['encode_message'].__func__, _ProtocolHandler, Msg(), stream, pv, compressor, beta)
    if payload and pv < 4:
        vc.check('custom-payload/rejected-below-v4', kind == 'exc' and issubclass(exc_class(r), UnsupportedOperation))
        return
    vc.check('post/encodes', kind == 'ok')
    if kind != 'ok':
        return
    plain = cat(s_short(1) + s_short(1) + b'k' + s_int(1) + b'v', body) if payload else body
    nonempty = vc.ctx.branch((sym.lift(plain).length() > 0).t)
    use_comp = bool(comp) and not (5 <= pv < 0x41) and nonempty
    wire = compressed if use_comp else plain
    flags = (0x01 if use_comp else 0) | (0x02 if tracing else 0) | (0x04 if payload else 0) | (0x10 if beta else 0)
    hdr = cat(bytes([pv, flags]), cser.be_signed(stream, 2 if pv >= 3 else 1), bytes([0x07]), s_int(sym.lift(wire).length()))
    same(vc, 'post/frame-is-header-plus-body-with-matching-length-and-flags', r, cat(hdr, wire))


def _options(vc, pv, kind):
    """the option combination requested by the session layer (presence is a choice, values are symbolic)"""
    from cassandra.query import UNSET_VALUE
    o = {}
    cl = vc.int('consistency')
    vc.assume(sym.and_(cl >= 0, cl <= 10))
    o['consistency'] = cl
    wide = TIER != 'quick'
    if wide:
        nvals = vc.choice('values', [None, 0, 1, 2]) if kind != 'EXECUTE' else vc.choice('values', [0, 1, 2])
        if nvals is None:
            o['values'] = None
        else:
            vals = []
            for i in range(nvals):
                k = vc.choice('value%d' % i, ['bytes', 'null', 'unset'])
                vals.append(B(vc, 'value%d_bytes' % i) if k == 'bytes' else (None if k == 'null' else UNSET_VALUE))
            o['values'] = vals
    else:
        shape = vc.choice('values', ([None] if kind != 'EXECUTE' else []) + ['empty', 'bytes+null', 'unset+bytes'])
        o['values'] = None if shape is None else ([] if shape == 'empty' else ([B(vc, 'value0_bytes'), None] if shape == 'bytes+null' else [UNSET_VALUE, B(vc, 'value1_bytes')]))
    if vc.choice('serial_consistency', [False, True]):
        scl = vc.int('serial_cl')
        vc.assume(sym.or_(scl == 8, scl == 9))
        o['serial_consistency'] = scl
    if vc.choice('page_size', [False, True]):
        fs = vc.int('fetch_size')
        vc.assume(sym.and_(fs >= 1, fs <= 2 ** 31 - 1))
        o['fetch_size'] = fs
    if vc.choice('paging_state', [False, True]):
        o['paging_state'] = B(vc, 'paging_state_bytes', minlen=1)
    if pv >= 3 and vc.choice('timestamp', [False, True]):
        ts = vc.int('timestamp_us')
        vc.assume(cser.in_signed_range(ts, 8))
        o['timestamp'] = ts
    if kind == 'QUERY':
        ks = vc.choice('keyspace', [None, KS])
        if ks is not None:
            o['keyspace'] = ks
    if vc.choice('continuous_paging', [False, True]):
        o['continuous'] = (vc.int('max_pages'), vc.int('max_pages_per_second'), vc.int('max_queue_size'))
        for x in o['continuous']:
            vc.assume(cser.in_signed_range(x, 4))
    return o


def statement_option_fields(vc, pv, kind):
    """the per-request options C46 is about, as Session._create_response_future hands them to the message: consistency, optional serial consistency, page size
    (always set below: the session default stands in when the statement has none) and optional client timestamp"""
    o = {}
    cl = vc.int('consistency')
    vc.assume(sym.and_(cl >= 0, cl <= 10))
    o['consistency'] = cl
    o['values'] = None if kind != 'EXECUTE' else [B(vc, 'value0_bytes')]
    if vc.choice('serial_consistency', [False, True]):
        scl = vc.int('serial_cl')
        vc.assume(sym.or_(scl == 8, scl == 9))
        o['serial_consistency'] = scl
    fs = vc.int('fetch_size')
    vc.assume(sym.and_(fs >= 1, fs <= 2 ** 31 - 1))
    o['fetch_size'] = fs
    if pv >= 3 and vc.choice('timestamp', [False, True]):
        ts = vc.int('timestamp_us')
        vc.assume(cser.in_signed_range(ts, 8))
        o['timestamp'] = ts
    return o


def next_page_options(vc, pv, kind):
    """what a request for a LATER page carries (C18): always a paging state and a page size, optionally bound values, a serial consistency and a client timestamp"""
    o = {}
    cl = vc.int('consistency')
    vc.assume(sym.and_(cl >= 0, cl <= 10))
    o['consistency'] = cl
    shape = vc.choice('values', ([None] if kind != 'EXECUTE' else ['empty']) + ['bytes'])
    o['values'] = None if shape is None else ([] if shape == 'empty' else [B(vc, 'value0_bytes')])
    if vc.choice('serial_consistency', [False, True]):
        scl = vc.int('serial_cl')
        vc.assume(sym.or_(scl == 8, scl == 9))
        o['serial_consistency'] = scl
    fs = vc.int('fetch_size')
    vc.assume(sym.and_(fs >= 1, fs <= 2 ** 31 - 1))
    o['fetch_size'] = fs
    o['paging_state'] = B(vc, 'paging_state_bytes', minlen=1)
    if pv >= 3 and vc.choice('timestamp', [False, True]):
        ts = vc.int('timestamp_us')
        vc.assume(cser.in_signed_range(ts, 8))
        o['timestamp'] = ts
    return o


KS = 'ks_\u00e9'        # a keyspace name whose utf-8 length differs from its character count


def _spec_query_params(pv, o):
    """QUERY/EXECUTE parameters as the spec lays them out (v2+): <consistency><flags>[<n><value_1>...][<page_size>][<paging_state>]
    [<serial_consistency>][<timestamp>][<keyspace>][<continuous paging options>]"""
    flags = (0x01 if o['values'] is not None else 0) | (0x04 if 'fetch_size' in o else 0) | (0x08 if 'paging_state' in o else 0) | \
        (0x10 if 'serial_consistency' in o else 0) | (0x20 if 'timestamp' in o else 0) | (0x80 if 'keyspace' in o else 0) | \
        (0x80000000 if 'continuous' in o else 0)
    parts = [s_short(o['consistency']), s_uint(flags) if NP.int_flags(pv) else bytes([flags])]
    if o['values'] is not None:
        parts.append(s_short(len(o['values'])))
        parts += [s_value(v) for v in o['values']]
    if 'fetch_size' in o:
        parts.append(s_int(o['fetch_size']))
    if 'paging_state' in o:
        parts.append(s_bytes(o['paging_state']))
    if 'serial_consistency' in o:
        parts.append(s_short(o['serial_consistency']))
    if 'timestamp' in o:
        parts.append(s_long(o['timestamp']))
    if 'keyspace' in o:
        parts.append(s_string(o['keyspace']))
    if 'continuous' in o:
        parts += [s_int(o['continuous'][0]), s_int(o['continuous'][1])] + ([s_int(o['continuous'][2])] if pv >= 0x42 else [])
    return cat(*parts)


def _must_reject(pv, o, kind):
    return ('keyspace' in o and not NP.has_keyspace(pv)) or ('continuous' in o and not NP.continuous_paging(pv)) or \
        (pv == 1 and ('serial_consistency' in o or 'fetch_size' in o or 'paging_state' in o)) or \
        (pv == 1 and kind == 'QUERY' and o['values'] is not None)       # a v1 QUERY cannot carry values


class _CP(object):
    def __init__(self, t):
        self.max_pages, self.max_pages_per_second, self.max_queue_size = t


def _mk_query_like(kind, pv, prop='C03', opt_fn=None, label=''):
    @harness(prop, '%s%s-v%#x' % (label, kind, pv), functions=[PR + '_QueryMessage._write_query_params', PR + '_QueryMessage._write_paging_options', PR + kind.capitalize() + 'Message.send_body'] +
             ([PR + 'ExecuteMessage._write_query_params'] if kind == 'EXECUTE' else []), native='contracts.native.c03:replay')
    def h(vc):
        from cassandra import protocol, UnsupportedOperation
        o = (opt_fn or _options)(vc, pv, kind)
        cp = _CP(o['continuous']) if 'continuous' in o else None
        common = dict(consistency_level=o['consistency'], serial_consistency_level=o.get('serial_consistency'), fetch_size=o.get('fetch_size'),
                      paging_state=o.get('paging_state'), timestamp=o.get('timestamp'), continuous_paging_options=cp)
        if kind == 'QUERY':
            text = B(vc, 'query_text')
            msg = vc.obj(protocol.QueryMessage, query=text, query_params=o['values'], skip_meta=False, keyspace=o.get('keyspace'), **common)
            head = s_bytes(text)
        else:
            qid, mid = B(vc, 'query_id', 65535), B(vc, 'result_metadata_id', 65535)
            msg = vc.obj(protocol.ExecuteMessage, query_id=qid, result_metadata_id=mid, query_params=o['values'], skip_meta=False, keyspace=None, **common)
            head = cat(s_short_bytes(qid), s_short_bytes(mid)) if NP.has_result_metadata_id(pv) else s_short_bytes(qid)
        f = MBytesIO(b'', 0)
        k, r = vc.call_catch(PR + kind.capitalize() + 'Message.send_body', msg, f, pv)
        if _must_reject(pv, o, kind):
            vc.check('unsupported-option/rejected-not-dropped', k == 'exc' and issubclass(exc_class(r), UnsupportedOperation))
            return
        vc.check('post/encodes', k == 'ok')
        if k != 'ok':
            return
        if pv == 1 and kind == 'EXECUTE':
            want = cat(head, s_short(len(o['values'])), *([s_value(v) for v in o['values']] + [s_short(o['consistency'])]))
            same(vc, 'v1/body-is-id-values-consistency', f.content, want)
        elif pv == 1:
            # protocol v1: <query><consistency>, no flags byte
            same(vc, 'v1/body-is-query-and-consistency-only', f.content, cat(head, s_short(o['consistency'])))
        else:
            same(vc, 'post/body-is-exactly-the-spec-layout-for-the-requested-options', f.content, cat(head, _spec_query_params(pv, o)))
            if pv == 4 and kind == 'QUERY' and prop == 'C03':
                vc.must_fail('selfcheck/flags-are-an-int-on-v4', sym.lift(f.content) == sym.lift(cat(head, _spec_query_params(5, o))))
    h.__doc__ = ('protocol version %#x, every presence combination of values (null / unset / bytes), page size, paging state, serial consistency, client timestamp, '
                 'per-request keyspace, continuous paging, with symbolic field values: ensures the %s body is exactly the spec layout (flags width, bit per option, field order); '
                 'an option the version cannot carry is rejected with UnsupportedOperation, never dropped' % (pv, kind))
    return h


for _pv in VERSIONS:
    _mk_query_like('QUERY', _pv)
    _mk_query_like('EXECUTE', _pv)


@harness('C03', 'PREPARE', functions=[PR + 'PrepareMessage.send_body'], native='contracts.native.c03:replay')
def prepare(vc):
    """ensures PREPARE is <query> (+ <flags>[<keyspace>] on versions with prepare flags, flag 0x01 exactly when the keyspace field follows); a
    keyspace on other versions is rejected"""
    from cassandra import protocol, UnsupportedOperation
    pv = vc.choice('protocol_version', list(VERSIONS))
    text = B(vc, 'query_text')
    ks = vc.choice('keyspace', [None, KS, ''])
    msg = vc.obj(protocol.PrepareMessage, query=text, keyspace=ks)
    f = MBytesIO(b'', 0)
    k, r = vc.call_catch(PR + 'PrepareMessage.send_body', msg, f, pv)
    if ks and not NP.has_keyspace(pv):
        vc.check('keyspace/rejected-not-dropped', k == 'exc' and issubclass(exc_class(r), UnsupportedOperation))
        return
    if ks == '':
        # an empty name is not a keyspace: either form is acceptable as long as flag and field agree (or it is rejected)
        forms = [cat(s_bytes(text), *([s_uint(0)] if NP.has_keyspace(pv) else [])), cat(s_bytes(text), s_uint(1), s_string(''))] if NP.has_keyspace(pv) else [s_bytes(text)]
        vc.check('empty-keyspace/flag-and-field-agree', k == 'exc' or sym.or_(*[sym.lift(f.content) == sym.lift(w) for w in forms]))
        return
    want = cat(s_bytes(text), *(([s_uint(1 if ks else 0)] + ([s_string(ks)] if ks else [])) if NP.has_keyspace(pv) else []))
    vc.check('post/encodes', k == 'ok')
    same(vc, 'post/body-is-the-spec-layout', f.content, want)


class _BT(object):
    def __init__(self, v):
        self.value = v


def _mk_batch(pv, prop='C03', label='', entries=(0, 1, 2)):
    @harness(prop, '%sBATCH-v%#x' % (label, pv), functions=[PR + 'BatchMessage.send_body'], native='contracts.native.c03:replay')
    def batch(vc):
        from cassandra import protocol, UnsupportedOperation
        n = vc.choice('entries', list(entries))
        qs, parts = [], []
        for i in range(n):
            prepared = vc.choice('entry%d_prepared' % i, [False, True])
            ident = B(vc, 'entry%d_text_or_id' % i, 65535 if prepared else 2 ** 31 - 1)
            params = [B(vc, 'entry%d_value' % i)] if vc.choice('entry%d_values' % i, [0, 1]) else []
            qs.append((prepared, ident, params))
            parts += [bytes([1 if prepared else 0]), s_short_bytes(ident) if prepared else s_bytes(ident), s_short(len(params))] + [s_value(p) for p in params]
        cl = vc.int('consistency')
        vc.assume(sym.and_(cl >= 0, cl <= 10))
        serial = None
        if pv >= 3 and vc.choice('serial_consistency', [False, True]):     # the session layer cannot send a serial consistency with a v2 batch (no flags in v2)
            serial = vc.int('serial_cl')
            vc.assume(sym.or_(serial == 8, serial == 9))
        ts = None
        if pv >= 3 and vc.choice('timestamp', [False, True]):
            ts = vc.int('timestamp_us')
            vc.assume(cser.in_signed_range(ts, 8))
        ks = vc.choice('keyspace', [None, KS, ''])
        bt = vc.int('batch_type')
        vc.assume(sym.and_(bt >= 0, bt <= 2))
        msg = vc.obj(protocol.BatchMessage, batch_type=_BT(bt), queries=qs, consistency_level=cl, serial_consistency_level=serial, timestamp=ts, keyspace=ks)
        f = MBytesIO(b'', 0)
        k, r = vc.call_catch(PR + 'BatchMessage.send_body', msg, f, pv)
        if ks and not NP.has_keyspace(pv):
            vc.check('keyspace/rejected-not-dropped', k == 'exc' and issubclass(exc_class(r), UnsupportedOperation))
            return

        def body(with_ks):
            tail = [s_short(cl)]
            if pv >= 3:
                flags = (0x10 if serial is not None else 0) | (0x20 if ts is not None else 0) | (0x80 if with_ks is not None else 0)
                tail.append(s_int(flags) if NP.int_flags(pv) else bytes([flags]))
                tail += ([s_short(serial)] if serial is not None else []) + ([s_long(ts)] if ts is not None else []) + ([s_string(with_ks)] if with_ks is not None else [])
            return cat(cser.be_unsigned(bt, 1), s_short(n), *(parts + tail))
        if ks == '':
            forms = [body(None)] + ([body('')] if NP.has_keyspace(pv) else [])
            vc.check('empty-keyspace/flag-and-field-agree', k == 'exc' or sym.or_(*[sym.lift(f.content) == sym.lift(w) for w in forms]))
            return
        vc.check('post/encodes', k == 'ok')
        same(vc, 'post/body-is-the-spec-layout', f.content, body(ks))
    batch.__doc__ = ('protocol version %#x: ensures BATCH is <type><n><query_1>...<query_n><consistency>[<flags>[<serial_consistency>][<timestamp>][<keyspace>]] with each '
                     'entry <kind><string or id><n><value_1>...; flags only from v3, [int] flags from v5, one flag bit exactly per field that follows; a keyspace the version cannot carry is rejected' % pv)
    return batch


for _pv in VERSIONS[1:]:
    _mk_batch(_pv)


@harness('C03', 'session-setup-messages', functions=[PR + n + '.send_body' for n in ('StartupMessage', 'OptionsMessage', 'AuthResponseMessage', 'CredentialsMessage',
                                                                                    'RegisterMessage', 'ReviseRequestMessage')], native='contracts.native.c03:replay')
def setup_messages(vc):
    """ensures STARTUP is the [string map] of the options plus CQL_VERSION; OPTIONS is empty; AUTH_RESPONSE is [bytes]; CREDENTIALS (v1
    only, rejected later) is <n> + pairs; REGISTER is a [string list]; REVISE_REQUEST is <op_type><op_id>[<next_pages>] and
    backpressure is rejected unless the version supports it and next_pages > 0"""
    from cassandra import protocol, UnsupportedOperation
    pv = vc.choice('protocol_version', list(VERSIONS))
    which = vc.choice('message', ['STARTUP', 'OPTIONS', 'AUTH_RESPONSE', 'CREDENTIALS', 'REGISTER', 'REVISE_REQUEST'])
    f = MBytesIO(b'', 0)
    if which == 'STARTUP':
        comp = vc.choice('compression', [None, 'lz4'])
        opts = {'DRIVER_NAME': 'd'}
        if comp:
            opts['COMPRESSION'] = comp
        vc.call(PR + 'StartupMessage.send_body', vc.obj(protocol.StartupMessage, cqlversion='3.4.5', options=opts), f, pv)
        m = dict(opts, CQL_VERSION='3.4.5')
        same(vc, 'STARTUP/string-map-of-options-plus-CQL_VERSION', f.content, cat(s_short(len(m)), *[cat(s_string(k), s_string(v)) for k, v in m.items()]))
        vc.check('STARTUP/options-object-not-mutated', 'CQL_VERSION' not in opts)
    elif which == 'OPTIONS':
        vc.call(PR + 'OptionsMessage.send_body', vc.obj(protocol.OptionsMessage), f, pv)
        vc.check('OPTIONS/empty-body', f.content == b'')
    elif which == 'AUTH_RESPONSE':
        tok = B(vc, 'token')
        vc.call(PR + 'AuthResponseMessage.send_body', vc.obj(protocol.AuthResponseMessage, response=tok), f, pv)
        same(vc, 'AUTH_RESPONSE/bytes', f.content, s_bytes(tok))
    elif which == 'CREDENTIALS':
        k, r = vc.call_catch(PR + 'CredentialsMessage.send_body', vc.obj(protocol.CredentialsMessage, creds={'username': 'u', 'password': 'p'}), f, pv)
        if pv > 1:
            vc.check('CREDENTIALS/rejected-after-v1', k == 'exc' and issubclass(exc_class(r), UnsupportedOperation))
        else:
            same(vc, 'CREDENTIALS/count-and-pairs', f.content, cat(s_short(2), s_string('username'), s_string('u'), s_string('password'), s_string('p')))
    elif which == 'REGISTER':
        vc.call(PR + 'RegisterMessage.send_body', vc.obj(protocol.RegisterMessage, event_list=['TOPOLOGY_CHANGE', 'STATUS_CHANGE']), f, pv)
        same(vc, 'REGISTER/string-list', f.content, cat(s_short(2), s_string('TOPOLOGY_CHANGE'), s_string('STATUS_CHANGE')))
    else:
        op = vc.choice('op_type', [1, 2])
        oid, nxt = vc.int('op_id'), vc.int('next_pages')
        vc.assume(sym.and_(cser.in_signed_range(oid, 4), cser.in_signed_range(nxt, 4)))
        k, r = vc.call_catch(PR + 'ReviseRequestMessage.send_body', vc.obj(protocol.ReviseRequestMessage, op_type=op, op_id=oid, next_pages=nxt), f, pv)
        if op == 2 and (vc.ctx.branch((nxt <= 0).t) or pv < 0x42):
            vc.check('REVISE_REQUEST/backpressure-rejected-when-unsupported', k == 'exc' and issubclass(exc_class(r), UnsupportedOperation))
        else:
            same(vc, 'REVISE_REQUEST/layout', f.content, cat(s_int(op), s_int(oid), *([s_int(nxt)] if op == 2 else [])))


def parse_back(tier, seed):
    from contracts.native import c03
    return c03.enumerate_requests(tier, seed)


BOUNDED = [parse_back]
