"""C20 - switching the session keyspace is applied everywhere or reported."""
import itertools
import z3
from pyvc.engine import harness
from pyvc import sym
from pyvc.interp import SObj, PyExc, exc_class, call_value, BoundMethod, resolve
from pyvc.libmodels import LockModel, _M
from contracts import pool_common as P
from contracts import rf_common as R

LEVEL = 'proof'
TRUSTED = ['A-ATOMIC (Session._lock), A-CB; completion callbacks of the pools/connections may arrive in any order and on any thread, one at a time (A-AFFINITY of the event loop)',
           'bounded dimension: up to 3 pools per session and up to 2 connections per legacy pool, all completion orders enumerated',
           'callee contracts: Connection.set_keyspace_async calls back exactly once (its own harness), Connection.send_msg (C10)']
EXPLANATION = 'ghost callback counters on the real Session._set_keyspace_for_all_pools, HostConnection/HostConnectionPool._set_keyspace_for_all_conns, Connection.set_keyspace_async and ResponseFuture._set_keyspace_completed'


@harness('C20', 'session-all-pools', functions=['cassandra.cluster.Session._set_keyspace_for_all_pools'], native='contracts.native.c20:replay')
def session_all(vc):
    """for up to 3 pools, every combination of per-pool outcome (ok / errors) and every completion order: ensures the session keyspace is
    updated, the completion callback runs exactly once, only after every pool has reported, and receives errors iff ANY pool reported one"""
    from cassandra.cluster import Session
    n = vc.choice('pools', [0, 1, 2, 3])
    outcomes = [vc.choice('pool%d_fails' % i, [False, True]) for i in range(n)]
    order = vc.choice('completion_order', list(itertools.permutations(range(n)))) if n else ()
    pending = {}

    class Pool(object):
        def __init__(self, i):
            self.i = i
            self.host = 'host%d' % i

        def _set_keyspace_for_all_conns(self, keyspace, cb):
            pending[self.i] = (keyspace, cb)
    lock = LockModel('Session._lock')
    snap = []

    class PoolsDict(dict):
        def values(self):
            snap.append(lock.depth > 0)
            return dict.values(self)
    pools = PoolsDict((('h%d' % i), Pool(i)) for i in range(n))
    sess = vc.obj(Session, _lock=lock, _pools=pools, keyspace='old')
    stamp = {}

    def on_set(name, value):
        if name == 'keyspace':
            vc.check('lock/keyspace-written-under-Session._lock', lock.depth > 0)
            stamp['acq'] = lock.acquisitions
    sess.on_set = on_set
    done = []
    cb = _M(lambda errors: done.append(dict(errors) if isinstance(errors, dict) else (list(errors) if isinstance(errors, (list, tuple, set)) else errors)), 'callback')      # what the callback sees when it is called, not what the container holds later
    vc.call('cassandra.cluster.Session._set_keyspace_for_all_pools', sess, 'newks', cb)
    vc.check('post/session-keyspace-updated', sess.attrs['keyspace'] == 'newks')
    # add_or_renew_pool compares a new pool's keyspace with session.keyspace and publishes the pool under this same lock:
    # the keyspace update and the snapshot of the pools to switch must be one atomic step
    vc.check('lock/pools-snapshot-taken-under-the-same-lock-hold', len(snap) >= 1 and snap[0] is True and stamp.get('acq') == 1)
    vc.check('post/every-pool-asked-once', sorted(pending) == list(range(n)) and all(k == 'newks' for k, _ in pending.values()))
    byi = {p.i: p for p in pools.values()}
    for step, i in enumerate(order):
        vc.check('progress/not-completed-before-last-pool', done == [])
        errs = [SObj(Exception, {'args': ('use failed',)})] if outcomes[i] else []
        call_value(vc.ctx, pending[i][1], [byi[i], errs], {})
    vc.check('post/callback-exactly-once', len(done) == 1)
    if len(done) == 1:
        vc.check('post/errors-reported-iff-any-pool-failed', bool(done[0]) == any(outcomes))
    if n == 2:
        vc.must_fail('selfcheck/never-completes', done == [])


@harness('C20', 'HostConnection-all-conns', functions=['cassandra.pool.HostConnection._set_keyspace_for_all_conns'],
         native='contracts.native.c20:replay')
def host_conn(vc):
    """ensures in every pool state (ok / shut down / no connection at the moment) the pool remembers the keyspace for connections it
    opens later and its completion callback runs exactly once - immediately with no errors when there is nothing to switch,
    otherwise when its connection reports, with that connection's error; the connection is handed back exactly once"""
    w = P.World(vc)
    state = vc.choice('pool_state', ['ok', 'shutdown', 'no-connection'])
    c = P.Conn(w, 'c', in_flight=1)
    asked = []
    c.set_keyspace_async = lambda ks, cb: asked.append((ks, cb))
    pool, lock = P.host_connection(vc, w, None if state == 'no-connection' else c, shutdown=(state == 'shutdown'), keyspace='old')
    done = []
    cb = _M(lambda p, errors: done.append((p, list(errors))), 'callback')      # a snapshot: what is reported at the time of the call
    returned = []
    vc.stub(P.HC + 'return_connection', lambda self_, conn, **k: returned.append(conn))
    vc.call(P.HC + '_set_keyspace_for_all_conns', pool, 'newks', cb)
    vc.check('post/keyspace-remembered-for-later-connections', pool.attrs['_keyspace'] == 'newks')
    if state != 'ok':
        vc.check('idle/completes-immediately-once-without-errors', len(done) == 1 and done[0][0] is pool and done[0][1] == [])
        vc.check('idle/connection-not-asked', asked == [])
        return
    vc.check('ok/connection-asked-once', len(asked) == 1 and asked[0][0] == 'newks')
    vc.check('ok/not-completed-yet', done == [])
    fails = vc.choice('use_fails', [False, True])
    err = SObj(Exception, {'args': ('x',)}) if fails else None
    call_value(vc.ctx, asked[0][1], [c, err], {})
    vc.check('ok/callback-exactly-once-with-the-error', len(done) == 1 and done[0][0] is pool and done[0][1] == ([err] if fails else []))
    vc.check('ok/connection-handed-back-once', returned == [c])


@harness('C20', 'legacy-pool-all-conns', functions=['cassandra.pool.HostConnectionPool._set_keyspace_for_all_conns'], native='contracts.native.c20:replay')
def legacy(vc):
    """legacy pool with 0..2 connections, all completion orders: callback exactly once after all connections reported, with all errors"""
    from cassandra.pool import HostConnectionPool
    w = P.World(vc)
    n = vc.choice('connections', [0, 1, 2])
    outcomes = [vc.choice('conn%d_fails' % i, [False, True]) for i in range(n)]
    order = vc.choice('order', list(itertools.permutations(range(n)))) if n else ()
    conns = [P.Conn(w, 'c%d' % i, in_flight=1) for i in range(n)]
    asked = {}
    for i, c in enumerate(conns):
        c.set_keyspace_async = (lambda i: (lambda ks, cb: asked.__setitem__(i, (ks, cb))))(i)
    pool = vc.obj(HostConnectionPool, _connections=list(conns), _keyspace='old', host=P.HostObj(), _lock=LockModel('pool._lock'))
    returned = []
    vc.stub('cassandra.pool.HostConnectionPool.return_connection', lambda self_, conn, **k: returned.append(conn))
    done = []
    vc.call('cassandra.pool.HostConnectionPool._set_keyspace_for_all_conns', pool, 'newks', _M(lambda p, e: done.append((p, list(e))), 'cb'))      # snapshot at call time: an error appended after the report was never reported
    errs = {i: SObj(Exception, {'args': ('e%d' % i,)}) for i in range(n)}
    for i in order:
        vc.check('progress/not-before-last', done == [])
        call_value(vc.ctx, asked[i][1], [conns[i], errs[i] if outcomes[i] else None], {})
    vc.check('post/callback-exactly-once', len(done) == 1 and done[0][0] is pool)
    if len(done) == 1:
        vc.check('post/all-errors-reported', len(done[0][1]) == sum(outcomes) and all(errs[i] in done[0][1] for i in range(n) if outcomes[i]))
    vc.check('post/each-connection-handed-back-once', sorted(returned, key=id) == sorted(conns, key=id))


@harness('C20', 'set_keyspace_async-result', functions=['cassandra.connection.Connection.set_keyspace_async'], native='contracts.native.c20:replay_misc')
def conn_result(vc):
    """ensures the connection's USE handler: a result message => the connection's keyspace becomes the new one and the callback gets
    no error; an invalid-request error => callback gets that error, keyspace unchanged; anything else => connection defuncted and
    the callback gets the error; in every case exactly one callback"""
    from cassandra.connection import Connection
    from cassandra.protocol import ResultMessage, InvalidRequestException
    conn = vc.obj(Connection, lock=LockModel('connection.lock'), in_flight=0, max_request_id=100, keyspace='old', endpoint='ep')
    sent = []
    vc.stub('cassandra.connection.Connection.get_request_id', lambda self_: 9)
    vc.stub('cassandra.connection.Connection.send_msg', lambda self_, q, rid, cb_: sent.append((q, rid, cb_)))
    dead = []
    vc.stub('cassandra.connection.Connection.defunct', lambda self_, exc: dead.append(exc) or exc)
    done = []
    vc.call('cassandra.connection.Connection.set_keyspace_async', conn, 'newks', _M(lambda c, err: done.append(err), 'cb'))
    vc.check('post/one-USE-sent', len(sent) == 1 and sent[0][1] == 9)
    kind = vc.choice('server_reply', ['result', 'invalid', 'other'])
    reply = {'result': vc.obj(ResultMessage, kind=3), 'invalid': vc.obj(InvalidRequestException, code=0x2200, message='no such keyspace', info=None),
             'other': SObj(Exception, {'args': ('weird',)})}[kind]
    call_value(vc.ctx, sent[0][2], [reply], {})
    vc.check('post/exactly-one-callback', len(done) == 1)
    if kind == 'result':
        vc.check('ok/keyspace-selected', conn.attrs['keyspace'] == 'newks' and done == [None])
    elif kind == 'invalid':
        vc.check('invalid/error-reported-keyspace-unchanged', conn.attrs['keyspace'] == 'old' and done[0] is not None and dead == [])
    else:
        vc.check('other/defuncted-and-reported', len(dead) == 1 and done[0] is dead[0] and conn.attrs['keyspace'] == 'old')


@harness('C20', '_set_keyspace_completed', functions=[R.RF + '_set_keyspace_completed'], native='contracts.native.c20:replay_misc')
def completed(vc):
    """ensures the USE request succeeds iff no pool reported an error, otherwise fails with a ConnectionException"""
    from cassandra.connection import ConnectionException
    h1 = R.Host('h1')
    world = R.World(vc, [h1])
    fut = R.make_future(vc, world, R.Session(world, 4), [])
    bad = vc.choice('errors', [False, True])
    vc.call(R.RF + '_set_keyspace_completed', fut, {'h': ['e']} if bad else {})
    comps = fut.ghost['completions']
    vc.check('post/outcome', len(comps) == 1 and (issubclass(exc_class(comps[0][1]), ConnectionException) if bad else comps[0] == ('result', None)))


@harness('C20', 'new-pool-gets-session-keyspace', functions=['cassandra.pool.HostConnection.__init__'], native='contracts.native.c20:replay_misc')
def new_pool(vc):
    """ensures a pool created later opens its connection with the session's current keyspace selected before it is published"""
    from cassandra.pool import HostConnection
    from cassandra.policies import HostDistance
    w = P.World(vc)
    sess = P.Session(w, keyspace='current')
    pool = vc.obj(HostConnection)
    vc.call('cassandra.pool.HostConnection.__init__', pool, P.HostObj(), HostDistance.LOCAL, sess)
    c = pool.attrs.get('_connection')
    vc.check('post/connection-opened-with-keyspace', c is not None and c.keyspace == 'current' and pool.attrs['_keyspace'] == 'current')


@harness('C20', 'legacy-pool-new-connection', functions=['cassandra.pool.HostConnectionPool._add_conn_if_under_max'], native='contracts.native.c20:replay_legacy_add')
def legacy_new_conn(vc):
    """ensures a connection the legacy pool opens later gets the session's CURRENT keyspace (the pool's cached one may be stale when
    the pool was empty during the switch) before it is published"""
    import time
    from cassandra.pool import HostConnectionPool
    w = P.World(vc)
    sess = P.Session(w, keyspace='current')
    sess.cluster.get_max_connections_per_host = lambda d: 8
    pool = vc.obj(HostConnectionPool, _session=sess, host=P.HostObj(), host_distance=0, _lock=LockModel('pool._lock'), is_shutdown=False,
                  open_count=0, _connections=[], _keyspace='stale', _next_trash_allowed_at=0)
    vc.stub('cassandra.pool.HostConnectionPool._signal_available_conn', lambda self_: None)
    vc.stub(time.time, lambda: 0.0)
    vc.call('cassandra.pool.HostConnectionPool._add_conn_if_under_max', pool)
    cs = pool.attrs['_connections']
    vc.check('post/one-connection-published-with-the-current-keyspace', len(cs) == 1 and cs[0].keyspace == 'current')


@harness('C20', 'replacement-connection-vs-switch', functions=['cassandra.pool.HostConnection._replace', 'cassandra.pool.HostConnection._set_keyspace_for_all_conns'],
         native='contracts.native.c20:replay_replace')
def replace_vs_switch(vc):
    """a keyspace switch arriving while the pool is replacing its connection (no open connection at that moment, so the switch only records the keyspace and reports
    success), injected at each blocking call of _replace - while the new connection is being opened, while it is selecting the previous keyspace - or not at all:
    ensures the connection that _replace publishes has the keyspace the pool remembers at that moment, i.e. the one the last successful switch asked for"""
    from pyvc.interp import BoundMethod, resolve
    HC = P.HC
    w = P.World(vc)
    old = P.Conn(w, 'old')
    old.is_defunct = True
    pool, lock = P.host_connection(vc, w, old, replacing=True, keyspace='ks_old')
    pool.attrs['_connection'] = None          # return_connection has already dropped the defunct connection
    when = vc.choice('switch_arrives', ['never', 'while-opening', 'while-selecting-the-previous-keyspace'])
    reported = []
    switched = []

    def switch():
        if not switched:
            switched.append(1)
            call_value(vc.ctx, BoundMethod(resolve(HC + '_set_keyspace_for_all_conns'), pool), ['ks_new', _M(lambda p, e: reported.append(list(e)), 'cb')], {})
    if when == 'while-opening':
        w.factory_hook = switch
    real_new = []

    class NewConn(P.Conn):
        def set_keyspace_blocking(self_, ks):
            if when == 'while-selecting-the-previous-keyspace':
                switch()
            self_.keyspace = ks
    w.conn_class = NewConn
    vc.call(HC + '_replace', pool, old)
    c = pool.attrs['_connection']
    want = 'ks_old' if when == 'never' else 'ks_new'
    vc.check('post/a-connection-is-published', c is not None and c is not old)
    if c is not None and c is not old:
        vc.check('post/published-connection-has-the-keyspace-of-the-last-successful-switch', c.keyspace == want and pool.attrs['_keyspace'] == want)
    if when != 'never':
        vc.check('switch/completed-without-error', reported == [[]])


@harness('C20', 'legacy-new-connection-vs-switch', functions=['cassandra.pool.HostConnectionPool._add_conn_if_under_max', 'cassandra.pool.HostConnectionPool._set_keyspace_for_all_conns',
                                                              'cassandra.cluster.Session._set_keyspace_for_all_pools'], native='contracts.native.c20:replay_legacy_add')
def legacy_add_vs_switch(vc):
    """the legacy (protocol v1/v2) pool opening an additional connection while the session switches keyspace: the switch (session keyspace updated, then every
    connection the pool lists is switched) is injected at each blocking call of _add_conn_if_under_max - while the connection is being opened, while it is
    selecting the previous keyspace - or not at all, on a pool that is empty or has one connection, and whose remembered keyspace may be unset:
    ensures the connection that gets published has the session's keyspace of that moment (either it selected it itself or the switch reached it)"""
    import time
    from cassandra.pool import HostConnectionPool
    w = P.World(vc)
    sess = P.Session(w, keyspace='ks_old')
    sess.cluster.get_max_connections_per_host = lambda d: 8
    existing = vc.choice('pool_has_a_connection', [False, True])
    remembered = vc.choice('pool_remembers', ['ks_old', None])          # None: the pool was created before any keyspace was selected and was empty during the switch
    first = P.Conn(w, 'first', in_flight=0)
    first.keyspace = 'ks_old'
    first.set_keyspace_async = lambda ks, cb: (setattr(first, 'keyspace', ks), call_value(vc.ctx, cb, [first, None], {}))
    pool = vc.obj(HostConnectionPool, _session=sess, host=P.HostObj(), host_distance=0, _lock=LockModel('pool._lock'), is_shutdown=False,
                  open_count=1 if existing else 0, _connections=[first] if existing else [], _keyspace=remembered, _next_trash_allowed_at=0)
    vc.stub('cassandra.pool.HostConnectionPool._signal_available_conn', lambda self_: None)
    vc.stub('cassandra.pool.HostConnectionPool.return_connection', lambda self_, conn, **k: None)
    vc.stub(time.time, lambda: 0.0)
    when = vc.choice('switch_arrives', ['never', 'while-opening', 'while-selecting-the-previous-keyspace'])
    reported, switched = [], []

    def switch():
        if switched:
            return
        switched.append(1)
        sess.keyspace = 'ks_new'                   # Session._set_keyspace_for_all_pools: the session keyspace first, then every pool
        call_value(vc.ctx, BoundMethod(resolve('cassandra.pool.HostConnectionPool._set_keyspace_for_all_conns'), pool), ['ks_new', _M(lambda p, e: reported.append(list(e)), 'cb')], {})
    if when == 'while-opening':
        w.factory_hook = switch

    class NewConn(P.Conn):
        def set_keyspace_blocking(self_, ks):
            if when == 'while-selecting-the-previous-keyspace':
                switch()
            self_.keyspace = ks

        def set_keyspace_async(self_, ks, cb):
            self_.keyspace = ks
            call_value(vc.ctx, cb, [self_, None], {})
    w.conn_class = NewConn
    vc.call('cassandra.pool.HostConnectionPool._add_conn_if_under_max', pool)
    want = 'ks_old' if when == 'never' else 'ks_new'
    cs = list(pool.attrs['_connections'])
    vc.check('post/the-new-connection-is-published', len(cs) == (2 if existing else 1))
    vc.check('post/every-listed-connection-has-the-session-keyspace', all(c.keyspace == want for c in cs))
    if when != 'never':
        vc.check('switch/completed-without-error', reported == [[]])
