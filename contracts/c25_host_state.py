"""C25 - host state changes keep a single reconnector and notify listeners once."""
import os
from pyvc.engine import harness
from pyvc import sym
from pyvc.interp import SObj, PyExc, exc_class, make_exception, call_value, BoundMethod, resolve
from pyvc.libmodels import LockModel, _M, PartialModel

LEVEL = 'proof'
TRUSTED = ['history clause: every function is verified from an ARBITRARY host state satisfying the series invariant I(host) = "the handler stored on the host, if any, is the only '
           'started and not cancelled reconnection handler of that host" and re-establishes it; sequences of events are compositions of these steps (meta-argument), '
           'A-ATOMIC for the regions under host.lock',
           'A-EXEC/E-SCHED: the scheduler runs a scheduled callable once after its delay unless shut down; Session.add_or_renew_pool returns a future whose done-callbacks run once',
           'callee contracts: sessions (remove_pool/add_or_renew_pool/update_created_pools: C13/C45), load-balancing policies and listeners are notification sinks with a ghost log; '
           'the conviction policy is an arbitrary oracle',
           'a finite reconnection schedule (max_attempts) ends the series by configuration: the handler then stays registered on the host (noted, not claimed)']
EXPLANATION = 'typestate postconditions over a ghost notification log and the set of started/cancelled reconnection handlers on the real Cluster.on_up/_on_up_future_completed/on_down/_start_reconnector/_cleanup_failed_on_up_handling/on_add/_finalize_add/on_remove/signal_connection_failure, pool._ReconnectionHandler.start/run/cancel, _HostReconnectionHandler, Host.get_and_set_reconnection_handler/set_up/set_down'

CL = 'cassandra.cluster.Cluster.'
RH = 'cassandra.pool._ReconnectionHandler.'


class Fut(object):
    def __init__(self, log, name, result=True, raises=False):
        self.log, self.name, self._result, self._raises, self.cbs, self.cancelled = log, name, result, raises, [], False

    def add_done_callback(self, cb):
        self.cbs.append(cb)

    def result(self):
        if self._raises:
            raise PyExc(SObj(Exception, {'args': ('pool creation failed',)}))
        return self._result

    def cancel(self):
        self.cancelled = True


class Sess(object):
    def __init__(self, log, name, pool_outcome):
        self.log, self.name, self.pool_outcome = log, name, pool_outcome
        self.futures = []

    def remove_pool(self, host):
        self.log.append(('remove_pool', self.name))

    def add_or_renew_pool(self, host, is_host_addition):
        self.log.append(('add_or_renew_pool', self.name, is_host_addition))
        if self.pool_outcome == 'ignored':
            return None
        f = Fut(self.log, self.name, result=(self.pool_outcome == 'ok'), raises=(self.pool_outcome == 'raises'))
        self.futures.append(f)
        return f

    def update_created_pools(self):
        self.log.append(('update_created_pools', self.name))

    def on_down(self, host):
        self.log.append(('session.on_down', self.name))

    def on_remove(self, host):
        self.log.append(('session.on_remove', self.name))

    def get_pool_state(self):
        return {}


class Sink(object):
    def __init__(self, log, name):
        self.log, self.name = log, name

    def __getattr__(self, ev):
        if ev.startswith('on_'):
            return lambda host, *a, **k: self.log.append((self.name + '.' + ev,))
        raise AttributeError(ev)


class Conviction(object):
    def __init__(self, log):
        self.log = log

    def reset(self):
        self.log.append(('conviction.reset',))

    def add_failure(self, exc):
        return True


class PM(Sink):
    def __init__(self, log, distance):
        Sink.__init__(self, log, 'policies')
        self._distance = distance

    def distance(self, host):
        return self._distance


class Sched(object):
    def __init__(self, log):
        self.log = log

    def schedule(self, delay, fn, *a, **k):
        self.log.append(('schedule', delay, fn))


def _world(vc, sessions=('ok',), distance=None, is_up=False, handler=None, handling=False):
    from cassandra.cluster import Cluster
    from cassandra.pool import Host
    from cassandra.policies import HostDistance
    log = []
    host = vc.obj(Host, endpoint='ep', lock=LockModel('Host.lock'), is_up=is_up, _reconnection_handler=handler, _currently_handling_node_up=handling,
                  conviction_policy=Conviction(log), _datacenter='dc', _rack='r')

    class RP(object):
        def new_schedule(self_):
            return iter([1.0, 2.0, 4.0])
    sess = [Sess(log, 's%d' % i, o) for i, o in enumerate(sessions)]
    cl = vc.obj(Cluster, is_shutdown=False, profile_manager=PM(log, HostDistance.LOCAL if distance is None else distance), control_connection=Sink(log, 'control'),
                sessions=set(), _listeners=set([Sink(log, 'listener')]), _listener_lock=LockModel('Cluster._listener_lock'), reconnection_policy=RP(), scheduler=Sched(log), _discount_down_events=False,
                _lock=LockModel('Cluster._lock'))
    cl.attrs['sessions'] = _OrderedSet(sess)
    vc.stub(CL + '_prepare_all_queries', lambda self_, h: log.append(('prepare_all_queries',)))
    vc.stub(CL + '_make_connection_factory', lambda self_, h, *a, **k: _M(lambda: 'conn', 'connection_factory'))
    return cl, host, sess, log


class _OrderedSet(list):
    """Cluster.sessions (a WeakSet): iterated via tuple(self.sessions)"""
    pass


def _handlers(log):
    """reconnection handlers that were started (their first attempt scheduled)"""
    hs = []
    for e in log:
        if e[0] == 'schedule':
            h = getattr(e[2], 'self_obj', None)
            if h is not None and h not in hs:
                hs.append(h)
    return hs


def _count(log, name):
    return len([e for e in log if e[0] == name])


class OldHandler(object):
    """a previously started handler (ghost: part of the series invariant)"""

    def __init__(self):
        self._cancelled = False

    def cancel(self):
        self._cancelled = True


@harness('C25', 'on_down', functions=[CL + 'on_down', CL + '_start_reconnector', 'cassandra.pool._ReconnectionHandler.start',
                                      'cassandra.pool.Host.get_and_set_reconnection_handler', 'cassandra.pool.Host.set_down'], native='contracts.native.c25:replay')
def on_down(vc):
    """ensures a down signal marks the host down; when this is a transition (host was up, or a failed addition) and no series is
    running: policies, control connection, sessions and listeners are told exactly once and exactly ONE reconnection series is
    started and stored on the host (none for an ignored host); otherwise (already down / already reconnecting) nothing is notified
    and no second series starts"""
    from cassandra.cluster import Cluster
    from cassandra.policies import HostDistance
    was_up = vc.choice('host_was_up', [True, False])
    expect = vc.choice('expect_host_to_be_down', [False, True])
    reconnecting = vc.choice('already_reconnecting', [False, True])
    ignored = vc.choice('ignored_by_policy', [False, True])
    old = OldHandler() if reconnecting else None
    cl, host, sess, log = _world(vc, sessions=('ok', 'ok'), distance=HostDistance.IGNORED if ignored else None, is_up=was_up, handler=old)
    vc.call(Cluster.__dict__['on_down'].__wrapped__, cl, host, vc.choice('is_host_addition', [False, True]), expect)
    started = _handlers(log)
    transition = (was_up or expect) and not reconnecting
    vc.check('post/host-marked-down', host.attrs['is_up'] is False)
    if transition:
        vc.check('transition/policies-control-sessions-listeners-told-exactly-once',
                 _count(log, 'policies.on_down') == 1 and _count(log, 'control.on_down') == 1 and _count(log, 'listener.on_down') == 1
                 and _count(log, 'session.on_down') == 2)
        if ignored:
            vc.check('transition/ignored-host-gets-no-reconnector', started == [] and host.attrs['_reconnection_handler'] is None)
        else:
            vc.check('transition/exactly-one-series-started-and-stored', len(started) == 1 and host.attrs['_reconnection_handler'] is started[0]
                     and started[0].attrs.get('_cancelled', False) is False)
            vc.check('transition/first-attempt-after-the-policys-first-delay', [e[1] for e in log if e[0] == 'schedule'] == [1.0])
    else:
        vc.check('no-transition/nothing-notified-no-new-series', started == [] and _count(log, 'listener.on_down') == 0 and _count(log, 'policies.on_down') == 0
                 and host.attrs['_reconnection_handler'] is old)
    if was_up and not reconnecting and not ignored:
        vc.must_fail('selfcheck/no-series', started == [])


@harness('C25', '_start_reconnector', functions=[CL + '_start_reconnector'], native='contracts.native.c25:replay')
def start_reconnector(vc):
    """ensures starting a reconnector while another one is registered cancels the old one: afterwards exactly one started, not
    cancelled handler exists for the host and it is the registered one"""
    old = OldHandler() if vc.choice('handler_registered', [True, False]) else None
    cl, host, sess, log = _world(vc, handler=old)
    vc.call(CL + '_start_reconnector', cl, host, vc.choice('is_host_addition', [False, True]))
    started = _handlers(log)
    vc.check('post/one-new-series-registered', len(started) == 1 and host.attrs['_reconnection_handler'] is started[0])
    vc.check('post/previous-series-cancelled', old is None or old._cancelled is True)


@harness('C25', 'on_up', functions=[CL + 'on_up', CL + '_on_up_future_completed', CL + '_cleanup_failed_on_up_handling', 'cassandra.pool.Host.set_up'],
         native='contracts.native.c25:replay')
def on_up(vc):
    """ensures an up signal for a down host that nobody is handling: cancels and clears the reconnector, tells the policies and the
    control connection once, asks every session for a pool; the host is marked up and the listeners told exactly once only after
    EVERY session's pool was created; if any pool fails the host stays down, the policies are told it is down again and exactly one
    new series is started; an up signal for a host already up / being handled does nothing"""
    from cassandra.policies import HostDistance
    state = vc.choice('host_state', ['down-with-reconnector', 'down-no-reconnector', 'already-up', 'being-handled'])
    outcomes = [vc.choice('session%d_pool' % i, ['ok', 'fails', 'raises', 'ignored']) for i in range(vc.choice('sessions', [0, 1, 2]))]
    old = OldHandler() if state == 'down-with-reconnector' else None
    cl, host, sess, log = _world(vc, sessions=outcomes, is_up=(state == 'already-up'), handler=old, handling=(state == 'being-handled'))
    vc.call(CL + 'on_up', cl, host)
    if state in ('already-up', 'being-handled'):
        vc.check('noop/nothing-happens', log == [] and host.attrs['is_up'] is (state == 'already-up'))
        return
    vc.check('post/reconnector-cancelled-and-cleared', (old is None or old._cancelled) and (host.attrs['_reconnection_handler'] is None or _handlers(log)))
    vc.check('post/policies-and-control-told-once', _count(log, 'policies.on_up') == 1 and _count(log, 'control.on_up') == 1)
    vc.check('post/every-session-asked-for-a-pool', _count(log, 'add_or_renew_pool') == len(sess))
    futs = [f for s in sess for f in s.futures]
    if not futs:
        vc.check('no-pools/marked-up-at-once', host.attrs['is_up'] is True and host.attrs['_currently_handling_node_up'] is False)
        vc.check('no-pools/listeners-told-exactly-once', _count(log, 'listener.on_up') == 1)
        return
    vc.check('pending/not-up-before-the-pools-exist', host.attrs['is_up'] is False and _count(log, 'listener.on_up') == 0)
    order = list(range(len(futs)))
    if len(futs) == 2 and vc.choice('completion_order', ['in-order', 'reversed']) == 'reversed':
        order.reverse()
    for k, i in enumerate(order):
        for cb in futs[i].cbs:
            call_value(vc.ctx, cb, [futs[i]], {})
        if k < len(order) - 1:
            vc.check('pending/still-not-up-while-a-pool-is-outstanding', host.attrs['is_up'] is False and _count(log, 'listener.on_up') == 0)
    all_ok = all(o in ('ok', 'ignored') for o in outcomes)
    vc.check('done/handling-flag-cleared', host.attrs['_currently_handling_node_up'] is False)
    if all_ok:
        vc.check('done/marked-up-listeners-told-exactly-once', host.attrs['is_up'] is True and _count(log, 'listener.on_up') == 1)
        vc.check('done/pools-reconciled-in-every-session', _count(log, 'update_created_pools') == len(sess))
        vc.check('done/no-reconnector-left', host.attrs['_reconnection_handler'] is None and _handlers(log) == [])
    else:
        started = _handlers(log)
        vc.check('failed/host-stays-down-listeners-not-told', host.attrs['is_up'] is False and _count(log, 'listener.on_up') == 0)
        vc.check('failed/policies-told-down-again', _count(log, 'policies.on_down') == 1)
        vc.check('failed/exactly-one-new-series', len(started) == 1 and host.attrs['_reconnection_handler'] is started[0])


@harness('C25', 'on_remove', functions=[CL + 'on_remove'], native='contracts.native.c25:replay')
def on_remove(vc):
    """ensures a removed host is marked down, its reconnection series cancelled and cleared (a cancelled handler never reconnects: see
    _ReconnectionHandler.run), and policies/sessions/listeners/control connection are told exactly once"""
    old = OldHandler() if vc.choice('reconnecting', [True, False]) else None
    cl, host, sess, log = _world(vc, sessions=('ok', 'ok'), is_up=vc.choice('was_up', [True, False]), handler=old)
    vc.call(CL + 'on_remove', cl, host)
    vc.check('post/down-and-no-series', host.attrs['is_up'] is False and host.attrs['_reconnection_handler'] is None and (old is None or old._cancelled))
    vc.check('post/everyone-told-exactly-once', _count(log, 'policies.on_remove') == 1 and _count(log, 'listener.on_remove') == 1 and
             _count(log, 'control.on_remove') == 1 and _count(log, 'session.on_remove') == 2)
    vc.check('post/nothing-scheduled', _handlers(log) == [])


@harness('C25', 'reconnection-handler.run', functions=[RH + 'run', RH + 'start', RH + 'cancel', 'cassandra.pool._HostReconnectionHandler.on_reconnection',
                                                       'cassandra.pool._HostReconnectionHandler.on_exception'], native='contracts.native.c25:replay')
def handler_run(vc):
    """ensures one attempt of a host reconnection series: cancelled => nothing at all (a removed / already-up host is never
    reconnected); success => the host is reported up (on_up, or on_add for a failed addition) exactly once, the handler unregisters
    itself, the probe connection is closed, nothing further is scheduled; failure => exactly one next attempt after the policy's next
    delay (a delay of 0 included); an authentication failure or an exhausted schedule ends the series"""
    from cassandra.pool import _HostReconnectionHandler
    from cassandra import AuthenticationFailed
    log = []
    cancelled = vc.choice('cancelled', [False, True])
    outcome = vc.choice('attempt', ['connects', 'fails', 'auth-fails'])
    nxt = vc.choice('next_delay', [2.0, 0, 0.0, 'exhausted'])
    addition = vc.choice('is_host_addition', [False, True])
    closed = []

    class Conn(object):
        def close(self):
            closed.append(1)

    def factory():
        log.append(('connect',))
        if outcome == 'connects':
            return Conn()
        raise PyExc(make_exception(vc.ctx, AuthenticationFailed if outcome == 'auth-fails' else Exception, ['no'], {}))
    h = vc.obj(_HostReconnectionHandler, scheduler=Sched(log), schedule=iter([] if nxt == 'exhausted' else [nxt]), callback=_M(lambda *a, **k: log.append(('unregister', a, k)), 'callback'),
               callback_args=(), callback_kwargs={'new_handler': None}, _cancelled=cancelled, is_host_addition=addition,
               on_add=_M(lambda host: log.append(('on_add',)), 'on_add'), on_up=_M(lambda host: log.append(('on_up',)), 'on_up'), host='host',
               connection_factory=_M(factory, 'connection_factory'))
    vc.call(RH + 'run', h)
    sched = [e for e in log if e[0] == 'schedule']
    if cancelled:
        vc.check('cancelled/does-nothing', log == [])
    elif outcome == 'connects':
        vc.check('success/host-reported-up-exactly-once', [e[0] for e in log if e[0] in ('on_up', 'on_add')] == (['on_add'] if addition else ['on_up']))
        vc.check('success/unregisters-itself', _count(log, 'unregister') == 1)
        vc.check('success/probe-connection-closed-nothing-rescheduled', closed == [1] and sched == [])
    elif outcome == 'auth-fails' or nxt == 'exhausted':
        vc.check('ended/no-further-attempt', sched == [])
    else:
        vc.check('failure/exactly-one-next-attempt-after-the-next-delay', len(sched) == 1 and sched[0][1] == nxt and getattr(sched[0][2], 'self_obj', None) is h)
        vc.check('failure/host-not-reported-up', _count(log, 'on_up') == 0 and _count(log, 'on_add') == 0)


@harness('C25', 'signal_connection_failure', functions=[CL + 'signal_connection_failure'], native='contracts.native.c25:replay')
def signal_failure(vc):
    """ensures a connection failure leads to the down handling exactly when the conviction policy convicts the host"""
    cl, host, sess, log = _world(vc)
    verdict = vc.choice('conviction', [True, False])

    class CP(object):
        def add_failure(self, exc):
            return verdict
    host.attrs['conviction_policy'] = CP()
    seen = []

    def on_down(self_, h, is_host_addition, expect_host_to_be_down=False):
        log.append(('on_down', h))
        seen.append((h, is_host_addition, expect_host_to_be_down))
    vc.stub(CL + 'on_down', on_down)
    addition = vc.choice('is_host_addition', [False, True])
    expected_down = vc.choice('expect_host_to_be_down', [None, False, True])     # None: the caller leaves the default
    if expected_down is None:
        r = vc.call(CL + 'signal_connection_failure', cl, host, 'exc', addition)
    else:
        r = vc.call(CL + 'signal_connection_failure', cl, host, 'exc', addition, expect_host_to_be_down=expected_down)
    vc.check('post/on_down-iff-convicted', r is verdict and _count(log, 'on_down') == (1 if verdict else 0))
    if verdict:
        # a pool that could not be opened for a host that was never up (Session.add_or_renew_pool passes expect_host_to_be_down=True) must still get the
        # full down handling - reconnector and listener notification - so the flag has to reach on_down
        vc.check('post/down-handling-told-what-the-caller-said', seen == [(host, addition, bool(expected_down))])
