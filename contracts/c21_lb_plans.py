"""C21 - load-balancing plans reflect the live cluster membership."""
import os
from pyvc.engine import harness
from pyvc import sym
from pyvc.interp import SObj, PyExc, exc_class, call_value, GenList
from pyvc.libmodels import LockModel, _M

LEVEL = 'proof'
TRUSTED = ['history clause: every operation is verified from EVERY policy state over the host universe (all subsets of 5 hosts in 2 datacenters + 1 host without datacenter, '
           'tuple orders forward/reversed) and shown to produce the abstract effect on the view LIVE (insert / delete / replace); event sequences are compositions',
           'bounded dimension: the universe has 5 hosts / 3 datacenter keys (thorough: 6 hosts / 4 keys); hosts enter the code only through equality, hashing and their datacenter/address, '
           'so larger clusters repeat the same steps', 'E-ITER: itertools.islice/cycle/groupby are the CPython functions (executed natively on concrete sequences)',
           'E-RANDOM: randint returns an arbitrary value in range (start positions 0, 1 and a value above the length are enumerated)',
           'A-ALIAS: distinct Host objects are unequal (one Host object per endpoint, C42)']
EXPLANATION = 'representation invariant + abstract-view postconditions on the real RoundRobinPolicy, DCAwareRoundRobinPolicy, WhiteListRoundRobinPolicy, HostFilterPolicy, DefaultLoadBalancingPolicy (populate/on_up/on_down/on_add/on_remove/distance/make_query_plan)'

P = 'cassandra.policies.'
TIER = os.environ.get('VERIF_TIER', 'quick')


class H(object):
    def __init__(self, name, dc, address=None, up=True):
        self.name, self.datacenter, self.address, self.is_up = name, dc, address or ('10.0.0.' + name[-1]), up
        self.endpoint = 'ep-' + name

    def __repr__(self):
        return self.name


def universe():
    hs = [H('a1', 'dc1'), H('b2', 'dc1'), H('c3', 'dc2'), H('d4', 'dc2'), H('f5', None)]
    if TIER != 'quick':
        hs.append(H('e6', 'dc3'))
    return hs


def plan_list(r):
    if isinstance(r, GenList):
        return list(r.items[r.pos:])
    return list(r)


def subset(vc, U, name='live'):
    return [h for h in U if vc.choice('%s_%s' % (name, h.name), [True, False])]


def rr_policy(vc, live, pos, cls=None, **attrs):
    from cassandra.policies import RoundRobinPolicy
    return vc.obj(cls or RoundRobinPolicy, _live_hosts=frozenset(live), _position=pos, _hosts_lock=LockModel('policy._hosts_lock'), **attrs)


@harness('C21', 'RoundRobinPolicy', functions=[P + 'RoundRobinPolicy.populate', P + 'RoundRobinPolicy.make_query_plan', P + 'RoundRobinPolicy.on_up',
                                               P + 'RoundRobinPolicy.on_down', P + 'RoundRobinPolicy.on_add', P + 'RoundRobinPolicy.on_remove'],
         native='contracts.native.c21:replay')
def round_robin(vc):
    """view LIVE = _live_hosts. ensures populate(hs): LIVE' == set(hs) for any order; on_up/on_add(h): LIVE' == LIVE + {h};
    on_down/on_remove(h): LIVE' == LIVE - {h}; make_query_plan: no duplicates, set(plan) == LIVE, every start position"""
    U = universe()[:4]
    live = subset(vc, U)
    pos = vc.choice('position', [0, 1, 7])
    pol = rr_policy(vc, live, pos)
    op = vc.choice('operation', ['populate', 'on_up', 'on_down', 'on_add', 'on_remove', 'make_query_plan'])
    vc.stub('random.randint', lambda a, b: vc.choice('randint', [0, 1]) if b >= 1 else 0)
    if op == 'populate':
        hs = subset(vc, U, 'populate')
        if vc.choice('populate_order', ['forward', 'reversed']) == 'reversed':
            hs = hs[::-1]
        vc.call(P + 'RoundRobinPolicy.populate', pol, None, hs)
        want = set(hs)
    elif op == 'make_query_plan':
        plan = plan_list(vc.call(P + 'RoundRobinPolicy.make_query_plan', pol))
        vc.check('plan/no-duplicates', len(plan) == len(set(plan)))
        vc.check('plan/exactly-the-live-hosts', set(plan) == set(live))
        vc.check('plan/position-advances', pol.attrs['_position'] == pos + 1)
        want = set(live)
    else:
        h = U[vc.choice('host', list(range(len(U))))]
        vc.call(P + 'RoundRobinPolicy.' + op, pol, h)
        want = (set(live) | {h}) if op in ('on_up', 'on_add') else (set(live) - {h})
    vc.check('view/LIVE-updated-exactly', set(pol.attrs['_live_hosts']) == want)
    vc.check('distance/always-local', vc.call(P + 'RoundRobinPolicy.distance', pol, U[0]) == 0)


def dc_state(vc, U, local_dc, reverse):
    """a representation satisfying the invariant: dc -> non-empty tuple without duplicates, every host under its own _dc"""
    live = subset(vc, U)
    d = {}
    for h in (live[::-1] if reverse else live):
        d.setdefault(h.datacenter or local_dc, []).append(h)
    return live, {k: tuple(v) for k, v in d.items()}


def dc_invariant(pol, local_dc):
    d = pol.attrs['_dc_live_hosts']
    return all(len(v) > 0 and len(set(v)) == len(v) and all((h.datacenter or local_dc) == k for h in v) and isinstance(v, tuple) for k, v in d.items())


def dc_view(pol):
    return set(h for v in pol.attrs['_dc_live_hosts'].values() for h in v)


def _dc_policy(vc, d, local_dc, used, pos):
    from cassandra.policies import DCAwareRoundRobinPolicy
    return vc.obj(DCAwareRoundRobinPolicy, local_dc=local_dc, used_hosts_per_remote_dc=used, _dc_live_hosts=dict(d), _position=pos, _endpoints=[],
                  _hosts_lock=LockModel('policy._hosts_lock'))


DC = P + 'DCAwareRoundRobinPolicy.'


@harness('C21', 'DCAwareRoundRobinPolicy[events]', functions=[DC + 'populate', DC + 'on_up', DC + 'on_down', DC + 'on_add', DC + 'on_remove', DC + '_dc'],
         native='contracts.native.c21:replay')
def dc_events(vc):
    """view LIVE = union of the per-datacenter tuples; invariant I: every key maps to a non-empty duplicate-free tuple of hosts of that
    datacenter (hosts without datacenter count as local). from every state satisfying I: on_up/on_add(h) ensures I and LIVE' == LIVE + {h};
    on_down/on_remove(h) ensures I and LIVE' == LIVE - {h} (relative to the state at the moment the policy lock is acquired: an event of
    another thread completing just before must not be undone); populate(hs) on a fresh policy ensures I and LIVE' == set(hs) for ANY order of hs"""
    U = universe()
    used = 1            # not read by the event handlers
    op = vc.choice('operation', ['populate', 'on_up', 'on_down', 'on_add', 'on_remove'])
    vc.stub('random.randint', lambda a, b: 0)
    if op == 'populate':
        hs = subset(vc, U, 'populate')
        order = vc.choice('populate_order', ['forward', 'reversed', 'interleaved'])
        hs = hs[::-1] if order == 'reversed' else (hs[::2] + hs[1::2] if order == 'interleaved' else hs)
        pol = _dc_policy(vc, {}, 'dc1', used, 0)

        class Cl(object):
            endpoints_resolved = []
        vc.call(DC + 'populate', pol, Cl(), hs)
        vc.check('populate/invariant', dc_invariant(pol, 'dc1'))
        vc.check('populate/LIVE-is-exactly-the-given-hosts-in-any-order', dc_view(pol) == set(hs))
        if len(hs) == len(U):
            vc.must_fail('selfcheck/populate-loses-everything', dc_view(pol) == set())
        return
    live, d = dc_state(vc, U, 'dc1', vc.choice('tuple_order', ['forward', 'reversed']) == 'reversed')
    pol = _dc_policy(vc, d, 'dc1', used, 0)
    h = U[vc.choice('host', list(range(len(U))))]
    # interference: another thread completes an event for a different host right before this one gets the policy lock
    inter = vc.choice('other_thread_meanwhile', ['nothing', 'removes-a-host', 'adds-a-host'])
    others_live = [g for g in live if g is not h]
    others_dead = [g for g in U if g not in live and g is not h]
    g = (others_live[0] if others_live else None) if inter == 'removes-a-host' else ((others_dead[0] if others_dead else None) if inter == 'adds-a-host' else None)
    done = []

    def on_acquire(ctx):
        if g is None or done:
            return
        done.append(1)
        m = pol.attrs['_dc_live_hosts']
        k = g.datacenter or 'dc1'
        if inter == 'removes-a-host':
            rest = tuple(x for x in m.get(k, ()) if x is not g)
            if rest:
                m[k] = rest
            else:
                m.pop(k, None)
        else:
            m[k] = m.get(k, ()) + (g,)
    pol.attrs['_hosts_lock'] = LockModel('policy._hosts_lock', on_acquire=on_acquire)
    vc.call(DC + op, pol, h)
    base = set(live)
    if g is not None:
        base = (base - {g}) if inter == 'removes-a-host' else (base | {g})
        d = dict(d)
        d.pop(g.datacenter or 'dc1', None)
    want = (base | {h}) if op in ('on_up', 'on_add') else (base - {h})
    vc.check('event/invariant-preserved', dc_invariant(pol, 'dc1'))
    vc.check('event/LIVE-updated-exactly', dc_view(pol) == want)
    others = [k for k in d if k != (h.datacenter or 'dc1')]
    vc.check('event/other-datacenters-untouched', all(pol.attrs['_dc_live_hosts'].get(k) == d[k] for k in others))
    vc.check('event/read-modify-write-under-the-policy-lock', g is None or bool(done))


@harness('C21', 'DCAwareRoundRobinPolicy[plan]', functions=[DC + 'make_query_plan', DC + 'distance'], native='contracts.native.c21:replay')
def dc_plan(vc):
    """from every state satisfying I, for every used_hosts_per_remote_dc and start position: ensures the plan has no duplicates,
    yields every live local host first (a rotation of the local tuple), then at most used_hosts_per_remote_dc hosts of each remote
    datacenter; a host is in the plan iff it is live and its reported distance is not IGNORED; local hosts are LOCAL, planned remote
    hosts REMOTE"""
    from cassandra.policies import HostDistance
    U = universe()
    used = vc.choice('used_hosts_per_remote_dc', [0, 1, 2])
    live, d = dc_state(vc, U, 'dc1', vc.choice('tuple_order', ['forward', 'reversed']) == 'reversed')
    pos = vc.choice('position', [0, 1, 7])
    pol = _dc_policy(vc, d, 'dc1', used, pos)
    plan = plan_list(vc.call(DC + 'make_query_plan', pol))
    local = list(d.get('dc1', ()))
    vc.check('plan/no-duplicates', len(plan) == len(set(plan)))
    vc.check('plan/local-hosts-first-all-of-them-as-a-rotation', plan[:len(local)] == (local[pos % len(local):] + local[:pos % len(local)] if local else []))
    rest = plan[len(local):]
    vc.check('plan/then-only-remote-hosts-at-most-the-configured-number-per-dc',
             all(h.datacenter not in (None, 'dc1') for h in rest) and all(len([h for h in rest if h.datacenter == k]) <= used for k in d))
    dist = {h: vc.call(DC + 'distance', pol, h) for h in U}
    vc.check('plan/contains-exactly-the-live-hosts-not-reported-IGNORED', set(plan) == set(h for h in live if dist[h] != HostDistance.IGNORED))
    vc.check('distance/local-and-remote-consistent-with-the-plan',
             all(dist[h] == (HostDistance.LOCAL if (h.datacenter or 'dc1') == 'dc1' else HostDistance.REMOTE) for h in plan))
    vc.check('plan/position-advances', pol.attrs['_position'] == pos + 1)
    if used == 2 and len(live) == len(U):
        vc.must_fail('selfcheck/remote-hosts-never-planned', rest == [])


@harness('C21', 'DCAwareRoundRobinPolicy[local-dc-detection]', functions=[DC + 'on_up', DC + 'populate'], native='contracts.native.c21:replay')
def dc_detect(vc):
    """ensures with no local_dc configured the datacenter of the first contact point that comes up becomes local and stays so"""
    a, c = H('a1', 'dc1'), H('c3', 'dc2')
    pol = _dc_policy(vc, {}, '', 1, 0)
    pol.attrs['_endpoints'] = [a.endpoint]
    first = vc.choice('first_up', ['contact-point', 'other'])
    for h in ([a, c] if first == 'contact-point' else [c, a]):
        vc.call(DC + 'on_up', pol, h)
    vc.check('post/local-dc-is-the-contact-points', pol.attrs['local_dc'] == 'dc1')


@harness('C21', 'WhiteListRoundRobinPolicy', functions=[P + 'WhiteListRoundRobinPolicy.populate', P + 'WhiteListRoundRobinPolicy.on_up',
                                                        P + 'WhiteListRoundRobinPolicy.on_add', P + 'WhiteListRoundRobinPolicy.distance'],
         native='contracts.native.c21:replay')
def white_list(vc):
    """ensures for every allowed set, state and event: LIVE stays within the allowed hosts (populate, on_up, on_add filter by the
    RESOLVED allowed addresses), so no plan ever yields an excluded host; excluded hosts are reported IGNORED, allowed ones LOCAL"""
    from cassandra.policies import WhiteListRoundRobinPolicy, HostDistance
    U = universe()[:4]
    allowed = [h for h in U if vc.choice('allowed_' + h.name, [True, False])]
    # the white list was given by name; the names resolve to these addresses
    pol = rr_policy(vc, [h for h in allowed if vc.choice('live_' + h.name, [True, False])], 0, cls=WhiteListRoundRobinPolicy,
                    _allowed_hosts=tuple('name-of-' + h.name for h in allowed), _allowed_hosts_resolved=[h.address for h in allowed])
    live0 = set(pol.attrs['_live_hosts'])
    op = vc.choice('operation', ['populate', 'on_up', 'on_add', 'on_down', 'on_remove'])
    vc.stub('random.randint', lambda a, b: 0)
    if op == 'populate':
        hs = subset(vc, U, 'populate')
        vc.call(P + 'WhiteListRoundRobinPolicy.populate', pol, None, hs)
        want = set(hs) & set(allowed)
    else:
        h = U[vc.choice('host', list(range(len(U))))]
        vc.call(P + 'WhiteListRoundRobinPolicy.' + op, pol, h)
        want = (live0 | ({h} & set(allowed))) if op in ('on_up', 'on_add') else (live0 - {h})
    vc.check('view/LIVE-is-the-allowed-part', set(pol.attrs['_live_hosts']) == want)
    plan = plan_list(vc.call(P + 'WhiteListRoundRobinPolicy.make_query_plan', pol))
    vc.check('plan/never-an-excluded-host', all(h in allowed for h in plan) and set(plan) == want and len(plan) == len(set(plan)))
    vc.check('distance/excluded-hosts-ignored', all(vc.call(P + 'WhiteListRoundRobinPolicy.distance', pol, h) ==
                                                    (HostDistance.LOCAL if h in allowed else HostDistance.IGNORED) for h in U))


@harness('C21', 'HostFilterPolicy', functions=[P + 'HostFilterPolicy.make_query_plan', P + 'HostFilterPolicy.distance', P + 'HostFilterPolicy.populate',
                                               P + 'HostFilterPolicy.on_up', P + 'HostFilterPolicy.on_down'], native='contracts.native.c21:replay')
def host_filter(vc):
    """ensures for any child plan and predicate: the filtered plan is the child plan without the hosts the predicate rejects, in the
    child's order; rejected hosts are IGNORED, others get the child's distance; events and populate reach the child unchanged"""
    from cassandra.policies import HostFilterPolicy, HostDistance
    U = universe()[:4]
    rejected = [h for h in U if vc.choice('rejected_' + h.name, [True, False])]
    child_plan = subset(vc, U, 'child_plan')
    log = []

    class Child(object):
        def make_query_plan(self, working_keyspace=None, query=None):
            return list(child_plan)

        def distance(self, host):
            return HostDistance.REMOTE

        def populate(self, cluster, hosts):
            log.append(('populate', list(hosts)))

        def on_up(self, host):
            log.append(('on_up', host))

        def on_down(self, host):
            log.append(('on_down', host))
    pol = vc.obj(HostFilterPolicy, _child_policy=Child(), _predicate=_M(lambda h: h not in rejected, 'predicate'), _hosts_lock=LockModel('l'))
    plan = plan_list(vc.call(P + 'HostFilterPolicy.make_query_plan', pol))
    vc.check('plan/child-plan-minus-rejected-hosts-in-order', plan == [h for h in child_plan if h not in rejected])
    vc.check('distance/rejected-ignored-others-as-the-child', all(vc.call(P + 'HostFilterPolicy.distance', pol, h) ==
                                                                  (HostDistance.IGNORED if h in rejected else HostDistance.REMOTE) for h in U))
    vc.call(P + 'HostFilterPolicy.populate', pol, None, U)
    vc.call(P + 'HostFilterPolicy.on_up', pol, U[0])
    vc.call(P + 'HostFilterPolicy.on_down', pol, U[1])
    vc.check('events/forwarded-unchanged', log == [('populate', U), ('on_up', U[0]), ('on_down', U[1])])


@harness('C21', 'DefaultLoadBalancingPolicy', functions=[P + 'DefaultLoadBalancingPolicy.make_query_plan'], native='contracts.native.c21:replay')
def default_policy(vc):
    """ensures the plan is the child plan, except that a targeted host that is up comes first and is not repeated; no child host lost"""
    from cassandra.policies import DefaultLoadBalancingPolicy
    U = universe()[:3]
    child_plan = subset(vc, U, 'child_plan')
    target = vc.choice('target', ['none', 'up-host', 'down-host', 'unknown-address'])
    t = U[1]
    t.is_up = target != 'down-host'

    class Child(object):
        def make_query_plan(self, keyspace=None, query=None):
            return list(child_plan)

    class Meta(object):
        def get_host(self, addr):
            return t if addr == t.address else None

    class Q(object):
        keyspace = None
        target_host = None if target == 'none' else (t.address if target != 'unknown-address' else '9.9.9.9')
    pol = vc.obj(DefaultLoadBalancingPolicy, _child_policy=Child(), _cluster_metadata=Meta())
    plan = plan_list(vc.call(P + 'DefaultLoadBalancingPolicy.make_query_plan', pol, 'ks', Q()))
    if target == 'up-host':
        vc.check('target/first-then-the-child-plan-without-it', plan == [t] + [h for h in child_plan if h is not t])
    else:
        vc.check('no-target/child-plan-unchanged', plan == child_plan)
    vc.check('plan/no-duplicates', len(plan) == len(set(plan)))
