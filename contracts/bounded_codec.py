"""Bounded stand-ins and conformance probes for the codec properties (C01/C02): the same contracts evaluated natively on
the real functions over enumerated / randomised domains.  BOUNDED - never counted as proved."""
import decimal
import random
import struct
from spec import cser


def _rng(seed):
    return random.Random(seed * 7919 + 17)


def out_of_range_vints(tier, seed):
    """Clause 'out-of-range values raise' for vint-encoded durations: every nanosecond value outside int64 must raise."""
    from cassandra import marshal, cqltypes, util
    rng = _rng(seed)
    vals = []
    for k in (63, 64, 65, 70, 100, 127, 128):
        for d in (-2, -1, 0, 1, 2):
            vals += [(1 << k) + d, -(1 << k) + d - (1 if k == 63 else 0)]
    vals += [rng.randrange(1 << 63, 1 << 90) * rng.choice((1, -1)) - 1 for _ in range(200 if tier == 'quick' else 5000)]
    vals = [v for v in vals if not (-(1 << 63) <= v < (1 << 63))]
    bad = []
    for v in vals:
        for f, arg in ((marshal.vints_pack, [0, 0, v]), (marshal.vints_pack, [v]),
                       (lambda d: cqltypes.DurationType.serialize(d, 4), util.Duration(0, 0, v))):
            try:
                out = f(arg)
                bad.append({'value': v, 'returned_hex': out.hex(), 'expected': 'an exception (value does not fit Cassandra\'s 64-bit vint)'})
                break
            except Exception:
                pass
    return {'name': 'out_of_range_vints', 'evaluations': 3 * len(vals), 'distinct_nontrivial': len(set(vals)),
            'rule': 'nanosecond values outside [-2^63, 2^63): boundaries 2^k +- 2 for k in {63..128} plus random 64..90-bit magnitudes; distinct = distinct values',
            'samples': [str(v) for v in vals[:3]], 'violations': bad[:3], 'bound': 'enumerated boundaries + %d random values' % len(vals)}


def decimal_exact(tier, seed):
    """DecimalType.serialize(d) == int32(scale) ++ BigInteger(unscaled).toByteArray() and round trip."""
    from cassandra import cqltypes
    rng = _rng(seed)
    n = 600 if tier == 'quick' else 20000
    vals = [decimal.Decimal(s) for s in ('0', '-0', '1', '-1', '1.28', '-1.28', '-128', '127', '128', '-129', '1e10', '1e-10', '-32768e-3',
                                         '0.000', '123456789012345678901234567890.123456789')]
    for _ in range(n):
        digits = rng.randrange(0, 10 ** rng.randrange(1, 40))
        exp = rng.randrange(-40, 40)
        vals.append(decimal.Decimal((rng.randrange(2), tuple(int(c) for c in str(digits)), exp)))
    for k in range(1, 20):
        for s in (1, -1):
            for d in (-1, 0, 1):
                vals.append(decimal.Decimal(s * (1 << (8 * k - 1)) + d).scaleb(-rng.randrange(0, 5)))
    bad = []
    seen = set()
    for d in vals:
        sign, digits, exponent = d.as_tuple()
        unscaled = int(''.join(map(str, digits))) * (-1 if sign else 1)
        exp = cser.be_signed(-exponent, 4) + cser.biginteger_bytes(unscaled)
        b = cqltypes.DecimalType.serialize(d, 4)
        back = cqltypes.DecimalType.deserialize(b, 4)
        seen.add(str(d))
        if b != exp or back != d or back.as_tuple().exponent != exponent and unscaled != 0:
            bad.append({'value': str(d), 'got_hex': b.hex(), 'cassandra_hex': exp.hex(), 'decoded': str(back)})
    return {'name': 'decimal_exact', 'evaluations': len(vals), 'distinct_nontrivial': len(seen),
            'rule': 'decimals with up to 40 digits and exponents in [-40, 40), plus unscaled values at +-2^(8k-1)+-1; distinct = distinct decimal strings',
            'samples': [str(v) for v in vals[14:17]], 'violations': bad[:3], 'bound': '%d values' % len(vals)}


def struct_probe(tier, seed):
    """Conformance probe of E-STRUCT / E-HEX: the real struct / int(hex) agree with the spec encodings used by the proofs."""
    from cassandra import marshal
    rng = _rng(seed)
    bad = []
    n = 0
    packers = [(marshal.int8_pack, marshal.int8_unpack, 1, True), (marshal.int16_pack, marshal.int16_unpack, 2, True),
               (marshal.int32_pack, marshal.int32_unpack, 4, True), (marshal.int64_pack, marshal.int64_unpack, 8, True),
               (marshal.uint16_pack, marshal.uint16_unpack, 2, False), (marshal.uint32_pack, marshal.uint32_unpack, 4, False),
               (marshal.uint64_pack, marshal.uint64_unpack, 8, False), (marshal.uint8_pack, marshal.uint8_unpack, 1, False)]
    for pk, un, w, signed in packers:
        lo, hi = (-(1 << (8 * w - 1)), (1 << (8 * w - 1)) - 1) if signed else (0, (1 << (8 * w)) - 1)
        vals = [lo, lo + 1, -1, 0, 1, hi - 1, hi] + [rng.randrange(lo, hi + 1) for _ in range(100)]
        for v in vals:
            if not lo <= v <= hi:
                continue
            n += 1
            exp = cser.be_signed(v, w) if signed else cser.be_unsigned(v, w)
            if pk(v) != exp or un(exp) != v:
                bad.append({'struct_width': w, 'value': v})
        for v in (lo - 1, hi + 1):
            n += 1
            try:
                pk(v)
                bad.append({'struct_width': w, 'value': v, 'expected': 'struct.error'})
            except struct.error:
                pass
    for _ in range(200):
        term = bytes(rng.randrange(256) for _ in range(rng.randrange(1, 20)))
        n += 1
        if int(''.join('%02x' % i for i in term), 16) != int.from_bytes(term, 'big'):
            bad.append({'hex_probe': term.hex()})
    return {'name': 'struct_probe', 'evaluations': n, 'distinct_nontrivial': n,
            'rule': 'E-STRUCT/E-HEX probe: boundaries and 100 random values per struct format, out-of-range must raise; 200 random byte strings for int(hex)',
            'samples': ['int32_pack(-1) == ffffffff'], 'violations': bad[:3], 'bound': '%d probes' % n}


def timestamp_roundtrip(tier, seed):
    """timestamp (DateType): millisecond-precision instants of years 1..9999 survive deserialize(serialize(.)) exactly."""
    import datetime
    from cassandra import cqltypes, marshal
    rng = _rng(seed)
    epoch = datetime.datetime(1970, 1, 1)
    lo = int((datetime.datetime(1, 1, 1) - epoch).total_seconds()) * 1000
    hi = int((datetime.datetime(9999, 12, 31, 23, 59, 59) - epoch).total_seconds()) * 1000 + 999
    n = 3000 if tier == 'quick' else 200000
    vals = [lo, lo + 1, -1, 0, 1, 999, 1000, 1001, hi - 1, hi, 1500000000123, 253402300799999, -62135596800000]
    vals += [rng.randrange(lo, hi + 1) for _ in range(n)]
    bad = []
    for ms in vals:
        dt = cqltypes.DateType.deserialize(marshal.int64_pack(ms), 4)
        exp = epoch + datetime.timedelta(milliseconds=ms)
        back = marshal.int64_unpack(cqltypes.DateType.serialize(exp, 4))
        if dt != exp or back != ms:
            bad.append({'milliseconds': ms, 'decoded': str(dt), 'expected': str(exp), 'reencoded_ms': back})
    return {'name': 'timestamp_roundtrip', 'evaluations': len(vals), 'distinct_nontrivial': len(set(vals)),
            'rule': 'millisecond timestamps uniformly over years 1..9999 plus boundaries; distinct = distinct values',
            'samples': vals[10:13], 'violations': bad[:3], 'bound': '%d instants' % len(vals)}


def timestamp_encode_exact(tier, seed):
    """timestamp (DateType.serialize) of a datetime with MICROSECOND precision: the encoded value is the instant's whole milliseconds (sub-millisecond digits
    dropped toward zero), never the next millisecond - for naive and aware datetimes over years 1..9999 (the float sum used to round .xxx999 up far from 1970)."""
    import datetime
    from cassandra import cqltypes, marshal
    rng = _rng(seed)
    epoch = datetime.datetime(1970, 1, 1)
    lo, hi = -62135596800 * 10 ** 6 + 2 * 86400 * 10 ** 6, 253402300799 * 10 ** 6 - 2 * 86400 * 10 ** 6
    n = 4000 if tier == 'quick' else 200000
    vals = [rng.randrange(lo, hi) for _ in range(n)]
    vals += [v - v % 1000 + 999 for v in vals[:n // 2]] + [0, 999, -1, -999, -1000, -1001, 130389858555570999]
    tz = datetime.timezone(datetime.timedelta(hours=-4, minutes=-30))
    bad = []
    for us in vals:
        dt = epoch + datetime.timedelta(microseconds=us)
        want = us // 1000 if us >= 0 else -(-us // 1000)
        for v in (dt, dt.replace(tzinfo=datetime.timezone.utc).astimezone(tz)):
            got = marshal.int64_unpack(cqltypes.DateType.serialize(v, 4))
            if got != want:
                bad.append({'datetime': str(v), 'encoded_ms': got, 'expected_ms': want})
    return {'name': 'timestamp_encode_exact', 'evaluations': 2 * len(vals), 'distinct_nontrivial': len(set(vals)),
            'rule': 'DateType.serialize(datetime) == whole milliseconds of the instant, microsecond-precision datetimes uniformly over years 1..9999, half of them ending in 999 microseconds, naive and aware',
            'samples': vals[:3], 'violations': bad[:3], 'bound': '%d instants x 2 zone forms' % len(vals)}


def inet_roundtrip(tier, seed):
    from cassandra import cqltypes
    import ipaddress
    rng = _rng(seed)
    vals = ['0.0.0.0', '255.255.255.255', '127.0.0.1', '::', '::1', 'ffff:ffff:ffff:ffff:ffff:ffff:ffff:ffff', '2001:db8::1']
    for _ in range(300 if tier == 'quick' else 20000):
        vals.append(str(ipaddress.IPv4Address(rng.randrange(1 << 32))))
        vals.append(str(ipaddress.IPv6Address(rng.randrange(1 << 128))))
    bad = []
    for a in vals:
        b = cqltypes.InetAddressType.serialize(a, 4)
        back = cqltypes.InetAddressType.deserialize(b, 4)
        if ipaddress.ip_address(back) != ipaddress.ip_address(a) or b != ipaddress.ip_address(a).packed:
            bad.append({'address': a, 'bytes': b.hex(), 'decoded': back})
    return {'name': 'inet_roundtrip', 'evaluations': len(vals), 'distinct_nontrivial': len(set(vals)),
            'rule': 'random IPv4/IPv6 addresses + boundaries; compared as addresses (text form is normalised)', 'samples': vals[:3],
            'violations': bad[:3], 'bound': '%d addresses' % len(vals)}


def nested_end_to_end(tier, seed):
    """Real nested types (lookup_casstype) over generated values, all protocol versions: deserialize(serialize(v)) == norm(v)."""
    import datetime, decimal, uuid
    from cassandra import cqltypes, util
    rng = _rng(seed)
    scal = {
        'Int32Type': lambda: rng.randrange(-2 ** 31, 2 ** 31), 'LongType': lambda: rng.randrange(-2 ** 63, 2 ** 63),
        'UTF8Type': lambda: ''.join(rng.choice(['a', 'é', '\U0001F600', '', 'z\x00']) for _ in range(rng.randrange(0, 4))),
        'IntegerType': lambda: rng.randrange(-2 ** 70, 2 ** 70), 'BooleanType': lambda: rng.random() < 0.5,
        'BytesType': lambda: bytes(rng.randrange(256) for _ in range(rng.randrange(0, 5))),
        'UUIDType': lambda: uuid.UUID(int=rng.randrange(1 << 128)), 'DoubleType': lambda: rng.uniform(-1e9, 1e9),
        'ShortType': lambda: rng.randrange(-2 ** 15, 2 ** 15), 'SimpleDateType': lambda: util.Date(rng.randrange(-2 ** 31, 2 ** 31)),
        'TimeType': lambda: util.Time(rng.randrange(0, 86400 * 10 ** 9)),
        'DurationType': lambda: util.Duration(rng.randrange(-2 ** 31, 2 ** 31), rng.randrange(-2 ** 31, 2 ** 31), rng.randrange(-2 ** 63, 2 ** 63)),
        'DecimalType': lambda: decimal.Decimal(rng.randrange(-10 ** 20, 10 ** 20)).scaleb(rng.randrange(-10, 10)),
    }
    P = 'org.apache.cassandra.db.marshal.'

    def gen_type(depth):
        if depth == 0 or rng.random() < 0.3:
            n = rng.choice(sorted(scal))
            return P + n, scal[n], (lambda v: v)
        kind = rng.choice(['list', 'set', 'map', 'tuple'])
        if kind == 'list':
            tn, g, nm = gen_type(depth - 1)
            return P + 'ListType(%s)' % tn, (lambda: [g() for _ in range(rng.randrange(0, 3))]), (lambda v: [nm(x) for x in v])
        if kind == 'set':
            n = rng.choice(['Int32Type', 'UTF8Type', 'LongType'])
            g = scal[n]
            return P + 'SetType(%s)' % (P + n), (lambda: set(g() for _ in range(rng.randrange(0, 3)))), (lambda v: sorted(v))
        if kind == 'map':
            n = rng.choice(['Int32Type', 'UTF8Type'])
            gk = scal[n]
            tn, gv, nm = gen_type(depth - 1)
            return P + 'MapType(%s,%s)' % (P + n, tn), (lambda: dict((gk(), gv()) for _ in range(rng.randrange(0, 3)))), \
                (lambda v: [(k, nm(x)) for k, x in v.items()])
        parts = [gen_type(depth - 1) for _ in range(rng.randrange(1, 4))]
        return P + 'TupleType(%s)' % ','.join(p[0] for p in parts), \
            (lambda: tuple(None if rng.random() < 0.2 else p[1]() for p in parts)), \
            (lambda v: tuple(None if x is None else p[2](x) for p, x in zip(parts, v)))

    def canon(x):
        if isinstance(x, util.OrderedMap):
            return [(canon(k), canon(v)) for k, v in x.items()]
        if isinstance(x, util.SortedSet):
            return [canon(e) for e in x]
        if isinstance(x, (list, tuple)):
            return type(x)(canon(e) for e in x) if not hasattr(x, '_fields') else tuple(canon(e) for e in x)
        if isinstance(x, dict):
            return [(canon(k), canon(v)) for k, v in x.items()]
        return x
    n = 400 if tier == 'quick' else 20000
    bad = []
    seen = set()
    for i in range(n):
        tn, g, nm = gen_type(rng.randrange(0, 4))
        t = cqltypes.lookup_casstype(tn)
        v = g()
        for pv in (rng.choice((1, 2)), rng.choice((3, 4, 5, 6, 65, 66))):
            try:
                back = t.deserialize(t.serialize(v, pv), pv)
            except Exception as e:
                bad.append({'type': tn, 'value': repr(v)[:200], 'pv': pv, 'error': repr(e)})
                continue
            seen.add((tn, repr(v)[:80]))
            if canon(back) != canon(nm(v)):
                bad.append({'type': tn, 'value': repr(v)[:200], 'pv': pv, 'decoded': repr(back)[:200]})
    return {'name': 'nested_end_to_end', 'evaluations': 2 * n, 'distinct_nontrivial': len(seen),
            'rule': 'random type trees (depth <= 3) over 13 scalar types x list/set/map/tuple, random values incl. None tuple fields, one v1/v2 and one v3+ version each; distinct = distinct (type, value) pairs',
            'samples': [tn], 'violations': bad[:3], 'bound': '%d (type, value) cases' % n}
