"""Bounded stand-ins and conformance probes for the codec properties (C01/C02): the same contracts evaluated natively on
the real functions over enumerated / randomised domains.  BOUNDED - never counted as proved."""
import decimal
import random
import struct
from spec import cser


def _rng(seed):
    return random.Random(seed * 7919 + 17)


def out_of_range_vints(tier, seed):
    """Clause 'out-of-range values raise' for vint-encoded durations: every nanosecond value outside int64 must raise."""
    from cassandra import marshal, cqltypes, util
    rng = _rng(seed)
    vals = []
    for k in (63, 64, 65, 70, 100, 127, 128):
        for d in (-2, -1, 0, 1, 2):
            vals += [(1 << k) + d, -(1 << k) + d - (1 if k == 63 else 0)]
    vals += [rng.randrange(1 << 63, 1 << 90) * rng.choice((1, -1)) - 1 for _ in range(200 if tier == 'quick' else 5000)]
    vals = [v for v in vals if not (-(1 << 63) <= v < (1 << 63))]
    bad = []
    for v in vals:
        for f, arg in ((marshal.vints_pack, [0, 0, v]), (marshal.vints_pack, [v]),
                       (lambda d: cqltypes.DurationType.serialize(d, 4), util.Duration(0, 0, v))):
            try:
                out = f(arg)
                bad.append({'value': v, 'returned_hex': out.hex(), 'expected': 'an exception (value does not fit Cassandra\'s 64-bit vint)'})
                break
            except Exception:
                pass
    return {'name': 'out_of_range_vints', 'evaluations': 3 * len(vals), 'distinct_nontrivial': len(set(vals)),
            'rule': 'nanosecond values outside [-2^63, 2^63): boundaries 2^k +- 2 for k in {63..128} plus random 64..90-bit magnitudes; distinct = distinct values',
            'samples': [str(v) for v in vals[:3]], 'violations': bad[:3], 'bound': 'enumerated boundaries + %d random values' % len(vals)}


def decimal_exact(tier, seed):
    """DecimalType.serialize(d) == int32(scale) ++ BigInteger(unscaled).toByteArray() and round trip."""
    from cassandra import cqltypes
    rng = _rng(seed)
    n = 600 if tier == 'quick' else 20000
    vals = [decimal.Decimal(s) for s in ('0', '-0', '1', '-1', '1.28', '-1.28', '-128', '127', '128', '-129', '1e10', '1e-10', '-32768e-3',
                                         '0.000', '123456789012345678901234567890.123456789')]
    for _ in range(n):
        digits = rng.randrange(0, 10 ** rng.randrange(1, 40))
        exp = rng.randrange(-40, 40)
        vals.append(decimal.Decimal((rng.randrange(2), tuple(int(c) for c in str(digits)), exp)))
    for k in range(1, 20):
        for s in (1, -1):
            for d in (-1, 0, 1):
                vals.append(decimal.Decimal(s * (1 << (8 * k - 1)) + d).scaleb(-rng.randrange(0, 5)))
    bad = []
    seen = set()
    for d in vals:
        sign, digits, exponent = d.as_tuple()
        unscaled = int(''.join(map(str, digits))) * (-1 if sign else 1)
        exp = cser.be_signed(-exponent, 4) + cser.biginteger_bytes(unscaled)
        b = cqltypes.DecimalType.serialize(d, 4)
        back = cqltypes.DecimalType.deserialize(b, 4)
        seen.add(str(d))
        if b != exp or back != d or back.as_tuple().exponent != exponent and unscaled != 0:
            bad.append({'value': str(d), 'got_hex': b.hex(), 'cassandra_hex': exp.hex(), 'decoded': str(back)})
    return {'name': 'decimal_exact', 'evaluations': len(vals), 'distinct_nontrivial': len(seen),
            'rule': 'decimals with up to 40 digits and exponents in [-40, 40), plus unscaled values at +-2^(8k-1)+-1; distinct = distinct decimal strings',
            'samples': [str(v) for v in vals[14:17]], 'violations': bad[:3], 'bound': '%d values' % len(vals)}


def struct_probe(tier, seed):
    """Conformance probe of E-STRUCT / E-HEX: the real struct / int(hex) agree with the spec encodings used by the proofs."""
    from cassandra import marshal
    rng = _rng(seed)
    bad = []
    n = 0
    packers = [(marshal.int8_pack, marshal.int8_unpack, 1, True), (marshal.int16_pack, marshal.int16_unpack, 2, True),
               (marshal.int32_pack, marshal.int32_unpack, 4, True), (marshal.int64_pack, marshal.int64_unpack, 8, True),
               (marshal.uint16_pack, marshal.uint16_unpack, 2, False), (marshal.uint32_pack, marshal.uint32_unpack, 4, False),
               (marshal.uint64_pack, marshal.uint64_unpack, 8, False), (marshal.uint8_pack, marshal.uint8_unpack, 1, False)]
    for pk, un, w, signed in packers:
        lo, hi = (-(1 << (8 * w - 1)), (1 << (8 * w - 1)) - 1) if signed else (0, (1 << (8 * w)) - 1)
        vals = [lo, lo + 1, -1, 0, 1, hi - 1, hi] + [rng.randrange(lo, hi + 1) for _ in range(100)]
        for v in vals:
            if not lo <= v <= hi:
                continue
            n += 1
            exp = cser.be_signed(v, w) if signed else cser.be_unsigned(v, w)
            if pk(v) != exp or un(exp) != v:
                bad.append({'struct_width': w, 'value': v})
        for v in (lo - 1, hi + 1):
            n += 1
            try:
                pk(v)
                bad.append({'struct_width': w, 'value': v, 'expected': 'struct.error'})
            except struct.error:
                pass
    for _ in range(200):
        term = bytes(rng.randrange(256) for _ in range(rng.randrange(1, 20)))
        n += 1
        if int(''.join('%02x' % i for i in term), 16) != int.from_bytes(term, 'big'):
            bad.append({'hex_probe': term.hex()})
    return {'name': 'struct_probe', 'evaluations': n, 'distinct_nontrivial': n,
            'rule': 'E-STRUCT/E-HEX probe: boundaries and 100 random values per struct format, out-of-range must raise; 200 random byte strings for int(hex)',
            'samples': ['int32_pack(-1) == ffffffff'], 'violations': bad[:3], 'bound': '%d probes' % n}
