"""C01 - every CQL value survives an encode/decode round trip.

Scalars: deserialize(serialize(v)) == norm(v) for all values.  Type constructors (list, set, map, tuple, UDT, vector):
proved parametrically in the element codec - for ANY element codec satisfying dec(enc(v)) == norm(v) (and non-empty
encodings for types without empty_binary_ok) the constructed codec satisfies the same contract, for every protocol
version; arbitrary nesting follows by structural induction on the type tree (each induction step is one of these
obligations, the base cases are the scalar obligations).  Collection sizes are unrolled (bounded) - see evidence.
"""
from contracts import codec_common as K
from contracts import varint_common as V

LEVEL = 'proof'
TRUSTED = ['E-DATETIME: a datetime is an integer count of microseconds since 1970-01-01 UTC within years 1..9999; calendar.timegm(dt.utctimetuple()) is its floor seconds, dt.microsecond the remainder; timedelta(milliseconds=k) is exactly 1000k microseconds and datetime + timedelta adds or raises OverflowError (contracts/codec_common.py _stub_datetime; probed by the bounded timestamp stand-ins on the real library); date * 1e3 is real arithmetic (A-REAL)',
           'E-STRUCT', 'E-FLOAT', 'E-CODEC: str.encode/bytes.decode are inverse on encodable text', 'E-UUID', 'A-TYPES',
           'bounded dimension: collection sizes <= 3, tuple/UDT arity <= 3, vector dimension <= 3 are unrolled, not proved by induction on the size',
           'SetType: decoded through the list adapter here; sorting/deduplication of sortedset is C33',
           'structural induction over the type tree is a meta-argument over the discharged constructor obligations'] + V.LEMMAS
LEAN_LEMMAS = V.LEAN_LEMMAS
EXPLANATION = 'symbolic execution of the real serialize/deserialize pairs; constructors parametric in an uninterpreted element codec'

for _c, _w, _s in K.FIXED_INTS:
    K.mk_fixed_int('C01', _c, _w, _s)
K.mk_boolean('C01')
K.mk_simpledate('C01')
K.mk_time('C01')
K.mk_timestamp('C01')
K.mk_float('C01', 'FloatType', 'f')
K.mk_float('C01', 'DoubleType', 'd')
K.mk_text('C01', 'UTF8Type', 'utf-8')
K.mk_text('C01', 'AsciiType', 'ascii')
K.mk_blob('C01')
K.mk_null('C01')
K.mk_uuid('C01', 'UUIDType')
K.mk_uuid('C01', 'TimeUUIDType')
K.mk_zigzag('C01')
K.mk_vints_pack('C01', 1)
K.mk_vints_pack('C01', 2)
K.mk_uvint('C01')
V.mk_varint_pack('C01')
V.mk_varint_unpack('C01')
for _which in ('ListType', 'SetType'):
    for _e in (False, True):
        K.mk_listlike('C01', _which, _e)
K.mk_map('C01', False)
K.mk_map('C01', True)
K.mk_tuple('C01', False)
K.mk_tuple('C01', True)
K.mk_tuple('C01', False, empty_ok=True)
K.mk_tuple('C01', True, empty_ok=True)
K.mk_vector('C01', True)
K.mk_vector('C01', False)

from contracts import bounded_codec as B
BOUNDED = [B.timestamp_roundtrip, B.decimal_exact, B.inet_roundtrip, B.nested_end_to_end, B.struct_probe]
EXPLANATION += '; bounded stand-ins (labelled, not proof): timestamp/decimal/inet through the real library calls, nested real types end to end'
