"""Harness generators shared by C01 (round trip) and C02 (byte-exact / out-of-range raises)."""
import struct
import z3
from pyvc.engine import harness
from pyvc import sym
from pyvc.sym import SBytes, SInt, SU
from pyvc.interp import SObj, PyExc
from spec import cser

CT = 'cassandra.cqltypes.'

# (class name, width, signed)
FIXED_INTS = [('ByteType', 1, True), ('ShortType', 2, True), ('Int32Type', 4, True), ('LongType', 8, True),
              ('CounterColumnType', 8, True)]
PVS = (1, 2, 3, 4, 5, 6, 0x41, 0x42)


def pv_any(vc):
    pv = vc.int('protocol_version')
    vc.assume(sym.or_(*[pv == p for p in PVS]))
    return pv


def mk_fixed_int(prop, cname, width, signed):
    @harness(prop, cname, functions=[CT + cname + '.serialize', CT + cname + '.deserialize'],
             native='contracts.native.codec:replay')
    def h(vc):
        v = vc.int('value')
        pv = pv_any(vc)
        inr = cser.in_signed_range(v, width)
        kind, b = vc.call_catch(CT + cname + '.serialize', v, pv)
        if kind == 'exc':
            vc.check('raises/struct.error-only-out-of-range', sym.and_(vc.exc_is(b, struct.error), sym.not_(inr)))
            return
        vc.check('post/in-range-only', inr)
        if prop == 'C02':
            vc.check('post/byte-exact', b == cser.be_signed(v, width))
            vc.check('post/length', b.length() == width)
        else:
            back = vc.call(CT + cname + '.deserialize', b, pv)
            vc.check('post/roundtrip', back == v)
            fb = vc.call(CT + cname + '.from_binary', vc.call(CT + cname + '.to_binary', v, pv), pv)
            vc.check('post/roundtrip-through-to_binary', fb == v)
        if cname == 'Int32Type':
            vc.must_fail('selfcheck/wrong-width', b.length() == 8)
    h.__doc__ = 'ensures %s.serialize(v) == big-endian two\'s complement of width %d for v in range, raises struct.error otherwise; deserialize inverse' % (cname, width)
    return h


def mk_decode_any(prop, cname, width, signed):
    @harness(prop, cname + '.decode', functions=[CT + cname + '.deserialize'], native='contracts.native.codec:replay')
    def h(vc):
        b = vc.bytes('bytes')
        vc.assume(b.length() == width)
        pv = pv_any(vc)
        v = vc.call(CT + cname + '.deserialize', b, pv)
        # decoding any well-sized buffer and re-encoding gives the buffer back (decoder is the inverse of the spec encoder)
        vc.check('post/decode-then-spec-encode', cser.be_signed(v, width) == b)
    h.__doc__ = 'ensures spec_encode(%s.deserialize(b)) == b for every %d-byte buffer' % (cname, width)
    return h


def mk_boolean(prop):
    @harness(prop, 'BooleanType', functions=[CT + 'BooleanType.serialize', CT + 'BooleanType.deserialize'], native='contracts.native.codec:replay')
    def h(vc):
        """ensures serialize(True) == 01, serialize(False) == 00 (BooleanSerializer), deserialize inverse"""
        t = vc.bool('value')
        pv = pv_any(vc)
        b = vc.call(CT + 'BooleanType.serialize', t, pv)
        if prop == 'C02':
            vc.check('post/byte-exact', b == sym.ite(t, b'\x01', b'\x00'))
        else:
            back = vc.call(CT + 'BooleanType.deserialize', b, pv)
            vc.check('post/roundtrip', back == t)
    return h


def _date_obj(vc, days):
    from cassandra import util
    return vc.obj(util.Date, days_from_epoch=days)


def mk_simpledate(prop):
    @harness(prop, 'SimpleDateType', functions=[CT + 'SimpleDateType.serialize', CT + 'SimpleDateType.deserialize',
                                               'cassandra.util.Date.__init__'], native='contracts.native.codec:replay')
    def h(vc):
        """ensures serialize(Date(d)) == uint32(d + 2^31) (SimpleDateSerializer) for -2^31 <= d < 2^31, raises otherwise; deserialize gives Date(d)"""
        d = vc.int('days')
        pv = pv_any(vc)
        inr = sym.and_(d >= -cser.DATE_OFFSET, d < cser.DATE_OFFSET)
        kind, b = vc.call_catch(CT + 'SimpleDateType.serialize', _date_obj(vc, d), pv)
        if kind == 'exc':
            vc.check('raises/only-out-of-range', sym.and_(vc.exc_is(b, struct.error), sym.not_(inr)))
            return
        vc.check('post/in-range-only', inr)
        if prop == 'C02':
            vc.check('post/byte-exact', b == cser.be_unsigned(d + cser.DATE_OFFSET, 4))
        else:
            back = vc.call(CT + 'SimpleDateType.deserialize', b, pv)
            vc.check('post/roundtrip', isinstance(back, SObj) and back.cls.__name__ == 'Date' and back.attrs['days_from_epoch'] == d)
    return h


# E-DATETIME (assumed library contract, probed by bounded_codec.timestamp_*): a datetime is an instant, an integer number of microseconds since
# 1970-01-01T00:00 UTC, between year 1 and year 9999; calendar.timegm(dt.utctimetuple()) is floor(us / 10^6), dt.microsecond is us mod 10^6;
# timedelta(milliseconds=k) is exactly 1000*k microseconds for an integer k and datetime + timedelta adds them or raises OverflowError out of range.
DT_MIN_US = -62135596800 * 10 ** 6
DT_MAX_US = 253402300799 * 10 ** 6 + 999999


class _Instant(object):
    """ghost datetime: `us` microseconds since the epoch (symbolic)"""

    def __init__(self, vc, us, aware):
        self._vc, self.us = vc, us
        secs, micro = vc.ctx.fresh_int('whole_seconds'), vc.ctx.fresh_int('microsecond')
        vc.ctx.assume(sym.and_(micro >= 0, micro < 10 ** 6, secs * 10 ** 6 + micro == us).t, silent=True)
        self._secs, self.microsecond = secs, micro

    def utctimetuple(self):
        return ('UTC-TIMETUPLE', self)


def _stub_datetime(vc):
    import calendar
    import datetime
    from cassandra import util

    def timegm(tt):
        if isinstance(tt, tuple) and tt and tt[0] == 'UTC-TIMETUPLE':
            return tt[1]._secs
        if isinstance(tt, tuple) and tt and tt[0] == 'DATE-TIMETUPLE':
            return tt[1] * 86400
        raise AssertionError('calendar.timegm on %r' % (tt,))
    vc.stub(calendar.timegm, timegm)

    class _Delta(object):
        def __init__(self, us):
            self.us = us

        def __radd__(self, other):
            if other is not util.UTC_DATETIME_EPOC:
                raise AssertionError('timedelta added to %r' % (other,))
            if vc.ctx.branch(sym.and_(self.us >= DT_MIN_US, self.us <= DT_MAX_US).t):
                return _Instant(vc, self.us, False)
            raise PyExc(SObj(OverflowError, {'args': ('date value out of range',)}))

    def timedelta(*a, **kw):
        if a or set(kw) - {'milliseconds', 'microseconds', 'seconds', 'days'}:
            raise AssertionError('timedelta(%r, %r)' % (a, kw))
        return _Delta(kw.get('days', 0) * 86400 * 10 ** 6 + kw.get('seconds', 0) * 10 ** 6 + kw.get('milliseconds', 0) * 1000 + kw.get('microseconds', 0))
    vc.stub(datetime.timedelta, timedelta)


def mk_timestamp(prop):
    @harness(prop, 'DateType', functions=[CT + 'DateType.serialize', CT + 'DateType.deserialize', 'cassandra.util.utc_datetime_from_ms_timestamp'],
             native='contracts.native.codec:replay')
    def h(vc):
        """requires E-DATETIME (a datetime is an integer count of microseconds since the epoch within years 1..9999; a date a day count; timegm / timedelta are
        exact); ensures serialize(datetime) == int64(whole milliseconds of the instant, sub-millisecond digits dropped toward zero - never the next millisecond),
        serialize(date) == int64(days * 86400000), serialize(int) == int64(v) and raises out of the int64 range; deserialize(int64 ms) is the instant
        ms * 1000 microseconds (OverflowError outside datetime's range) and serialize(deserialize(b)) == b"""
        from pyvc.interp import PyExc as _PyExc
        _stub_datetime(vc)
        pv = pv_any(vc)
        form = vc.choice('value_is', ['datetime', 'date', 'integer', 'encoded'])
        if form == 'datetime':
            us = vc.int('microseconds_since_epoch')
            vc.assume(sym.and_(us >= DT_MIN_US, us <= DT_MAX_US))
            kind, b = vc.call_catch(CT + 'DateType.serialize', _Instant(vc, us, False), pv)
            vc.check('datetime/accepted', kind == 'ok')
            if kind != 'ok':
                return
            ms = vc.int('expected_milliseconds')
            # truncation toward zero, stated without division: 1000*ms is the multiple of 1000 nearest to us on the zero side
            vc.assume(sym.or_(sym.and_(us >= 0, ms * 1000 <= us, us < ms * 1000 + 1000), sym.and_(us < 0, ms * 1000 >= us, us > ms * 1000 - 1000)))
            vc.check('datetime/whole-milliseconds-of-the-instant', b == cser.be_signed(ms, 8))
        elif form == 'date':
            days = vc.int('days_since_epoch')
            vc.assume(sym.and_(days >= -719162, days <= 2932896))

            class _D(object):
                def timetuple(self):
                    return ('DATE-TIMETUPLE', days)
            kind, b = vc.call_catch(CT + 'DateType.serialize', _D(), pv)
            vc.check('date/accepted', kind == 'ok')
            if kind == 'ok':
                vc.check('date/midnight-utc-in-milliseconds', b == cser.be_signed(days * 86400000, 8))
        elif form == 'integer':
            v = vc.int('value')
            kind, b = vc.call_catch(CT + 'DateType.serialize', v, pv)
            inr = cser.in_signed_range(v, 8)
            if kind == 'exc':
                vc.check('integer/raises-only-out-of-range', sym.and_(vc.exc_is(b, struct.error), sym.not_(inr)))
            else:
                vc.check('integer/in-range-only', inr)
                vc.check('integer/byte-exact', b == cser.be_signed(v, 8))
        else:
            ms = vc.int('milliseconds')
            vc.assume(cser.in_signed_range(ms, 8))
            kind, dt = vc.call_catch(CT + 'DateType.deserialize', cser.be_signed(ms, 8), pv)
            inr = sym.and_(ms * 1000 >= DT_MIN_US, ms * 1000 <= DT_MAX_US)
            if kind == 'exc':
                vc.check('decode/raises-only-outside-datetime-range', sym.and_(vc.exc_is(dt, OverflowError), sym.not_(inr)))
                return
            vc.check('decode/is-the-instant', isinstance(dt, _Instant) and sym.and_(inr, dt.us == ms * 1000))
            if isinstance(dt, _Instant):
                kind, b = vc.call_catch(CT + 'DateType.serialize', dt, pv)
                vc.check('roundtrip/encodes-back-to-the-same-bytes', kind == 'ok' and b == cser.be_signed(ms, 8))
    return h


def _time_obj(vc, ns):
    from cassandra import util
    return vc.obj(util.Time, nanosecond_time=ns)


def mk_time(prop):
    @harness(prop, 'TimeType', functions=[CT + 'TimeType.serialize', CT + 'TimeType.deserialize', 'cassandra.util.Time.__init__',
                                         'cassandra.util.Time._from_timestamp'], native='contracts.native.codec:replay')
    def h(vc):
        """requires the value is built by util.Time(ns) (the public constructor); ensures ns outside [0, 86399999999999] is
        rejected (TimeSerializer's valid range) and otherwise serialize == int64(ns); deserialize gives Time(ns)"""
        from cassandra import util
        ns = vc.int('nanoseconds')
        pv = pv_any(vc)
        valid = sym.and_(ns >= 0, ns <= cser.TIME_MAX_NS)
        kind, t = vc.call_catch(util.Time, ns)
        if kind == 'exc':
            vc.check('raises/constructor-rejects-only-invalid', sym.and_(vc.exc_is(t, ValueError), sym.not_(valid)))
            return
        vc.check('post/constructor-accepts-only-valid', valid)
        kind, b = vc.call_catch(CT + 'TimeType.serialize', t, pv)
        vc.check('post/serialize-does-not-raise', kind == 'ok')
        if kind != 'ok':
            return
        if prop == 'C02':
            vc.check('post/byte-exact', b == cser.be_signed(ns, 8))
        else:
            back = vc.call(CT + 'TimeType.deserialize', b, pv)
            vc.check('post/roundtrip', isinstance(back, SObj) and back.attrs['nanosecond_time'] == ns)
    return h


def mk_float(prop, cname, code):
    @harness(prop, cname, functions=[CT + cname + '.serialize', CT + cname + '.deserialize'], native='contracts.native.codec:replay')
    def h(vc):
        x = vc.real('value')
        pv = pv_any(vc)
        b = vc.call(CT + cname + '.serialize', x, pv)
        back = vc.call(CT + cname + '.deserialize', b, pv)
        if code == 'd':
            vc.check('post/roundtrip', back == x)
        else:
            b2 = vc.call(CT + cname + '.serialize', back, pv)
            back2 = vc.call(CT + cname + '.deserialize', b2, pv)
            vc.check('post/roundtrip-after-binary32-rounding', back2 == back)
        vc.check('post/length', b.length() == (8 if code == 'd' else 4))
    h.__doc__ = 'ensures %s round trip (E-FLOAT: struct %s pack/unpack are IEEE inverse; binary32 rounds once)' % (cname, code)
    return h


def mk_text(prop, cname, enc):
    @harness(prop, cname, functions=[CT + cname + '.serialize', CT + cname + '.deserialize'], native='contracts.native.codec:replay')
    def h(vc):
        s = vc.str('value')
        pv = pv_any(vc)
        kind, b = vc.call_catch(CT + cname + '.serialize', s, pv)
        if kind == 'exc':
            vc.check('raises/only-unencodable-text', vc.exc_is(b, UnicodeEncodeError) and enc == 'ascii')
            return
        back = vc.call(CT + cname + '.from_binary', vc.call(CT + cname + '.to_binary', s, pv), pv)
        vc.check('post/roundtrip', back == s)
    h.__doc__ = 'ensures %s round trip incl. the empty string (E-CODEC: %s encode/decode are inverse on encodable text)' % (cname, enc)
    return h


def mk_blob(prop):
    @harness(prop, 'BytesType', functions=[CT + 'BytesType.serialize', CT + 'BytesType.deserialize'], native='contracts.native.codec:replay')
    def h(vc):
        """ensures blob round trip is the identity, incl. the empty blob"""
        b = vc.bytes('value')
        pv = pv_any(vc)
        out = vc.call(CT + 'BytesType.to_binary', b, pv)
        vc.check('post/identity-encoding', out == b)
        back = vc.call(CT + 'BytesType.from_binary', out, pv)
        vc.check('post/roundtrip', back == b)
    return h


def mk_null(prop):
    @harness(prop, 'null-and-empty', functions=[CT + '_CassandraType.to_binary', CT + '_CassandraType.from_binary'], native='contracts.native.codec:replay')
    def h(vc):
        """ensures to_binary(None) == b'' and from_binary(None) is None; from_binary(b'') is None for a type whose encodings are never empty"""
        pv = pv_any(vc)
        vc.check('post/None-encodes-empty', vc.call(CT + 'Int32Type.to_binary', None, pv) == b'')
        vc.check('post/None-decodes-None', vc.call(CT + 'Int32Type.from_binary', None, pv) is None)
        vc.check('post/empty-decodes-None', vc.call(CT + 'Int32Type.from_binary', b'', pv) is None)
        vc.check('post/text-empty-stays-empty', vc.call(CT + 'UTF8Type.from_binary', b'', pv) == '')
    return h


# ---------------------------------------------------------------------------
# zig-zag and vints (Duration)

M = 'cassandra.marshal.'
INT64_MIN, INT64_MAX = -(1 << 63), (1 << 63) - 1


def mk_zigzag(prop):
    @harness(prop, 'zigzag', functions=[M + 'encode_zig_zag', M + 'decode_zig_zag'], native='contracts.native.codec:replay')
    def h(vc):
        """ensures encode_zig_zag(n) == VIntCoding.encodeZigZag64(n) (2n / -2n-1) for every int64 n; decode is its inverse on [0, 2^64)"""
        n = vc.int('n')
        vc.assume(sym.and_(n >= INT64_MIN, n <= INT64_MAX))
        z = vc.call(M + 'encode_zig_zag', n)
        vc.check('post/spec', z == cser.zigzag64(n))
        vc.check('post/unsigned64', sym.and_(z >= 0, z < (1 << 64)))
        vc.check('post/decode-inverse', vc.call(M + 'decode_zig_zag', z) == n)
        vc.must_fail('selfcheck/identity', z == n)
    return h


def mk_vints_pack(prop, nvalues):
    @harness(prop, 'vints_pack[%d]' % nvalues, functions=[M + 'vints_pack', M + 'encode_zig_zag'],
             native='contracts.native.codec:replay')
    def h(vc):
        vals = [vc.int('v%d' % i) for i in range(nvalues)]
        for v in vals:
            vc.assume(sym.and_(v >= INT64_MIN, v <= INT64_MAX))
        kind, b = vc.call_catch(M + 'vints_pack', list(vals))
        vc.check('post/in-range-values-never-raise', kind == 'ok')
        if kind != 'ok':
            return
        expect = SBytes(z3.Empty(sym.ByteSeq))
        for v in vals:
            z = cser.zigzag64(v)
            e = sym.small_int_case(vc.ctx, cser.unsigned_vint_extra_bytes(z), 0, 8)
            expect = expect + cser.unsigned_vint(z, e)
        if prop == 'C02':
            vc.check('post/byte-exact-VIntCoding', b == expect)
        else:
            back = vc.call(M + 'vints_unpack', b)
            vc.check('post/roundtrip-count', len(back) == nvalues)
            for i, v in enumerate(vals):
                vc.check('post/roundtrip-value', back[i] == v)
    h.__doc__ = 'ensures vints_pack(values) == concat(VIntCoding.writeVInt(v)) for int64 values; vints_unpack inverse'
    return h


def mk_uvint(prop):
    @harness(prop, 'uvint', functions=[M + 'uvint_pack', M + 'uvint_unpack'], native='contracts.native.codec:replay')
    def h(vc):
        """ensures uvint_pack(v) == VIntCoding.writeUnsignedVInt(v) for 0 <= v < 2^63 (sizes are non-negative Java ints/longs);
        uvint_unpack(pack(v) ++ tail) == (v, len(pack(v)))"""
        v = vc.int('value')
        vc.assume(sym.and_(v >= 0, v <= INT64_MAX))
        b = vc.call(M + 'uvint_pack', v)
        e = sym.small_int_case(vc.ctx, cser.unsigned_vint_extra_bytes(v), 0, 8)
        vc.check('post/byte-exact-VIntCoding', b == cser.unsigned_vint(v, e))
        tail = vc.bytes('tail')
        r = vc.call(M + 'uvint_unpack', b + tail)
        vc.check('post/unpack-value', r[0] == v)
        vc.check('post/unpack-consumed', r[1] == e + 1)
    return h


# ---------------------------------------------------------------------------
# type constructors, parametric in the element codec

Val = z3.DeclareSort('Val')
# element codecs may depend on the protocol version they are called with (nested collections do)
ENC_PV = z3.Function('sub_enc', Val, z3.IntSort(), sym.ByteSeq)
DEC_PV = z3.Function('sub_dec', sym.ByteSeq, z3.IntSort(), Val)
NORM = z3.Function('sub_norm', Val, Val)
ENC2_PV = z3.Function('sub2_enc', Val, z3.IntSort(), sym.ByteSeq)
DEC2_PV = z3.Function('sub2_dec', sym.ByteSeq, z3.IntSort(), Val)


class _AnyPv(object):
    """enc(v) for 'the encoding at whatever version': used only for size assumptions quantified over the 8 versions."""

    def __init__(self, f):
        self.f = f

    def __call__(self, vt):
        return [self.f(vt, z3.IntVal(p)) for p in PVS]


ENC, DEC, ENC2, DEC2 = ENC_PV, DEC_PV, ENC2_PV, DEC2_PV
_sub_classes = {}


def abstract_subtype(name, enc, dec, empty_ok, fixed_size=None):
    """A _CassandraType subclass whose serialize/deserialize are an arbitrary codec satisfying the codec contract
    dec(enc(v)) == norm(v); non-empty_binary_ok types never produce an empty encoding."""
    key = (name, empty_ok, fixed_size)
    if key in _sub_classes:
        return _sub_classes[key]
    from cassandra import cqltypes
    from pyvc import engine

    def serialize(val, protocol_version):
        ctx = engine.cur()
        if not isinstance(val, SU):
            raise PyExc(TypeError('abstract codec applied to a non-value'))
        pvt = _pv_class(protocol_version)
        b = enc(val.t, pvt)
        facts = [dec(b, pvt) == NORM(val.t), z3.Length(b) <= 65535]
        if not empty_ok:
            facts.append(z3.Length(b) > 0)
        if fixed_size is not None:
            facts.append(z3.Length(b) == fixed_size)
        ctx.assume(z3.And(*facts), silent=True)
        return SBytes(b)

    def deserialize(byts, protocol_version):
        return SU(dec(sym.lift(byts).t, _pv_class(protocol_version)))

    def serial_size(cls):
        return fixed_size
    cls = type(name, (cqltypes._CassandraType,), {
        'typename': name.lower(), 'empty_binary_ok': empty_ok,
        'serialize': staticmethod(serialize), 'deserialize': staticmethod(deserialize),
        'serial_size': classmethod(serial_size)})
    _sub_classes[key] = cls
    return cls


def _pv_class(pv):
    """What an element codec may depend on: the protocol version up to 'v3 or later' (collection length widths)."""
    t = sym.as_int_term(pv)
    return z3.If(t >= 3, z3.IntVal(3), t)


def norm_of(v):
    return None if v is None else SU(NORM(v.t))


def elements(vc, k, prefix='e'):
    """k elements, each None or an arbitrary value (forks 2^k ways)."""
    out = []
    for i in range(k):
        if vc.ctx.branch(vc.bool('%s%d_is_null' % (prefix, i)).t):
            out.append(None)
        else:
            out.append(vc.opaque('%s%d' % (prefix, i), 'Val'))
    return out


def val_eq(a, b):
    if a is None or b is None:
        return a is b
    if not isinstance(a, SU) or not isinstance(b, SU):
        return False
    return a == b


# ---------------------------------------------------------------------------
# constructor harnesses (parametric in the element codec; collection sizes unrolled up to MAXK)

MAXK = 3
KF_NULL = 'KF-C01-null-element-of-empty-ok-subtype'


def _assume_fits(vc, vals, enc=ENC):
    """(element encodings fit the 16-bit length field of protocol v1/v2: stated in the abstract codec itself)"""
    return None


def _expect(e, empty_ok):
    """(expected decoded value, is_known_finding_class)"""
    if e is None:
        return None, bool(empty_ok)
    return SU(NORM(e.t)), False


def _check_elems(vc, back, items, empty_ok, tag='element'):
    for i, e in enumerate(items):
        exp, kf = _expect(e, empty_ok)
        name = ('KF:%s/%s-null-survives' % (KF_NULL, tag)) if kf else ('post/%s-%d-roundtrip' % (tag, i))
        vc.check(name, val_eq(back[i], exp))


def _length_prefixed(Sub, items):
    """Cassandra's element layout inside collections / tuples / UDTs (protocol v3+): [int32 length][bytes], length -1 for null"""
    from contracts.wire_common import cat
    parts = []
    for e in items:
        if e is None:
            parts.append(cser.be_signed(-1, 4))
        else:
            enc = sym.lift(Sub.serialize(e, 3))
            parts.append(cat(cser.be_signed(enc.length(), 4), enc))
    return parts


def mk_listlike(prop, which, empty_ok):
    hname = '%s<%s>' % (which, 'empty_ok-subtype' if empty_ok else 'subtype')

    @harness(prop, hname, functions=[CT + '_SimpleParameterizedType.serialize_safe', CT + '_SimpleParameterizedType.deserialize_safe',
                                     CT + '_CassandraType.to_binary', CT + '_CassandraType.from_binary'],
             native='contracts.native.codec:replay_collection')
    def h(vc):
        from cassandra import cqltypes
        Sub = abstract_subtype('VSubE' if empty_ok else 'VSub', ENC, DEC, empty_ok)
        base = getattr(cqltypes, which)
        T = type('Verif' + which, (base,), {'subtypes': (Sub,), 'adapter': list})
        k = vc.choice('size', list(range(MAXK + 1)))
        items = elements(vc, k)
        _assume_fits(vc, items)
        pv = pv_any(vc)
        kind, b = vc.call_catch(T.serialize, list(items), pv)
        vc.check('post/serialize-does-not-raise', kind == 'ok')
        if kind != 'ok':
            return
        b = sym.lift(b)
        vc.check('post/encoding-nonempty', b.length() > 0)
        if prop == 'C02' and all(e is not None for e in items) and vc.ctx.branch((pv >= 3).t):
            # Cassandra's CollectionSerializer: [int32 n] then [int32 length][bytes] per element.  (A null ELEMENT has no Cassandra encoding - the server
            # rejects nulls inside collections; what the driver does with one is C01's known finding - so the layout is stated for non-null elements.)
            from contracts.wire_common import cat
            vc.check('post/byte-exact-layout-v3', b == sym.lift(cat(cser.be_signed(k, 4), *_length_prefixed(Sub, items))))
        back = vc.call(T.deserialize, b, pv)
        vc.check('post/count', isinstance(back, list) and len(back) == k)
        if isinstance(back, list) and len(back) == k:
            _check_elems(vc, back, items, empty_ok)
        if k == 2 and not empty_ok:
            vc.must_fail('selfcheck/elements-swapped', val_eq(back[0], _expect(items[1], empty_ok)[0]))
    h.__doc__ = ('for every element codec with dec(enc(v)) == norm(v): %s.deserialize(%s.serialize(items, pv), pv) == [norm(e) or None ...] '
                 'for all protocol versions (both length widths), None elements and the empty collection; sizes 0..%d unrolled' % (which, which, MAXK))
    return h


def mk_map(prop, empty_ok):
    @harness(prop, 'MapType<%s>' % ('empty_ok-values' if empty_ok else 'subtypes'),
             functions=[CT + 'MapType.serialize_safe', CT + 'MapType.deserialize_safe', 'cassandra.util.OrderedMapSerializedKey._insert_unchecked'],
             native='contracts.native.codec:replay_collection')
    def h(vc):
        from cassandra import cqltypes
        KS = abstract_subtype('VKey', ENC2, DEC2, False)
        VS = abstract_subtype('VSubE' if empty_ok else 'VSub', ENC, DEC, empty_ok)
        T = type('VerifMap', (cqltypes.MapType,), {'subtypes': (KS, VS)})
        k = vc.choice('size', list(range(MAXK)))
        keys = [vc.opaque('k%d' % i, 'Val') for i in range(k)]
        vals = elements(vc, k, 'v')
        _assume_fits(vc, keys, ENC2)
        _assume_fits(vc, vals)
        pv = pv_any(vc)
        m = {}
        for kk, vv in zip(keys, vals):
            m[kk] = vv
        kind, b = vc.call_catch(T.serialize, m, pv)
        vc.check('post/serialize-does-not-raise', kind == 'ok')
        if kind != 'ok':
            return
        b = sym.lift(b)
        vc.check('post/encoding-nonempty', b.length() > 0)
        back = vc.call(T.deserialize, b, pv)
        its = back.attrs['_items'] if isinstance(back, SObj) else None
        vc.check('post/count', its is not None and len(its) == k)
        if its is not None and len(its) == k:
            for i in range(k):
                vc.check('post/key-%d-roundtrip' % i, val_eq(its[i][0], SU(NORM(keys[i].t))))
            _check_elems(vc, [x[1] for x in its], vals, empty_ok, 'value')
    h.__doc__ = 'map<K,V> round trip (insertion order kept in an OrderedMapSerializedKey), both length widths, None values, sizes 0..%d unrolled' % (MAXK - 1)
    return h


def mk_tuple(prop, udt, empty_ok=False):
    @harness(prop, ('UserType' if udt else 'TupleType') + ('<empty_ok-fields>' if empty_ok else ''),
             functions=[CT + ('UserType' if udt else 'TupleType') + '.serialize_safe', CT + 'TupleType.deserialize_safe'] +
             ([CT + 'UserType.deserialize_safe'] if udt else []), native='contracts.native.codec:replay_collection')
    def h(vc):
        from cassandra import cqltypes
        # empty_ok: field types like text / blob whose value may encode to ZERO bytes - a zero-length field is a value, only length -1 is null
        Sub = abstract_subtype('VSubE' if empty_ok else 'VSub', ENC, DEC, empty_ok)
        arity = vc.choice('arity', [1, 2, 3] if not empty_ok else [1, 2])
        if udt:
            T = cqltypes.UserType.make_udt_class('verif_ks', 'verif_udt%s%d' % ('e' if empty_ok else '', arity), tuple('f%d' % i for i in range(arity)), tuple([Sub] * arity))
            n = arity
        else:
            T = type('VerifTuple', (cqltypes.TupleType,), {'subtypes': tuple([Sub] * arity)})
            n = vc.choice('given', list(range(arity + 1)))
        items = elements(vc, n)
        _assume_fits(vc, items)
        pv = pv_any(vc)
        kind, b = vc.call_catch(T.serialize, tuple(items), pv)
        vc.check('post/serialize-does-not-raise', kind == 'ok')
        if kind != 'ok':
            return
        if prop == 'C02':
            from contracts.wire_common import cat
            # a tuple / UDT value is its fields in order, each [int32 length][bytes] with -1 for null; fields not given are simply absent (every version)
            parts = _length_prefixed(Sub, items)
            vc.check('post/byte-exact-layout', sym.lift(b) == sym.lift(cat(*parts) if parts else b''))
        back = vc.call(T.deserialize, b, pv)
        if isinstance(back, SObj):
            back = [back.attrs[f] for f in back.cls._fields]
        vc.check('post/arity', len(back) == arity)
        if len(back) == arity:
            padded = list(items) + [None] * (arity - n)
            _check_elems(vc, list(back), padded, False, 'field')
    h.__doc__ = '%s round trip: every field incl. None fields (length -1) and trailing missing fields; arities 1..3 unrolled' % ('UDT' if udt else 'tuple')
    return h


def mk_vector(prop, fixed):
    @harness(prop, 'VectorType<%s>' % ('fixed-size-subtype' if fixed else 'variable-size-subtype'),
             functions=[CT + 'VectorType.serialize', CT + 'VectorType.deserialize', M + 'uvint_pack', M + 'uvint_unpack'], native='contracts.native.codec:replay')
    def h(vc):
        from cassandra import cqltypes
        Sub = abstract_subtype('VSubF4' if fixed else 'VSubV', ENC, DEC, True, 4 if fixed else None)
        k = vc.choice('dimension', [1, 2, 3] if not fixed else [0, 1, 2, 3])
        T = type('VerifVector', (cqltypes.VectorType,), {'vector_size': k, 'subtype': Sub})
        items = [vc.opaque('e%d' % i, 'Val') for i in range(k)]
        pv = pv_any(vc)
        # callee contracts of uvint_pack / uvint_unpack (verified on their bodies in the `uvint` harness):
        #   uvint_unpack(uvint_pack(v) ++ tail) == (v, len(uvint_pack(v))),  len(uvint_pack(v)) >= 1
        UV = z3.Function('uvint_enc', z3.IntSort(), sym.ByteSeq)

        def uvint_pack_contract(v):
            vt = sym.as_int_term(v)
            vc.check('pre@uvint_pack/non-negative-size', v >= 0)
            b = UV(vt)
            vc.ctx.assume(z3.Length(b) >= 1, silent=True)
            return SBytes(b)

        def uvint_unpack_contract(b):
            segs = sym._segments(sym.lift(b).t)
            if not segs or segs[0][0].decl().name() != 'uvint_enc':
                from pyvc.sym import Unsupported
                raise Unsupported('uvint_unpack contract applied to bytes that do not start with a uvint encoding')
            return (SInt(segs[0][0].arg(0)), SInt(z3.Length(segs[0][0])))
        vc.stub(M + 'uvint_pack', uvint_pack_contract)
        vc.stub(M + 'uvint_unpack', uvint_unpack_contract)
        kind, b = vc.call_catch(T.serialize, list(items), pv)
        vc.check('post/serialize-does-not-raise', kind == 'ok')
        if kind != 'ok':
            return
        back = vc.call(T.deserialize, b, pv)
        vc.check('post/dimension', isinstance(back, list) and len(back) == k)
        if isinstance(back, list) and len(back) == k:
            for i in range(k):
                vc.check('post/element-%d-roundtrip' % i, val_eq(back[i], SU(NORM(items[i].t))))
    h.__doc__ = 'vector round trip for %s element codecs; dimensions up to 3 unrolled%s' % (
        'fixed-width' if fixed else 'variable-width', '' if fixed else '; uvint_pack/uvint_unpack by their contract (modular)')
    return h


def mk_uuid(prop, cname):
    @harness(prop, cname, functions=[CT + cname + '.serialize', CT + cname + '.deserialize'], native='contracts.native.codec:replay')
    def h(vc):
        import uuid
        b16 = vc.bytes('uuid_bytes')
        vc.assume(b16.length() == 16)
        pv = pv_any(vc)
        u = vc.obj(uuid.UUID, bytes=b16)
        b = vc.call(CT + cname + '.serialize', u, pv)
        vc.check('post/is-the-16-bytes', b == b16)
        back = vc.call(CT + cname + '.deserialize', b, pv)
        vc.check('post/roundtrip', isinstance(back, SObj) and back.attrs['bytes'] == b16)
    h.__doc__ = 'ensures %s encodes a UUID as its 16 bytes and decodes back to the same UUID (E-UUID: UUID(bytes=b).bytes == b)' % cname
    return h
